import Dbus.Proofs.Bus.Limits
import Dbus.Proofs.Bus.Monitors
/-
  C18 — a monitor sees everything that matches and can affect nothing.

  In the model the copies for monitors (`bus_transaction_capture`) are collected in `Tx.mon`, apart
  from `Tx.out`; nothing ever reads `mon`.
-/
namespace Dbus.Props.C18
open Dbus Dbus.Spec Dbus.Model Dbus.Model.Bus Dbus.Proofs.Bus

/-! ### what a capture adds -/

theorem emitTo_fold (m : Msg) : ∀ (l : List ConnId) (t : Tx),
    (l.foldl (emitTo m) t).mon = t.mon ++ l.map (Out.deliver · m)
  | [], t => by simp
  | r :: l, t => by
    simp only [List.foldl_cons, List.map_cons]
    rw [emitTo_fold m l]
    simp [emitTo]

/-- **Exactly one copy each.** A capture appends one copy of the message for each capture target, in
    connection order, and touches nothing else. -/
theorem capture_exact (t : Tx) (s a : Option ConnId) (m : Msg) :
    (capture t s a m).mon = t.mon ++ (captureTargets t.bus s a m).map (Out.deliver · m) ∧
    (capture t s a m).bus = t.bus ∧ (capture t s a m).out = t.out :=
  ⟨emitTo_fold m _ t, (capture_frame t s a m).1, (capture_frame t s a m).2⟩

/-- who the targets are: while there is a monitor at all, exactly the connections holding a monitor
    rule that matches the message, except the addressed recipient -/
theorem target_iff (b : Bus) (s a : Option ConnId) (m : Msg) (r : ConnId) :
    r ∈ captureTargets b s a m ↔
      (b.conns.any (·.monitor) = true ∧ ∃ x ∈ b.conns, x.id = r ∧ some r ≠ a ∧
        ∃ rule ∈ x.monitorRules, ruleMatches rule (matchCtx b s a m) = true) := by
  unfold captureTargets
  by_cases hm : b.conns.any (·.monitor) = true
  · simp only [hm, Bool.not_true, Bool.false_eq_true, if_false, List.mem_map, List.mem_filter, Bool.and_eq_true,
      bne_iff_ne, ne_eq, List.any_eq_true, true_and]
    constructor
    · rintro ⟨x, ⟨hx, hne, rule, hr, hmatch⟩, rfl⟩
      exact ⟨x, hx, rfl, hne, rule, hr, hmatch⟩
    · rintro ⟨x, hx, rfl, hne, rule, hr, hmatch⟩
      exact ⟨x, ⟨hx, hne, rule, hr, hmatch⟩, rfl⟩
  · have : b.conns.any (·.monitor) = false := by simpa using hm
    simp [this]

/-- with distinct connection ids nobody is a target twice -/
theorem targets_nodup (b : Bus) (s a : Option ConnId) (m : Msg) (hn : (b.conns.map (·.id)).Nodup) :
    (captureTargets b s a m).Nodup := by
  unfold captureTargets
  split
  · exact List.nodup_nil
  · exact hn.sublist (List.Sublist.map _ List.filter_sublist)

/-! ### the monitor list only grows within a transaction -/

def MonExt (t t' : Tx) : Prop := ∃ l, t'.mon = t.mon ++ l
theorem MonExt.refl (t : Tx) : MonExt t t := ⟨[], by simp⟩
theorem MonExt.trans {a b c : Tx} (h1 : MonExt a b) (h2 : MonExt b c) : MonExt a c := by
  obtain ⟨l1, e1⟩ := h1; obtain ⟨l2, e2⟩ := h2
  exact ⟨l1 ++ l2, by rw [e2, e1, List.append_assoc]⟩

theorem monExt_capture (t : Tx) (s a : Option ConnId) (m : Msg) : MonExt t (capture t s a m) :=
  ⟨_, (capture_exact t s a m).1⟩
theorem monExt_captureError (t : Tx) (a : Option ConnId) (m : Msg) (e : Err) : MonExt t (captureError t a m e) :=
  monExt_capture _ _ _ _
theorem monExt_setPending (t : Tx) (p : List Pending) : MonExt t (t.setPending p) := ⟨[], by simp [Tx.setPending]⟩
theorem monExt_emit (t : Tx) (o : Out) : MonExt t (t.emit o) := ⟨[], by simp [Tx.emit]⟩

theorem monExt_sendStamped (t : Tx) (to : ConnId) (m : Msg) : MonExt t (sendStamped t to m) := by
  unfold sendStamped
  rcases checkPolicy t.bus none (some to) (some to) m with ⟨p, err⟩
  cases err with
  | some e => exact (monExt_setPending t p).trans (monExt_captureError _ _ _ _)
  | none => exact (monExt_setPending t p).trans (monExt_emit _ _)

theorem monExt_sendOne (t : Tx) (s a : Option ConnId) (to : ConnId) (m : Msg) : MonExt t (sendOne t s a to m) := by
  unfold sendOne
  rcases checkPolicy t.bus s a (some to) m with ⟨p, err⟩
  cases err with
  | some e => exact (monExt_setPending t p).trans (monExt_captureError _ _ _ _)
  | none =>
    dsimp only
    split
    · exact (monExt_setPending t p).trans (monExt_captureError _ _ _ _)
    · exact (monExt_setPending t p).trans (monExt_emit _ _)

theorem monExt_fold {α : Type} (f : Tx → α → Tx) (hf : ∀ t a, MonExt t (f t a)) : ∀ (l : List α) (t : Tx), MonExt t (l.foldl f t)
  | [], t => MonExt.refl t
  | a :: l, t => (hf t a).trans (monExt_fold f hf l _)

theorem monExt_sendMatches (t : Tx) (s a : Option ConnId) (m : Msg) : MonExt t (sendMatches t s a m) :=
  monExt_fold _ (fun t r => monExt_sendOne t s a r m) _ t

theorem monExt_sendAddressed (t : Tx) (s : Option ConnId) (a : ConnId) (m : Msg) : MonExt t (sendAddressed t s a m).1 := by
  unfold sendAddressed
  rcases checkPolicy t.bus s (some a) (some a) m with ⟨p, err⟩
  cases err with
  | some e => exact monExt_setPending t p
  | none =>
    dsimp only
    split
    · exact monExt_setPending t p
    · exact (monExt_setPending t p).trans (monExt_emit _ _)

theorem monExt_dispatchMatches (t : Tx) (s a : Option ConnId) (m : Msg) : MonExt t (dispatchMatches t s a m).1 := by
  unfold dispatchMatches
  cases a with
  | none => exact monExt_sendMatches t s none m
  | some a =>
    dsimp only
    have h1 := monExt_sendAddressed t s a m
    rcases h : sendAddressed t s a m with ⟨t1, e⟩
    rw [h] at h1
    cases e with
    | some e => exact h1
    | none => exact h1.trans (monExt_sendMatches t1 s (some a) m)

/-! ### what is captured -/

/-- **Every routed message is shown to the monitors before the bus decides anything about it**:
    unicast (deliverable, refused or ownerless alike) and broadcast. What follows in the list are
    copies of errors the bus makes. -/
theorem routed_message_is_captured (t : Tx) (c : ConnId) (m : Msg) :
    ∃ (a : Option ConnId) (rest : List Out),
      (route t c m).1.mon = t.mon ++ (captureTargets t.bus (some c) a m).map (Out.deliver · m) ++ rest ∧
      (a = none ∨ ∃ d, m.dest = some d ∧ t.bus.primary? d = a) := by
  unfold route
  cases hd : m.dest with
  | none =>
    dsimp only
    obtain ⟨l, hl⟩ := monExt_dispatchMatches (capture t (some c) none m) (some c) none m
    exact ⟨none, l, by rw [hl, (capture_exact t (some c) none m).1], Or.inl rfl⟩
  | some d =>
    dsimp only
    cases hp : t.bus.primary? d with
    | none =>
      dsimp only
      exact ⟨none, [], by rw [(capture_exact t (some c) none m).1]; simp, Or.inl rfl⟩
    | some a =>
      dsimp only
      obtain ⟨l, hl⟩ := monExt_dispatchMatches (capture t (some c) (some a) m) (some c) (some a) m
      exact ⟨some a, l, by rw [hl, (capture_exact t (some c) (some a) m).1], Or.inr ⟨d, rfl, hp⟩⟩

/-- **Whatever the bus itself sends is shown too** (replies, errors, NameAcquired/NameLost …): the
    stamped message, before the recipient's policy is consulted. -/
theorem driver_message_is_captured (t : Tx) (to : ConnId) (m : Msg) :
    ∃ rest, (sendFromDriver t to m).mon =
      t.mon ++ (captureTargets t.bus none (some to) (stampDriver t.bus to m)).map (Out.deliver · (stampDriver t.bus to m)) ++ rest := by
  unfold sendFromDriver
  obtain ⟨l, hl⟩ := monExt_sendStamped (capture t none (some to) (stampDriver t.bus to m)) to (stampDriver t.bus to m)
  exact ⟨l, by rw [hl, (capture_exact t none (some to) (stampDriver t.bus to m)).1]⟩

/-- NameOwnerChanged broadcasts likewise -/
theorem owner_changed_is_captured (t : Tx) (n o w : Bytes) :
    ∃ rest, (sigOwnerChanged t n o w).mon =
      t.mon ++ (captureTargets t.bus none none (ownerChangedMsg n o w)).map (Out.deliver · (ownerChangedMsg n o w)) ++ rest := by
  unfold sigOwnerChanged
  obtain ⟨l, hl⟩ := monExt_dispatchMatches (capture t none none (ownerChangedMsg n o w)) none none (ownerChangedMsg n o w)
  exact ⟨l, by rw [hl, (capture_exact t none none (ownerChangedMsg n o w)).1]⟩

/-- a message to the bus driver: shown with the sender the shared message object ends up with -/
theorem driver_call_is_captured (tbl : List IfaceRow) (t : Tx) (c : ConnId) (m : Msg) :
    ∃ shown rest, (toDriver tbl t c m).1.mon =
      t.mon ++ (captureTargets t.bus (some c) none m).map (Out.deliver · shown) ++ rest ∧
      shown = m.setSender (senderNameOf (toDriver tbl t c m).1.bus c) :=
  ⟨_, _, rfl, rfl⟩

/-! ### a monitor is inert -/

/-- a monitor is never picked as a match-rule recipient -/
theorem monitor_never_recipient (b : Bus) (s a : Option ConnId) (m : Msg) (x : Conn) (hx : x ∈ b.conns)
    (hm : x.monitor = true) (hn : (b.conns.map (·.id)).Nodup) : x.id ∉ recipients b s a m := by
  unfold recipients
  intro h
  simp only [List.mem_map, List.mem_filter, Bool.and_eq_true, Bool.not_eq_true'] at h
  obtain ⟨y, ⟨hy, ⟨hym, _⟩, _⟩, hid⟩ := h
  have : y = x := inj_of_nodup_map' _ hn hy hx hid
  rw [this, hm] at hym
  cases hym

/-- **A monitor that sends is disconnected** — any message that reaches `bus_dispatch` … -/
theorem monitor_sending_is_dropped (tbl : List IfaceRow) (b : Bus) (c : ConnId) (m0 : Msg) (x : Conn)
    (hx : b.conn? c = some x) (hm : x.monitor = true)
    (hnp : ((strip m0).dest.isNone && (strip m0).iface == some PEER_IFACE) = false) :
    dispatch tbl b c m0 = dropConn b c := by
  unfold dispatch
  simp only [hx, hnp, Bool.false_eq_true, if_false, hm, if_true]

/-- … but not one that the connection's built-in peer filter intercepts first (known finding F18):
    a destination-less message on org.freedesktop.DBus.Peer is answered, and the monitor stays -/
theorem f18_peer_filter_answers_monitors (tbl : List IfaceRow) (b : Bus) (c : ConnId) (m0 : Msg) (x : Conn)
    (hx : b.conn? c = some x)
    (hp : ((strip m0).dest.isNone && (strip m0).iface == some PEER_IFACE) = true) :
    (dispatch tbl b c m0).bus = b ∧ (dispatch tbl b c m0).out = [Out.deliver c (peerFilterReply (strip m0))] := by
  unfold dispatch
  simp only [hx, hp, if_true]
  exact ⟨trivial, trivial⟩

/-- becoming a monitor: the filter is what was asked for (always eavesdropping), the ordinary rules
    are gone, the flag is set -/
theorem monitor_rules_eavesdrop : ∀ (texts : List Bytes) (rules : List MatchRule),
    parseMonitorRules texts = .ok rules → ∀ r ∈ rules, r.eavesdrop = true
  | [], rules, h => by simp only [parseMonitorRules, Except.ok.injEq] at h; subst h; intro r hr; cases hr
  | txt :: rest, rules, h => by
    unfold parseMonitorRules at h
    split at h
    · rename_i r0 _
      split at h
      · rename_i rs hrs
        simp only [Except.ok.injEq] at h
        subst h
        intro r hr
        simp only [List.mem_cons] at hr
        rcases hr with rfl | hr
        · rfl
        · exact monitor_rules_eavesdrop rest rs hrs r hr
      · cases h
    · cases h
    · cases h

/-! ### what the other clients observe

  FULL STATEMENT (C18, not proved in this generality): for every history, the deliveries to
  connections that are not monitors are the same as in the history in which the monitors never
  became monitors.  It is tested differentially on the daemon (every history re-run with the
  monitor gone) and holds structurally in the model (`Tx.mon` is written, never read).

  PROVED PART (`…_partial`): one dispatch.  With every monitor turned back into an idle ordinary
  connection (`shade`: same place among the connections, no filter, not a monitor) the gate gives
  the same verdicts, the same connections have a matching rule, and routing a message or sending a
  driver message produces the same ordinary deliveries, the same error and the same state changes.
  For peer traffic (every message not addressed to the bus driver) this is lifted to a whole step of
  the bus (`peer_traffic_step_ignores_monitors_partial`); the registry edits are covered too
  (`shadow_acquire`, `shadow_release`, `shadow_removeOwner` in Proofs/Bus/Monitors.lean).  What is
  missing for the full statement is the same congruence for the rest of the driver's methods (Hello,
  AddMatch/RemoveMatch, BecomeMonitor itself) and the disconnect path, the invariant that no pending
  reply involves a monitor, and the induction over histories. -/

theorem gate_ignores_monitors (b : Bus) (s a p : Option ConnId) (m : Msg) :
    checkPolicy (shade none b) s a p m = checkPolicy b s a p m := checkPolicy_shade b s a p m

theorem others_observe_the_same_partial (b : Bus) (c : ConnId) (m : Msg) :
    (route { bus := shade none b } c m).1.out = (route { bus := b } c m).1.out ∧
    (route { bus := shade none b } c m).2 = (route { bus := b } c m).2 ∧
    (route { bus := shade none b } c m).1.bus = shade none (route { bus := b } c m).1.bus := by
  have h := shadow_route (t := { bus := b }) (t' := { bus := shade none b }) ⟨rfl, rfl⟩ c m
  exact ⟨h.1.2, h.2, h.1.1⟩

theorem driver_sends_the_same_partial (b : Bus) (to : ConnId) (m : Msg) :
    (sendFromDriver { bus := shade none b } to m).out = (sendFromDriver { bus := b } to m).out ∧
    (sendFromDriver { bus := shade none b } to m).bus = shade none (sendFromDriver { bus := b } to m).bus := by
  have h := shadow_sendFromDriver (t := { bus := b }) (t' := { bus := shade none b }) ⟨rfl, rfl⟩ to m
  exact ⟨h.2, h.1⟩

/-- a whole step of the bus for peer traffic (everything but calls to the bus driver): same ordinary output, same state
    up to shading -/
theorem peer_traffic_step_ignores_monitors_partial (tbl : List IfaceRow) (b : Bus) (c : ConnId) (x : Conn) (m0 : Msg)
    (hx : b.conn? c = some x) (hmon : x.monitor = false) (hname : x.name.isSome = true)
    (hdest : ((strip m0).setSender (senderNameOf b c)).dest ≠ some BUS_NAME) :
    (step tbl (shade none b) (.msg c m0)).out = (step tbl b (.msg c m0)).out ∧
    (step tbl (shade none b) (.msg c m0)).bus = shade none (step tbl b (.msg c m0)).bus :=
  dispatch_peer_traffic_shade tbl b c x m0 hx hmon hname hdest

/-- the side condition is what `BecomeMonitor` establishes: the new monitor is left without ordinary rules -/
theorem new_monitor_has_no_rules (c : ConnId) (x : Conn) (rules : List MatchRule) (b : Bus) :
    ∀ y ∈ (joinMonitors c x rules b).conns, y.id = c → y.rules = [] ∧ y.monitor = true := by
  intro y hy hid
  unfold joinMonitors Bus.updConn at hy
  simp only [List.mem_map] at hy
  obtain ⟨y0, _, rfl⟩ := hy
  by_cases h : (y0.id == c) = true
  · simp only [h, if_true]; trivial
  · simp only [h, if_false] at hid ⊢
    exact absurd (by simpa using hid) h

/-- the hypotheses are met by a bus with a monitor in it -/
example : MonClean { conns := [{ id := 1, uid := 0, monitor := true, monitorRules := [default] }, { id := 2, uid := 0, rules := [default] }] } := by
  intro x hx hm
  simp only [List.mem_cons, List.mem_nil_iff, or_false] at hx
  rcases hx with rfl | rfl
  · rfl
  · cases hm

end Dbus.Props.C18
