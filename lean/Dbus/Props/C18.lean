import Dbus.Proofs.Bus.Limits
import Dbus.Proofs.Bus.Monitors
import Dbus.Proofs.Bus.MonInv
/-
  C18 — a monitor sees everything that matches and can affect nothing.

  In the model the copies for monitors (`bus_transaction_capture`) are collected in `Tx.mon`, apart
  from `Tx.out`; nothing ever reads `mon`.
-/
namespace Dbus.Props.C18
open Dbus Dbus.Spec Dbus.Model Dbus.Model.Bus Dbus.Proofs.Bus

/-! ### what a capture adds -/

theorem emitTo_fold (m : Msg) : ∀ (l : List ConnId) (t : Tx),
    (l.foldl (emitTo m) t).mon = t.mon ++ l.map (Out.deliver · m)
  | [], t => by simp
  | r :: l, t => by
    simp only [List.foldl_cons, List.map_cons]
    rw [emitTo_fold m l]
    simp [emitTo]

/-- **Exactly one copy each.** A capture appends one copy of the message for each capture target, in
    connection order, and touches nothing else. -/
theorem capture_exact (t : Tx) (s a : Option ConnId) (m : Msg) :
    (capture t s a m).mon = t.mon ++ (captureTargets t.bus s a m).map (Out.deliver · m) ∧
    (capture t s a m).bus = t.bus ∧ (capture t s a m).out = t.out :=
  ⟨emitTo_fold m _ t, (capture_frame t s a m).1, (capture_frame t s a m).2⟩

/-- who the targets are: while there is a monitor at all, exactly the connections holding a monitor
    rule that matches the message, except the addressed recipient -/
theorem target_iff (b : Bus) (s a : Option ConnId) (m : Msg) (r : ConnId) :
    r ∈ captureTargets b s a m ↔
      (b.conns.any (·.monitor) = true ∧ ∃ x ∈ b.conns, x.id = r ∧ some r ≠ a ∧
        ∃ rule ∈ x.monitorRules, ruleMatches rule (matchCtx b s a m) = true) := by
  unfold captureTargets
  by_cases hm : b.conns.any (·.monitor) = true
  · simp only [hm, Bool.not_true, Bool.false_eq_true, if_false, List.mem_map, List.mem_filter, Bool.and_eq_true,
      bne_iff_ne, ne_eq, List.any_eq_true, true_and]
    constructor
    · rintro ⟨x, ⟨hx, hne, rule, hr, hmatch⟩, rfl⟩
      exact ⟨x, hx, rfl, hne, rule, hr, hmatch⟩
    · rintro ⟨x, hx, rfl, hne, rule, hr, hmatch⟩
      exact ⟨x, ⟨hx, hne, rule, hr, hmatch⟩, rfl⟩
  · have : b.conns.any (·.monitor) = false := by simpa using hm
    simp [this]

/-- with distinct connection ids nobody is a target twice -/
theorem targets_nodup (b : Bus) (s a : Option ConnId) (m : Msg) (hn : (b.conns.map (·.id)).Nodup) :
    (captureTargets b s a m).Nodup := by
  unfold captureTargets
  split
  · exact List.nodup_nil
  · exact hn.sublist (List.Sublist.map _ List.filter_sublist)

/-! ### the monitor list only grows within a transaction -/

def MonExt (t t' : Tx) : Prop := ∃ l, t'.mon = t.mon ++ l
theorem MonExt.refl (t : Tx) : MonExt t t := ⟨[], by simp⟩
theorem MonExt.trans {a b c : Tx} (h1 : MonExt a b) (h2 : MonExt b c) : MonExt a c := by
  obtain ⟨l1, e1⟩ := h1; obtain ⟨l2, e2⟩ := h2
  exact ⟨l1 ++ l2, by rw [e2, e1, List.append_assoc]⟩

theorem monExt_capture (t : Tx) (s a : Option ConnId) (m : Msg) : MonExt t (capture t s a m) :=
  ⟨_, (capture_exact t s a m).1⟩
theorem monExt_captureError (t : Tx) (a : Option ConnId) (m : Msg) (e : Err) : MonExt t (captureError t a m e) :=
  monExt_capture _ _ _ _
theorem monExt_setPending (t : Tx) (p : List Pending) : MonExt t (t.setPending p) := ⟨[], by simp [Tx.setPending]⟩
theorem monExt_emit (t : Tx) (o : Out) : MonExt t (t.emit o) := ⟨[], by simp [Tx.emit]⟩

theorem monExt_sendStamped (t : Tx) (to : ConnId) (m : Msg) : MonExt t (sendStamped t to m) := by
  unfold sendStamped
  rcases checkPolicy t.bus none (some to) (some to) m with ⟨p, err⟩
  cases err with
  | some e => exact (monExt_setPending t p).trans (monExt_captureError _ _ _ _)
  | none => exact (monExt_setPending t p).trans (monExt_emit _ _)

theorem monExt_sendOne (t : Tx) (s a : Option ConnId) (to : ConnId) (m : Msg) : MonExt t (sendOne t s a to m) := by
  unfold sendOne
  rcases checkPolicy t.bus s a (some to) m with ⟨p, err⟩
  cases err with
  | some e => exact (monExt_setPending t p).trans (monExt_captureError _ _ _ _)
  | none =>
    dsimp only
    split
    · exact (monExt_setPending t p).trans (monExt_captureError _ _ _ _)
    · exact (monExt_setPending t p).trans (monExt_emit _ _)

theorem monExt_fold {α : Type} (f : Tx → α → Tx) (hf : ∀ t a, MonExt t (f t a)) : ∀ (l : List α) (t : Tx), MonExt t (l.foldl f t)
  | [], t => MonExt.refl t
  | a :: l, t => (hf t a).trans (monExt_fold f hf l _)

theorem monExt_sendMatches (t : Tx) (s a : Option ConnId) (m : Msg) : MonExt t (sendMatches t s a m) :=
  monExt_fold _ (fun t r => monExt_sendOne t s a r m) _ t

theorem monExt_sendAddressed (t : Tx) (s : Option ConnId) (a : ConnId) (m : Msg) : MonExt t (sendAddressed t s a m).1 := by
  unfold sendAddressed
  rcases checkPolicy t.bus s (some a) (some a) m with ⟨p, err⟩
  cases err with
  | some e => exact monExt_setPending t p
  | none =>
    dsimp only
    split
    · exact monExt_setPending t p
    · exact (monExt_setPending t p).trans (monExt_emit _ _)

theorem monExt_dispatchMatches (t : Tx) (s a : Option ConnId) (m : Msg) : MonExt t (dispatchMatches t s a m).1 := by
  unfold dispatchMatches
  cases a with
  | none => exact monExt_sendMatches t s none m
  | some a =>
    dsimp only
    have h1 := monExt_sendAddressed t s a m
    rcases h : sendAddressed t s a m with ⟨t1, e⟩
    rw [h] at h1
    cases e with
    | some e => exact h1
    | none => exact h1.trans (monExt_sendMatches t1 s (some a) m)

/-! ### what is captured -/

/-- **Every routed message is shown to the monitors before the bus decides anything about it**:
    unicast (deliverable, refused or ownerless alike) and broadcast. What follows in the list are
    copies of errors the bus makes. -/
theorem routed_message_is_captured (t : Tx) (c : ConnId) (m : Msg) :
    ∃ (a : Option ConnId) (rest : List Out),
      (route t c m).1.mon = t.mon ++ (captureTargets t.bus (some c) a m).map (Out.deliver · m) ++ rest ∧
      (a = none ∨ ∃ d, m.dest = some d ∧ t.bus.primary? d = a) := by
  unfold route
  cases hd : m.dest with
  | none =>
    dsimp only
    obtain ⟨l, hl⟩ := monExt_dispatchMatches (capture t (some c) none m) (some c) none m
    exact ⟨none, l, by rw [hl, (capture_exact t (some c) none m).1], Or.inl rfl⟩
  | some d =>
    dsimp only
    cases hp : t.bus.primary? d with
    | none =>
      dsimp only
      exact ⟨none, [], by rw [(capture_exact t (some c) none m).1]; simp, Or.inl rfl⟩
    | some a =>
      dsimp only
      obtain ⟨l, hl⟩ := monExt_dispatchMatches (capture t (some c) (some a) m) (some c) (some a) m
      exact ⟨some a, l, by rw [hl, (capture_exact t (some c) (some a) m).1], Or.inr ⟨d, rfl, hp⟩⟩

/-- **Whatever the bus itself sends is shown too** (replies, errors, NameAcquired/NameLost …): the
    stamped message, before the recipient's policy is consulted. -/
theorem driver_message_is_captured (t : Tx) (to : ConnId) (m : Msg) :
    ∃ rest, (sendFromDriver t to m).mon =
      t.mon ++ (captureTargets t.bus none (some to) (stampDriver t.bus to m)).map (Out.deliver · (stampDriver t.bus to m)) ++ rest := by
  unfold sendFromDriver
  obtain ⟨l, hl⟩ := monExt_sendStamped (capture t none (some to) (stampDriver t.bus to m)) to (stampDriver t.bus to m)
  exact ⟨l, by rw [hl, (capture_exact t none (some to) (stampDriver t.bus to m)).1]⟩

/-- NameOwnerChanged broadcasts likewise -/
theorem owner_changed_is_captured (t : Tx) (n o w : Bytes) :
    ∃ rest, (sigOwnerChanged t n o w).mon =
      t.mon ++ (captureTargets t.bus none none (ownerChangedMsg n o w)).map (Out.deliver · (ownerChangedMsg n o w)) ++ rest := by
  unfold sigOwnerChanged
  obtain ⟨l, hl⟩ := monExt_dispatchMatches (capture t none none (ownerChangedMsg n o w)) none none (ownerChangedMsg n o w)
  exact ⟨l, by rw [hl, (capture_exact t none none (ownerChangedMsg n o w)).1]⟩

/-- a message to the bus driver: shown with the sender the shared message object ends up with -/
theorem driver_call_is_captured (tbl : List IfaceRow) (t : Tx) (c : ConnId) (m : Msg) :
    ∃ shown rest, (toDriver tbl t c m).1.mon =
      t.mon ++ (captureTargets t.bus (some c) none m).map (Out.deliver · shown) ++ rest ∧
      shown = m.setSender (senderNameOf (toDriver tbl t c m).1.bus c) :=
  ⟨_, _, rfl, rfl⟩

/-! ### a monitor is inert -/

/-- a monitor is never picked as a match-rule recipient -/
theorem monitor_never_recipient (b : Bus) (s a : Option ConnId) (m : Msg) (x : Conn) (hx : x ∈ b.conns)
    (hm : x.monitor = true) (hn : (b.conns.map (·.id)).Nodup) : x.id ∉ recipients b s a m := by
  unfold recipients
  intro h
  simp only [List.mem_map, List.mem_filter, Bool.and_eq_true, Bool.not_eq_true'] at h
  obtain ⟨y, ⟨hy, ⟨hym, _⟩, _⟩, hid⟩ := h
  have : y = x := inj_of_nodup_map' _ hn hy hx hid
  rw [this, hm] at hym
  cases hym

/-- **A monitor that sends is disconnected** — any message that reaches `bus_dispatch` … -/
theorem monitor_sending_is_dropped (tbl : List IfaceRow) (b : Bus) (c : ConnId) (m0 : Msg) (x : Conn)
    (hx : b.conn? c = some x) (hm : x.monitor = true)
    (hnp : ((strip m0).dest.isNone && (strip m0).iface == some PEER_IFACE) = false) :
    dispatch tbl b c m0 = dropConn b c := by
  unfold dispatch
  simp only [hx, hnp, Bool.false_eq_true, if_false, hm, if_true]

/-- … but not one that the connection's built-in peer filter intercepts first (known finding F18):
    a destination-less message on org.freedesktop.DBus.Peer is answered, and the monitor stays -/
theorem f18_peer_filter_answers_monitors (tbl : List IfaceRow) (b : Bus) (c : ConnId) (m0 : Msg) (x : Conn)
    (hx : b.conn? c = some x)
    (hp : ((strip m0).dest.isNone && (strip m0).iface == some PEER_IFACE) = true) :
    (dispatch tbl b c m0).bus = b ∧ (dispatch tbl b c m0).out = [Out.deliver c (peerFilterReply (strip m0))] := by
  unfold dispatch
  simp only [hx, hp, if_true]
  exact ⟨trivial, trivial⟩

/-- becoming a monitor: the filter is what was asked for (always eavesdropping), the ordinary rules
    are gone, the flag is set -/
theorem monitor_rules_eavesdrop : ∀ (texts : List Bytes) (rules : List MatchRule),
    parseMonitorRules texts = .ok rules → ∀ r ∈ rules, r.eavesdrop = true
  | [], rules, h => by simp only [parseMonitorRules, Except.ok.injEq] at h; subst h; intro r hr; cases hr
  | txt :: rest, rules, h => by
    unfold parseMonitorRules at h
    split at h
    · rename_i r0 _
      split at h
      · rename_i rs hrs
        simp only [Except.ok.injEq] at h
        subst h
        intro r hr
        simp only [List.mem_cons] at hr
        rcases hr with rfl | hr
        · rfl
        · exact monitor_rules_eavesdrop rest rs hrs r hr
      · cases h
    · cases h
    · cases h

/-! ### what the other clients observe

  FULL STATEMENT (C18): for every history, what the bus sends to its clients is what it sends in the
  history in which the monitors never became monitors.

  Made precise for the core bus (`run`, i.e. without the activation and clock layers): `shade none b`
  is `b` with every monitor turned into a registered ordinary connection without match rules (it keeps
  its place, its unique name and its uid, so every count the limits look at is the same).  The world
  without monitors (`shadowRun`) takes the same events, except that a monitor that sends - which the
  bus answers by disconnecting it - is a connection that sent something unacceptable (`shadowEv`); its
  state after every step is shaded again, so a BecomeMonitor call there has all its effects (names
  released, rules dropped, reply sent) but leaves an ordinary connection.

  PROVED: `others_observe_the_same` - for every history from every good state (`Good`: the invariant
  of `Proofs/Bus/MonInv.lean`, which holds in every reachable state, `good_run`), hence from the empty
  bus (`others_observe_the_same_from_start`): the two runs produce the same outputs, step by step, and
  their states agree up to shading.  `step_ignores_monitors` is the one-step version.

  PARTIAL still: the activation layer (`stepA`: a message held for a service that is being started is
  delivered later; if its sender has become a monitor in between, a pending reply with a monitor as
  caller is recorded, which the invariant excludes for the core) and the clock layer are not covered
  by the history theorem; for them the per-dispatch theorems below and the differential test stand. -/

theorem gate_ignores_monitors (b : Bus) (s a p : Option ConnId) (m : Msg) :
    checkPolicy (shade none b) s a p m = checkPolicy b s a p m := checkPolicy_shade b s a p m

theorem others_observe_the_same_partial (b : Bus) (c : ConnId) (m : Msg) :
    (route { bus := shade none b } c m).1.out = (route { bus := b } c m).1.out ∧
    (route { bus := shade none b } c m).2 = (route { bus := b } c m).2 ∧
    (route { bus := shade none b } c m).1.bus = shade none (route { bus := b } c m).1.bus := by
  have h := shadow_route (t := { bus := b }) (t' := { bus := shade none b }) ⟨rfl, rfl⟩ c m
  exact ⟨h.1.2, h.2, h.1.1⟩

theorem driver_sends_the_same_partial (b : Bus) (to : ConnId) (m : Msg) :
    (sendFromDriver { bus := shade none b } to m).out = (sendFromDriver { bus := b } to m).out ∧
    (sendFromDriver { bus := shade none b } to m).bus = shade none (sendFromDriver { bus := b } to m).bus := by
  have h := shadow_sendFromDriver (t := { bus := b }) (t' := { bus := shade none b }) ⟨rfl, rfl⟩ to m
  exact ⟨h.2, h.1⟩

/-- a whole step of the bus for peer traffic (everything but calls to the bus driver): same ordinary output, same state
    up to shading -/
theorem peer_traffic_step_ignores_monitors_partial (tbl : List IfaceRow) (b : Bus) (c : ConnId) (x : Conn) (m0 : Msg)
    (hx : b.conn? c = some x) (hmon : x.monitor = false) (hname : x.name.isSome = true)
    (hdest : ((strip m0).setSender (senderNameOf b c)).dest ≠ some BUS_NAME) :
    (step tbl (shade none b) (.msg c m0)).out = (step tbl b (.msg c m0)).out ∧
    (step tbl (shade none b) (.msg c m0)).bus = shade none (step tbl b (.msg c m0)).bus :=
  dispatch_peer_traffic_shade tbl b c x m0 hx hmon hname hdest

/-- the side condition is what `BecomeMonitor` establishes: the new monitor is left without ordinary rules -/
theorem new_monitor_has_no_rules (c : ConnId) (x : Conn) (rules : List MatchRule) (b : Bus) :
    ∀ y ∈ (joinMonitors c x rules b).conns, y.id = c → y.rules = [] ∧ y.monitor = true := by
  intro y hy hid
  unfold joinMonitors Bus.updConn at hy
  simp only [List.mem_map] at hy
  obtain ⟨y0, _, rfl⟩ := hy
  by_cases h : (y0.id == c) = true
  · simp only [h, if_true]; trivial
  · simp only [h, if_false] at hid ⊢
    exact absurd (by simpa using hid) h

/-! ### the whole history -/

/-- the world without monitors, run alongside the real one (which only says which senders are monitors) -/
def shadowRun (tbl : List IfaceRow) : Bus → Bus → List Ev → List (List Out)
  | _, _, [] => []
  | b, s, ev :: evs =>
    (step tbl s (shadowEv b ev)).out :: shadowRun tbl (step tbl b ev).bus (shade none (step tbl s (shadowEv b ev)).bus) evs

theorem foldl_run_acc (tbl : List IfaceRow) : ∀ (evs : List Ev) (b : Bus) (acc : List (List Out)),
    evs.foldl (fun (a : Bus × List (List Out)) ev => ((step tbl a.1 ev).bus, a.2 ++ [(step tbl a.1 ev).out])) (b, acc) =
    ((evs.foldl (fun (a : Bus × List (List Out)) ev => ((step tbl a.1 ev).bus, a.2 ++ [(step tbl a.1 ev).out])) (b, [])).1,
     acc ++ (evs.foldl (fun (a : Bus × List (List Out)) ev => ((step tbl a.1 ev).bus, a.2 ++ [(step tbl a.1 ev).out])) (b, [])).2)
  | [], b, acc => by simp
  | ev :: evs, b, acc => by
    simp only [List.foldl_cons, List.nil_append]
    rw [foldl_run_acc tbl evs _ (acc ++ [(step tbl b ev).out]), foldl_run_acc tbl evs _ [(step tbl b ev).out]]
    simp [List.append_assoc]

theorem run_cons (tbl : List IfaceRow) (b : Bus) (ev : Ev) (evs : List Ev) :
    (run tbl b (ev :: evs)).2 = (step tbl b ev).out :: (run tbl (step tbl b ev).bus evs).2 ∧
    (run tbl b (ev :: evs)).1 = (run tbl (step tbl b ev).bus evs).1 := by
  unfold run
  simp only [List.foldl_cons, List.nil_append]
  rw [foldl_run_acc tbl evs _ [(step tbl b ev).out]]
  exact ⟨rfl, rfl⟩

/-- **One step, with and without the monitors**, in every good state: the same outputs, the same state up to shading. -/
theorem step_ignores_monitors (tbl : List IfaceRow) (b : Bus) (h : Good b) (ev : Ev) :
    (step tbl (shade none b) (shadowEv b ev)).out = (step tbl b ev).out ∧
    shade none (step tbl (shade none b) (shadowEv b ev)).bus = shade none (step tbl b ev).bus := by
  have := step_sim tbl b h.ids h.reg.clean
    (fun c m x hx hm => quietX_before_sweep tbl h c m (actor_of_conn h.ids hx hm) (nonMon_of_conn hx hm)) ev
  exact ⟨this.2, this.1⟩

/-- **A monitor can affect nothing**: over any history from a good state, the clients are sent exactly what they are sent in
    the world without monitors. -/
theorem others_observe_the_same (tbl : List IfaceRow) : ∀ (evs : List Ev) (b : Bus), Good b →
    (run tbl b evs).2 = shadowRun tbl b (shade none b) evs
  | [], _, _ => rfl
  | ev :: evs, b, h => by
    have hs := step_ignores_monitors tbl b h ev
    rw [(run_cons tbl b ev evs).1]
    show _ = (step tbl (shade none b) (shadowEv b ev)).out :: shadowRun tbl (step tbl b ev).bus
      (shade none (step tbl (shade none b) (shadowEv b ev)).bus) evs
    rw [hs.1, hs.2]
    congr 1
    exact others_observe_the_same tbl evs _ (good_step tbl h ev)

/-- … and the two worlds end in the same state, up to who is a monitor -/
def shadowFinal (tbl : List IfaceRow) : Bus → Bus → List Ev → Bus
  | _, s, [] => s
  | b, s, ev :: evs => shadowFinal tbl (step tbl b ev).bus (shade none (step tbl s (shadowEv b ev)).bus) evs

theorem states_agree_up_to_shading (tbl : List IfaceRow) : ∀ (evs : List Ev) (b : Bus), Good b →
    shadowFinal tbl b (shade none b) evs = shade none (run tbl b evs).1
  | [], _, _ => rfl
  | ev :: evs, b, h => by
    have hs := step_ignores_monitors tbl b h ev
    rw [(run_cons tbl b ev evs).2]
    show shadowFinal tbl (step tbl b ev).bus (shade none (step tbl (shade none b) (shadowEv b ev)).bus) evs = _
    rw [hs.2]
    exact states_agree_up_to_shading tbl evs _ (good_step tbl h ev)

theorem others_observe_the_same_from_start (tbl : List IfaceRow) (l : Limits) (p : Policy) (evs : List Ev) :
    (run tbl { limits := l, policy := p } evs).2 = shadowRun tbl { limits := l, policy := p } { limits := l, policy := p } evs :=
  others_observe_the_same tbl evs _ (good_init l p)

/-- the world without monitors really has none -/
theorem shaded_bus_has_no_monitor (b : Bus) : ∀ x ∈ (shade none b).conns, x.monitor = false := by
  intro x hx
  unfold shade at hx
  obtain ⟨y, _, rfl⟩ := List.mem_map.mp hx
  exact neutral_monitor_none y

/-- what the invariant says about monitors in every reachable state: no match rules, no names, no pending replies -/
theorem reachable_monitor_is_inert (tbl : List IfaceRow) (l : Limits) (p : Policy) (evs : List Ev) :
    ∀ x ∈ (run tbl { limits := l, policy := p } evs).1.conns, x.monitor = true →
      x.rules = [] ∧
      (∀ s ∈ (run tbl { limits := l, policy := p } evs).1.services, inQueue s.owners x.id = false) ∧
      (∀ e ∈ (run tbl { limits := l, policy := p } evs).1.pending, e.caller ≠ x.id ∧ e.callee ≠ x.id) := by
  intro x hx hm
  have hg := good_run tbl (good_init l p) evs
  refine ⟨hg.reg.clean x hx hm, ?_, ?_⟩
  · intro s hs
    rw [Bool.eq_false_iff]
    intro hq
    obtain ⟨y, hy, hyid, hym⟩ := hg.reg.live s hs x.id hq
    have : y = x := inj_of_nodup_map' _ hg.ids hy hx hyid
    rw [this, hm] at hym; cases hym
  · intro e he
    have := hg.quiet x hx hm e he
    unfold involves at this
    simp only [Bool.or_eq_false_iff, beq_eq_false_iff_ne, ne_eq] at this
    exact this


/-- the invariant behind it (`Good`: distinct ids, well-formed queues, queue members connected and no monitors, monitors
    without rules and without pending replies) holds in every reachable state -/
theorem reachable_states_are_good (tbl : List IfaceRow) (l : Limits) (p : Policy) (evs : List Ev) :
    Good (run tbl { limits := l, policy := p } evs).1 := good_run tbl (good_init l p) evs

/-! non-vacuity: a reachable state with a monitor in it meets the hypotheses of the theorems above -/

def MONITORING : Bytes := ([0x6f,0x72,0x67,0x2e,0x66,0x72,0x65,0x65,0x64,0x65,0x73,0x6b,0x74,0x6f,0x70,0x2e,0x44,0x42,0x75,0x73,0x2e,0x4d,0x6f,0x6e,0x69,0x74,0x6f,0x72,0x69,0x6e,0x67] : Bytes)
def BECOME : Bytes := ([0x42,0x65,0x63,0x6f,0x6d,0x65,0x4d,0x6f,0x6e,0x69,0x74,0x6f,0x72] : Bytes)
def HELLO : Bytes := ([0x48, 0x65, 0x6c, 0x6c, 0x6f] : Bytes)
def monTable : List IfaceRow :=
  [{ name := BUS_NAME, anyPath := true, methods := [{ name := HELLO, inSig := [], anyPath := true, privileged := false }] },
   { name := MONITORING, anyPath := false, methods := [{ name := BECOME, inSig := [0x61,0x73,0x75], anyPath := false, privileged := true }] }]
def openPolicy : Policy := { default := [⟨true, .send {}⟩, ⟨true, .receive {}⟩, ⟨true, .own none false⟩] }
def helloMsg : Msg :=
  { endian := .little, mtype := 1, flags := 0, version := 1, serial := 1,
    fields := [pathField DBUS_PATH, strField FIELD_INTERFACE BUS_NAME, strField FIELD_MEMBER HELLO, strField FIELD_DESTINATION BUS_NAME],
    bodyTypes := [], body := [] }
def becomeMsg : Msg :=
  { endian := .little, mtype := 1, flags := 0, version := 1, serial := 2,
    fields := [pathField DBUS_PATH, strField FIELD_INTERFACE MONITORING, strField FIELD_MEMBER BECOME,
               strField FIELD_DESTINATION BUS_NAME, sigField [.array tStr, tU32]],
    bodyTypes := [.array tStr, tU32], body := [.array tStr [], .fixed .u32 0] }

/-- connect (as root), Hello, BecomeMonitor: the connection is a monitor now, the state is good -/
example : Good (run monTable { policy := openPolicy } [.connect 1 0 [] false, .msg 1 helloMsg, .msg 1 becomeMsg]).1 ∧
    (run monTable { policy := openPolicy } [.connect 1 0 [] false, .msg 1 helloMsg, .msg 1 becomeMsg]).1.conns.map (·.monitor) = [true] :=
  ⟨reachable_states_are_good _ _ _ _, by decide +kernel⟩

/-- the hypotheses are met by a bus with a monitor in it -/
example : MonClean { conns := [{ id := 1, uid := 0, monitor := true, monitorRules := [default] }, { id := 2, uid := 0, rules := [default] }] } := by
  intro x hx hm
  simp only [List.mem_cons, List.mem_nil_iff, or_false] at hx
  rcases hx with rfl | rfl
  · rfl
  · cases hm

end Dbus.Props.C18
