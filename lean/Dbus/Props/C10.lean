import Dbus.Proofs.Bus.Raw
import Dbus.Proofs.Bus.Accept
import Dbus.Proofs.Bus.Names
import Dbus.Proofs.Bus.Services
import Dbus.Proofs.Bus.Limits
import Dbus.Props.C03
import Dbus.Props.C13
/-
  C10 — one misbehaving client cannot crash, corrupt or stall the bus.

  What a theorem can carry of this property is the logic between the sockets and the bus core;
  crashes, memory safety, spinning and latency are observations of the sanitizer-built daemon under
  the generated hostile histories of the correspondence check (see DESIGN.md), not theorems.
-/
namespace Dbus.Props.C10
open Dbus Dbus.Spec Dbus.Model Dbus.Model.Bus Dbus.Proofs.Bus Dbus.Proofs.Loader

/-- **Whatever bytes clients write, in whatever chunks, the bus core goes through an ordinary history of
    events** (`netEvents`): every theorem proved for all event histories (C03, C04, C05, C06, C07, C09, C13,
    C18) therefore holds under hostile input as well. -/
theorem hostile_history_is_event_history (tbl : List IfaceRow) (n : Net) (ops : List NetOp) :
    (netRun tbl n ops).bus = (run tbl n.bus (netEvents tbl n ops)).1 :=
  netRun_is_run tbl n ops

/-- **Only validated messages reach the core**: every message event of such a history passed the loader's
    validation (the function C01 proves equivalent to the wire specification); everything else a client writes
    shows up as at most one `invalid` event. -/
theorem only_validated_messages_reach_the_core (tbl : List IfaceRow) (l : Limits) (p : Policy) (mx : Nat)
    (ops : List NetOp) :
    ∀ ev ∈ netEvents tbl { bus := { limits := l, policy := p }, maxMsg := mx } ops, ∀ c m, ev = .msg c m →
      ∃ mx' fds bs k, loadOne true mx' fds bs = .ok m k :=
  netEvents_loaded tbl _ ops (by intro q hq; cases hq)

/-- **A corrupt stream is silenced**: once a connection's stream has been found invalid, nothing it writes
    afterwards produces any event. -/
theorem corrupt_stream_is_silenced (n : Net) (c : ConnId) (bytes : Bytes) (h : (n.loader c).corrupted = true) :
    (NetOp.write c bytes).events n = [] := by
  simp only [NetOp.events, readEvents]
  have : (n.loader c).feed n.maxMsg bytes = n.loader c := by unfold Loader.feed; simp [h]
  rw [this]; simp [h]

/-- **The invalid bytes themselves go nowhere**: what a write contributes is the messages framed before the
    corruption point and the `invalid` event; the event carries no content. The messages framed are those
    of the byte stream as a whole, independent of chunking (C11). -/
theorem write_contributes_framed_messages_only (n : Net) (c : ConnId) (bytes : Bytes) :
    ∃ more, ((n.loader c).feed n.maxMsg bytes).msgs = (n.loader c).msgs ++ more ∧
      ((NetOp.write c bytes).events n = more.map (Ev.msg c) ∨
       (NetOp.write c bytes).events n = more.map (Ev.msg c) ++ [Ev.invalid c]) := by
  obtain ⟨more, hm⟩ := feed_msgs_prefix n.maxMsg (n.loader c) bytes
  refine ⟨more, hm, ?_⟩
  simp only [NetOp.events, readEvents, hm, List.drop_left']
  split
  · exact Or.inr rfl
  · exact Or.inl (by simp)

/-- **Invalid input costs only its sender the connection**: every other connection is still there afterwards,
    under the same name; and every message the bus sends out on that occasion is of its own making (the
    signals and errors of a disconnect), never anything derived from the offending bytes. -/
theorem invalid_input_drops_only_its_sender (tbl : List IfaceRow) (b : Bus) (c : ConnId) :
    (∀ p ∈ names b, p.1 ≠ c → p ∈ names (step tbl b (.invalid c)).1) ∧
    (∀ o ∈ (step tbl b (.invalid c)).out, match o with | .deliver _ x => BusMade x | _ => True) := by
  refine ⟨Dbus.Props.C13.oversized_only_sender_dropped tbl b c, ?_⟩
  intro o ho
  simp only [step] at ho
  split at ho
  · cases ho
  · have := dropConn_outputs b c o ho
    match o, this with
    | .deliver _ x, h => exact h.elim id (fun h => h.elim)
    | .opaque _ _, _ => trivial
    | .close _, _ => trivial

/-- **The bus's bookkeeping survives**: after any history of socket operations — valid traffic, garbage,
    truncated and oversized messages, abrupt closes, in any interleaving — unique names are still unique and
    never reused, owner queues are well-formed, and every limit is respected. -/
theorem bookkeeping_survives_hostile_input (tbl : List IfaceRow) (l : Limits) (p : Policy) (mx : Nat) (ops : List NetOp) :
    let b := (netRun tbl { bus := { limits := l, policy := p }, maxMsg := mx } ops).bus
    NamesInv b ∧ ServicesInv b ∧ LimitsInv b := by
  intro b
  have hb : b = (run tbl { limits := l, policy := p } (netEvents tbl { bus := { limits := l, policy := p }, maxMsg := mx } ops)).1 :=
    netRun_is_run tbl _ ops
  rw [hb]
  exact ⟨namesInv_run tbl l p _, servicesInv_run tbl l p _, limitsInv_run tbl l p _⟩

/-- **A bystander is always answered**: in every state, however reached, a connected client's
    destination-less org.freedesktop.DBus.Peer call is answered at once, to that client only, and leaves
    the bus as it was.  (The correspondence check uses exactly this call on every connection after every
    hostile operation, so the theorem's statement is compared with the daemon's behaviour throughout.) -/
theorem bystander_ping_is_answered (tbl : List IfaceRow) (b : Bus) (c : ConnId) (m : Msg)
    (hc : (b.conn? c).isSome) (hd : (strip m).dest = none) (hi : (strip m).iface = some PEER_IFACE) :
    step tbl b (.msg c m) = { bus := b, out := [Out.deliver c (peerFilterReply (strip m))] } := by
  simp only [step, dispatch]
  cases hx : b.conn? c with
  | none => simp [hx] at hc
  | some x => simp [hd, hi]

theorem run_max (s : Accept.Acc) (evs : List Accept.Ev) : (s.run evs).max = s.max := by
  unfold Accept.Acc.run
  induction evs generalizing s with
  | nil => rfl
  | cons e es ih =>
    simp only [List.foldl_cons]
    rw [ih]
    cases e <;> simp only [Accept.Acc.step]
    · rw [Dbus.Proofs.Accept.pump_max]
    · split
      · rw [Dbus.Proofs.Accept.pump_max]; rfl
      · rfl
    · split
      · rw [Dbus.Proofs.Accept.pump_max]; rfl
      · rfl

open Dbus.Model.Accept Dbus.Proofs.Accept in
/-- **Unauthenticated connections are bounded and cannot lock others out for good**: in every state
    reachable by clients arriving, completing their handshake and going away (closing, being dropped, timing
    out), at most `max` connections are incomplete, the bus listens exactly while there is room, and nobody
    is left waiting in the accept queue while there is room. -/
theorem incomplete_connections_bounded_and_fair (max : Nat) (h : 0 < max) (evs : List Accept.Ev) :
    let a := ({ max := max } : Acc).run evs
    a.incomplete.length ≤ max ∧ (a.enabled = true ↔ a.incomplete.length < max) ∧
    (a.incomplete.length < max → a.backlog = []) := by
  intro a
  have hi : Inv a := run_inv _ evs (init_inv max h)
  have hm : a.max = max := run_max _ evs
  refine ⟨hm ▸ hi.bound, ?_, fun hlt => hi.served (hm ▸ hlt)⟩
  rw [hi.flag, hm]; simp

/-- once everybody incomplete has gone, a waiting client has been accepted -/
example : (({ max := 2 } : Accept.Acc).run [.arrive 1, .arrive 2, .arrive 3, .gone 1]).incomplete = [2, 3] ∧
    (({ max := 2 } : Accept.Acc).run [.arrive 1, .arrive 2, .arrive 3]).backlog = [3] ∧
    (({ max := 2 } : Accept.Acc).run [.arrive 1, .arrive 2, .arrive 3]).enabled = false := by decide

end Dbus.Props.C10
