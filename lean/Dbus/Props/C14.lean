import Dbus.Model.Bus.Oom
import Dbus.Proofs.Bus.Frame
/-
  C14 — out-of-memory at any point leaves state unchanged and leaks nothing.

  What is proved: (1) the contract the bus model offers for a request that runs out of memory
  (`stepOom`: the state is untouched, the caller gets exactly one NoMemory error carrying its serial),
  which the C14 check compares with the real bus for every failing allocation; (2) the mechanism that
  is to deliver it for name ownership — eager queue edits plus undo hooks run newest first — restores
  the owner queue exactly, for every sequence of hooked edits, on every well-formed queue; and the
  edits that register no hook (recorded findings F22, F23) do not.
-/
namespace Dbus.Props.C14
open Dbus Dbus.Spec Dbus.Model Dbus.Model.Bus Dbus.Proofs.Bus

/-! ### the contract -/

/-- **All or nothing, the nothing half**: a request that runs out of memory leaves the bus exactly as
    it was and produces one message, to the caller: an error named NoMemory, from the bus, in reply to
    the request's serial. -/
theorem oom_changes_nothing (b : Bus) (c : ConnId) (m : Msg) (x : Conn) (hx : b.conn? c = some x) :
    (stepOom b c m).bus = b ∧ (stepOom b c m).out = [.deliver c (oomReply (strip m))] ∧
    (oomReply (strip m)).mtype = 3 ∧ (oomReply (strip m)).errName = some ERR_NO_MEMORY ∧
    (oomReply (strip m)).sender = some BUS_NAME ∧ (oomReply (strip m)).replySerial = (strip m).serial := by
  unfold stepOom
  simp only [hx, Option.isSome_some, if_true]
  refine ⟨trivial, trivial, rfl, ?_, ?_, ?_⟩
  all_goals try simp [oomReply, mkMsg, Msg.errName, Msg.sender, Msg.replySerial, getField, strOf, natOf, strField, u32Field,
      FIELD_ERROR_NAME, FIELD_SENDER, FIELD_REPLY_SERIAL, List.find?_cons]

/-- `strip` keeps the serial: the error answers the request as the client numbered it -/
theorem strip_serial (m : Msg) : (strip m).serial = m.serial := rfl

/-! ### the mechanism: owner queues -/

/-- a queue holds each connection at most once -/
def QWF (q : List Owner) : Prop := (q.map (·.conn)).Nodup

theorem filter_ne_of_not_mem {q : List Owner} {c : ConnId} (h : c ∉ q.map (·.conn)) : q.filter (·.conn != c) = q := by
  apply List.filter_eq_self.mpr
  intro x hx
  have : x.conn ≠ c := fun heq => h (heq ▸ List.mem_map_of_mem hx)
  simpa using this

theorem inQueue_iff (q : List Owner) (c : ConnId) : inQueue q c = true ↔ c ∈ q.map (·.conn) := by
  unfold inQueue
  simp only [List.any_eq_true, beq_iff_eq, List.mem_map]

/-- **the cancel hook of `bus_service_add_owner` is a left inverse**: taking a newly added owner out
    again gives back the queue as it was, wherever the owner had been put -/
theorem undo_addOwner (q : List Owner) (c : ConnId) (flags : Nat) (hc : c ∉ q.map (·.conn)) :
    undo (qAdd q c flags).1 (.cancelOwnership c) = q := by
  have hin : inQueue q c = false := by
    cases h : inQueue q c with
    | false => rfl
    | true => exact absurd ((inQueue_iff q c).mp h) hc
  unfold undo qAdd
  simp only [hin, Bool.false_eq_true, if_false]
  split
  · rw [List.filter_append, filter_ne_of_not_mem hc]
    simp [mkOwner]
  · cases q with
    | nil => simp [insertSecond, mkOwner]
    | cons p rest =>
      simp only [insertSecond]
      have hp : p.conn ≠ c := fun heq => hc (by simp [heq])
      have hrest : c ∉ rest.map (·.conn) := fun h => hc (by simp [h])
      rw [List.filter_cons, List.filter_cons]
      simp [hp, mkOwner, filter_ne_of_not_mem hrest]

theorem insertBefore_head (o : Owner) (x : Owner) (rest : List Owner) : insertBefore o (some x.conn) (x :: rest) = o :: x :: rest := by
  simp [insertBefore]

/-- **the restore hook of `bus_service_remove_owner` is a left inverse**: the removed primary owner
    goes back in front of its successor, i.e. to the head -/
theorem undo_removePrimary (p : Owner) (rest : List Owner) (hwf : QWF (p :: rest)) :
    undo rest (.restoreOwnership p (rest.head?.map (·.conn))) = p :: rest := by
  have hp : p.conn ∉ rest.map (·.conn) := by
    have := hwf; unfold QWF at this; simp only [List.map_cons, List.nodup_cons] at this; exact this.1
  show insertBefore p (rest.head?.map (·.conn)) (rest.filter (·.conn != p.conn)) = p :: rest
  rw [filter_ne_of_not_mem hp]
  cases rest with
  | nil => simp [insertBefore]
  | cons x r => simp [insertBefore]

/-- **the restore hook of `bus_service_swap_owner` is a left inverse**: the demoted owner is taken
    out of second place and put back in front -/
theorem undo_swap (p s : Owner) (rest : List Owner) (hwf : QWF (p :: s :: rest)) :
    undo (s :: p :: rest) (.restoreOwnership p (some s.conn)) = p :: s :: rest := by
  have h := hwf; unfold QWF at h
  simp only [List.map_cons, List.nodup_cons, List.mem_cons, not_or] at h
  obtain ⟨⟨hps, hpr⟩, hsr, _⟩ := h
  show insertBefore p (some s.conn) ((s :: p :: rest).filter (·.conn != p.conn)) = p :: s :: rest
  have hs : s.conn ≠ p.conn := fun heq => hps heq.symm
  rw [List.filter_cons, List.filter_cons]
  simp only [bne_iff_ne, ne_eq, hs, not_false_eq_true, if_true, not_true_eq_false, if_false]
  rw [filter_ne_of_not_mem hpr]
  simp [insertBefore]

/-- the edits `bus_registry_acquire_service` / `bus_registry_release_service` make with a hook behind them -/
inductive Edit
  | add (c : ConnId) (flags : Nat)       -- `bus_service_add_owner` for a connection not yet in the queue
  | removePrimary                        -- `bus_service_remove_owner` of the primary owner
  | swap                                 -- `bus_service_swap_owner`
  deriving Repr

def Edit.ok (q : List Owner) : Edit → Prop
  | .add c _ => c ∉ q.map (·.conn)
  | .removePrimary => q ≠ []
  | .swap => 2 ≤ q.length

def Edit.apply (t : QTx) : Edit → QTx
  | .add c flags => t.addOwner c flags
  | .removePrimary => match t.q with | p :: _ => t.removeOwner p.conn | [] => t
  | .swap => match t.q with | p :: _ => t.swapOwner p.conn | [] => t

/-- every edit applicable in turn -/
def EditsOk : List Owner → List Edit → Prop
  | _, [] => True
  | q, e :: es => e.ok q ∧ EditsOk (e.apply { q := q }).q es

theorem apply_q_indep (t : QTx) (e : Edit) : (e.apply t).q = (e.apply { q := t.q }).q := by
  cases e with
  | add c flags => rfl
  | removePrimary =>
    cases hq : t.q with
    | nil => simp [Edit.apply, hq]
    | cons p rest => simp [Edit.apply, hq, QTx.removeOwner]
  | swap =>
    cases hq : t.q with
    | nil => simp [Edit.apply, hq]
    | cons p rest =>
      cases rest with
      | nil => simp [Edit.apply, QTx.swapOwner, hq]
      | cons s r => simp [Edit.apply, QTx.swapOwner, hq]

theorem qwf_add (q : List Owner) (c : ConnId) (flags : Nat) (hwf : QWF q) (hc : c ∉ q.map (·.conn)) : QWF (qAdd q c flags).1 := by
  have hin : inQueue q c = false := by
    cases h : inQueue q c with
    | false => rfl
    | true => exact absurd ((inQueue_iff q c).mp h) hc
  unfold qAdd QWF
  simp only [hin, Bool.false_eq_true, if_false]
  split
  · rw [List.map_append, List.nodup_append]
    refine ⟨hwf, by simp, ?_⟩
    intro a ha b hb
    simp only [List.map_cons, List.map_nil, List.mem_singleton, mkOwner] at hb
    subst hb
    exact fun heq => hc (heq ▸ ha)
  · cases q with
    | nil => simp [insertSecond]
    | cons p rest =>
      unfold QWF at hwf
      simp only [List.map_cons, List.nodup_cons, List.mem_cons, not_or] at hwf hc ⊢
      simp only [insertSecond, List.map_cons, List.nodup_cons, List.mem_cons, not_or, mkOwner]
      exact ⟨⟨fun h => hc.1 h.symm, hwf.1⟩, hc.2, hwf.2⟩

/-- one hooked edit followed by its own undo is the identity on a well-formed queue, and keeps it well-formed -/
theorem edit_undo (t : QTx) (e : Edit) (hwf : QWF t.q) (hok : e.ok t.q) :
    QWF (e.apply t).q ∧ ∃ h, (e.apply t).hooks = h :: t.hooks ∧ undo (e.apply t).q h = t.q := by
  cases e with
  | add c flags =>
    have hin : inQueue t.q c = false := by
      cases h : inQueue t.q c with
      | false => rfl
      | true => exact absurd ((inQueue_iff t.q c).mp h) hok
    refine ⟨qwf_add t.q c flags hwf hok, .cancelOwnership c, ?_, undo_addOwner t.q c flags hok⟩
    simp [Edit.apply, QTx.addOwner, hin]
  | removePrimary =>
    cases hq : t.q with
    | nil => exact absurd hq hok
    | cons p rest =>
      have hwf' : QWF (p :: rest) := hq ▸ hwf
      simp only [Edit.apply, hq, QTx.removeOwner, beq_self_eq_true, if_true]
      refine ⟨?_, _, rfl, undo_removePrimary p rest hwf'⟩
      unfold QWF at hwf' ⊢
      simp only [List.map_cons, List.nodup_cons] at hwf'
      exact hwf'.2
  | swap =>
    cases hq : t.q with
    | nil => simp [Edit.ok, hq] at hok
    | cons p rest =>
      cases rest with
      | nil => simp [Edit.ok, hq] at hok
      | cons s r =>
        have hwf' : QWF (p :: s :: r) := hq ▸ hwf
        simp only [Edit.apply, hq, QTx.swapOwner, beq_self_eq_true, if_true]
        refine ⟨?_, _, rfl, undo_swap p s r hwf'⟩
        unfold QWF at hwf' ⊢
        simp only [List.map_cons, List.nodup_cons, List.mem_cons, not_or] at hwf' ⊢
        exact ⟨⟨fun h => hwf'.1.1 h.symm, hwf'.2.1⟩, hwf'.1.2, hwf'.2.2⟩

/-- **Cancel restores.** Whatever sequence of hooked edits a transaction has made to a well-formed owner
    queue, cancelling it — the hooks run newest first — gives back exactly the queue it started from
    (order of the entries, flags and all). -/
theorem cancel_restores (es : List Edit) : ∀ (t : QTx), QWF t.q → EditsOk t.q es →
    (es.foldl Edit.apply t).cancel = t.cancel := by
  induction es with
  | nil => intro t _ _; rfl
  | cons e es ih =>
    intro t hwf hok
    simp only [List.foldl_cons]
    obtain ⟨hwf', h, hh, hu⟩ := edit_undo t e hwf hok.1
    have hok' : EditsOk (e.apply t).q es := by rw [apply_q_indep]; exact hok.2
    rw [ih (e.apply t) hwf' hok']
    unfold QTx.cancel
    rw [hh, List.foldl_cons, hu]

/-- in particular a fresh transaction: replacing the owner (the newcomer is added, the old owner removed
    or demoted) and then running out of memory leaves the queue as it was -/
theorem replace_then_cancel (q : List Owner) (es : List Edit) (hwf : QWF q) (hok : EditsOk q es) :
    (es.foldl Edit.apply { q := q }).cancel = q :=
  cancel_restores es { q := q } hwf hok

/-- … and the order in which the hooks run is part of it: the very same hooks run oldest first leave the waiter in front
    of the owner (a newcomer replaces an owner that has one waiter behind it; the transaction is cancelled) -/
theorem cancel_order_matters :
    let q : List Owner := [{ conn := 1, allowRepl := true, noQueue := false }, { conn := 2, allowRepl := false, noQueue := false }]
    let t : QTx := [Edit.add 3 2, Edit.swap].foldl Edit.apply { q := q }
    t.cancel = q ∧ t.hooks.reverse.foldl undo t.q ≠ q := by decide

/-! ### the edits without a hook (recorded findings) -/

/-- **F22**: a RequestName by a connection already in the queue changes its entry in place and leaves
    no hook — cancelling does not bring the old entry back. Witness: the owner drops DO_NOT_QUEUE. -/
theorem f22_witness :
    let q : List Owner := [{ conn := 1, allowRepl := true, noQueue := true }]
    (QTx.addOwner { q := q } 1 3).cancel ≠ q := by decide

/-- **F23**: a ReleaseName by a waiter unlinks it and leaves no hook -/
theorem f23_witness :
    let q : List Owner := [{ conn := 1, allowRepl := false, noQueue := false }, { conn := 2, allowRepl := false, noQueue := false }]
    (QTx.removeOwner { q := q } 2).cancel ≠ q := by decide

/-! ### non-vacuity -/

example : QWF [{ conn := 2, allowRepl := true, noQueue := true }, { conn := 5, allowRepl := false, noQueue := false }] ∧
    EditsOk [{ conn := 2, allowRepl := true, noQueue := true }, { conn := 5, allowRepl := false, noQueue := false }]
      [.add 1 2, .removePrimary] := by
  refine ⟨by unfold QWF; decide, ?_⟩
  simp [EditsOk, Edit.ok, Edit.apply, QTx.addOwner, qAdd, inQueue, flagReplace, insertSecond]

/-! ### the pending-reply list: the two hooked edits of bus/connection.c

  `bus_connections_expect_reply` prepends a slot and registers `cancel_pending_reply` (remove it
  again); `bus_connections_check_reply` unlinks the slot a reply uses up and registers
  `cancel_check_pending_reply`, which puts the link back *at the head* (`bus_expire_list_add_link`):
  a cancelled transaction restores the list up to order — and the order of pending replies is not
  observable (every entry carries its own deadline). -/

inductive PEdit
  | expect (p : Pending)      -- a call was let through: slot recorded
  | check (p : Pending)       -- a reply was let through: its slot unlinked

structure PTx where
  pend : List Pending
  hooks : List PEdit := []    -- most recent first (cancel runs them in that order)

def PEdit.ok (l : List Pending) : PEdit → Prop
  | .expect p => p ∉ l
  | .check p => p ∈ l

def PEdit.apply (t : PTx) : PEdit → PTx
  | .expect p => { pend := p :: t.pend, hooks := .expect p :: t.hooks }
  | .check p => { pend := t.pend.erase p, hooks := .check p :: t.hooks }

def PEdit.undo (l : List Pending) : PEdit → List Pending
  | .expect p => l.erase p          -- cancel_pending_reply
  | .check p => p :: l              -- cancel_check_pending_reply

def PTx.cancel (t : PTx) : List Pending := t.hooks.foldl PEdit.undo t.pend

def PEditsOk : List Pending → List PEdit → Prop
  | _, [] => True
  | l, e :: es => e.ok l ∧ PEditsOk (e.apply { pend := l }).pend es

theorem papply_pend_indep (t : PTx) (e : PEdit) : (e.apply t).pend = (e.apply { pend := t.pend }).pend := by
  cases e <;> rfl

/-- undoing the hooks of a transaction, newest first, gives back the pending replies it started from, as a
    multiset -/
theorem pending_cancel_restores : ∀ (es : List PEdit) (t : PTx), t.pend.Nodup → PEditsOk t.pend es →
    ((es.foldl PEdit.apply t).hooks.foldl PEdit.undo (es.foldl PEdit.apply t).pend).Perm (t.hooks.foldl PEdit.undo t.pend)
  | [], _, _, _ => List.Perm.refl _
  | e :: es, t, hn, hok => by
    simp only [List.foldl_cons]
    have hok' : PEditsOk (e.apply t).pend es := by rw [papply_pend_indep]; exact hok.2
    have hn' : (e.apply t).pend.Nodup := by
      cases e with
      | expect p => exact List.nodup_cons.mpr ⟨hok.1, hn⟩
      | check p => exact hn.sublist List.erase_sublist
    refine (pending_cancel_restores es (e.apply t) hn' hok').trans ?_
    -- one step: the newest hook undoes the newest edit, up to order
    have step : (PEdit.undo (e.apply t).pend e).Perm t.pend := by
      cases e with
      | expect p => simp [PEdit.apply, PEdit.undo]
      | check p => exact (List.perm_cons_erase hok.1).symm
    have hfold : ∀ (hs : List PEdit) (a b : List Pending), a.Perm b → (hs.foldl PEdit.undo a).Perm (hs.foldl PEdit.undo b) := by
      intro hs
      induction hs with
      | nil => intro a b h; exact h
      | cons h0 hs ih =>
        intro a b h
        simp only [List.foldl_cons]
        apply ih
        cases h0 with
        | expect p => exact h.erase p
        | check p => exact h.cons p
    cases e with
    | expect p => exact hfold t.hooks _ _ step
    | check p => exact hfold t.hooks _ _ step

/-- a transaction that is cancelled leaves the pending replies as they were (up to order) -/
theorem cancelled_transaction_restores_pending (l : List Pending) (es : List PEdit) (hn : l.Nodup) (hok : PEditsOk l es) :
    (PTx.cancel (es.foldl PEdit.apply { pend := l })).Perm l :=
  pending_cancel_restores es { pend := l } hn hok

/-- the hypotheses are met: a reply consumes one slot, a call opens another, and the cancellation restores both -/
example : PEditsOk [⟨1, 2, 7⟩] [.check ⟨1, 2, 7⟩, .expect ⟨2, 1, 9⟩] := by
  refine ⟨List.mem_cons_self, ?_, trivial⟩
  simp [PEdit.apply, PEdit.ok]

end Dbus.Props.C14
