import Dbus.Proofs.Bus.Names
/-
  C03 — the bus stamps the true sender; unique names are unique for ever.

  Statements are about the executable bus model `Dbus.Model.Bus` (tied to bus/dispatch.c,
  bus/driver.c, bus/connection.c by the differential histories of `bin/check C03`).
-/
namespace Dbus.Props.C03
open Dbus Dbus.Spec Dbus.Model Dbus.Model.Bus Dbus.Proofs.Bus

/-- **Sender and header hygiene, for every message and every state.**  Whatever a client puts on
    the wire (forged SENDER, unknown field codes, CONTAINER_INSTANCE, any type), every message the
    bus hands to any connection while processing it has only header fields 1..9 and carries as sender
    org.freedesktop.DBus, or the unique name of the connection that sent it (the name it had, or the
    one Hello has just given it) — or, in the one recorded exception (F14: a method call without
    destination is answered by the connection layer), no sender at all, and then it goes back to
    the caller only. -/
theorem delivered_sender_and_fields (tbl : List IfaceRow) (b : Bus) (c : ConnId) (m0 : Msg)
    (hci : (m0.fields.filter (·.code = 10)).length ≤ 1) :
    ∀ o ∈ (dispatch tbl b c m0).2,
      match o with
      | .deliver to x => KnownFields x ∧ SenderOK b (dispatch tbl b c m0).1 c m0 to x
      | _ => True :=
  dispatch_outputs tbl b c m0 hci

/-- the hypothesis of `delivered_sender_and_fields` holds for everything the message loader accepts -/
theorem loader_guarantees_hypothesis {mx fds : Nat} {bs : Bytes} {m : Msg} {n : Nat}
    (h : loadOne true mx fds bs = .ok m n) : (m.fields.filter (·.code = 10)).length ≤ 1 :=
  loaded_ci_once h

/-- the other events (a connection vanishing, by its own doing or the bus's) produce bus-made
    messages only -/
theorem disconnect_outputs_bus_made (b : Bus) (c : ConnId) :
    ∀ o ∈ (disconnect b c).2, match o with | .deliver _ x => BusMade x | _ => True := by
  intro o ho
  have := disconnect_outputs b c o ho
  match o, this with
  | .deliver _ x, h => exact h.elim id (fun h => h.elim)
  | .opaque _ _, _ => trivial
  | .close _, _ => trivial

def pingNoDest : Msg :=
  { endian := .little, mtype := 1, flags := 0, version := 1, serial := 7,
    fields := [pathField DBUS_PATH, strField FIELD_MEMBER [0x50, 0x69, 0x6e, 0x67]], bodyTypes := [], body := [] }

/-- F14 on a concrete input: a `Ping` with no destination is answered without a sender field -/
theorem f14_witness :
    (builtinReply (strip pingNoDest)).map (fun x => (x.sender, x.replySerial)) = [(none, 7)] := by
  decide

/-- **A second Hello changes nothing.** -/
theorem hello_twice_refused (t : Tx) (c : ConnId) (m : Msg) (h : t.bus.isActive c = true) :
    hello t c m = (t, some .failed) := by
  unfold hello; simp [h]

/-- **Unique names.** In every state the bus can reach from its start, by any history of
    connects, messages (valid or not) and disconnects: no name was ever handed out twice, every
    connected client's name is one of the names handed out, begins with ':', and no two connected
    clients share a name. -/
theorem unique_names (tbl : List IfaceRow) (l : Limits) (p : Policy) (evs : List Ev) :
    let b := (run tbl { limits := l, policy := p } evs).1
    b.minted.Nodup ∧
    (∀ x ∈ b.conns, ∀ n, x.name = some n → n ∈ b.minted ∧ n.head? = some 0x3a) ∧
    ((b.conns.filterMap (·.name)).Nodup) := by
  intro b
  have hi : NamesInv b := namesInv_run tbl l p evs
  refine ⟨hi.minted_nodup, ?_, ?_⟩
  · intro x hx n hn
    have hm := hi.live_minted (x.id, x.name) (List.mem_map.mpr ⟨x, hx, rfl⟩) n hn
    obtain ⟨M, m, e, _⟩ := hi.minted_form n hm
    exact ⟨hm, e ▸ uniqueName_head M m⟩
  · have := hi.live_distinct
    simpa [names, List.filterMap_map, Function.comp_def] using this

/-- different counter values, different names -/
theorem names_injective {M m M' m' : Nat} (h : uniqueName M m = uniqueName M' m') : M = M' ∧ m = m' :=
  uniqueName_inj h

/-- **A name, once given, stays.** One step of the bus leaves every named connection's name
    alone — unless that connection is the one being disconnected — and gives a name only to the
    connection whose message is being processed, and only if it had none. -/
theorem name_is_for_life (tbl : List IfaceRow) (b : Bus) (ev : Ev) (hi : NamesInv b) :
    ∀ p ∈ names b, ∀ n, p.2 = some n →
      p ∈ names (step tbl b ev).1 ∨ (p.1 = evConn ev ∧ p.1 ∉ (names (step tbl b ev).1).map Prod.fst) := by
  intro p hp n hn
  rcases view_step tbl b ev with h | ⟨c, _, _, hnm, _, _⟩
  · cases h with
    | same a1 _ _ => exact Or.inl (a1 ▸ hp)
    | activated nm M m a1 _ _ _ a5 _ =>
      left
      rw [a5]
      refine List.mem_map.mpr ⟨p, hp, ?_⟩
      unfold setName
      split
      · rename_i hc
        have := hnone_of_inactive hi.ids_nodup a1 p hp (by simpa using hc)
        rw [this] at hn; cases hn
      · rfl
    | removed a1 _ _ =>
      by_cases hc : p.1 = evConn ev
      · right
        refine ⟨hc, ?_⟩
        rw [a1]
        intro hm
        simp only [List.mem_map, List.mem_filter] at hm
        obtain ⟨q, ⟨_, hq⟩, hqe⟩ := hm
        rw [hqe, hc] at hq
        simp at hq
      · left
        rw [a1]
        exact List.mem_filter.mpr ⟨hp, by simpa [bne_iff_ne] using hc⟩
  · left; rw [hnm]; exact List.mem_append_left _ hp

def helloMsg : Msg :=
  { endian := .little, mtype := 1, flags := 0, version := 1, serial := 1,
    fields := [pathField DBUS_PATH, strField FIELD_INTERFACE BUS_NAME, strField FIELD_MEMBER [0x48, 0x65, 0x6c, 0x6c, 0x6f],
               strField FIELD_DESTINATION BUS_NAME], bodyTypes := [], body := [] }

def helloTable : List IfaceRow := [⟨BUS_NAME, true, [⟨[0x48, 0x65, 0x6c, 0x6c, 0x6f], [], true, false⟩]⟩]

/-- the hypotheses are met by a reachable, non-trivial state: a bus with one connection that has
    said Hello (and got the name ":1.0") -/
example : NamesInv (run helloTable {} [.connect 1 0 [] false, .msg 1 helloMsg]).1 ∧
    names (run helloTable {} [.connect 1 0 [] false, .msg 1 helloMsg]).1 = [(1, some [0x3a, 0x31, 0x2e, 0x30])] :=
  ⟨namesInv_run _ _ _ _, by decide +kernel⟩

end Dbus.Props.C03
