import Dbus.Proofs.PendingCalls
import Dbus.Proofs.PendingSerials
/-
  C17 — every call awaiting a reply completes exactly once.
-/
namespace Dbus.Props.C17
open Dbus Dbus.Model.PC Dbus.Proofs.PC

theorem inv_step (st : State) (ev : Ev) (h : Proofs.PC.Inv st) : Proofs.PC.Inv (step st ev) := by
  cases ev with
  | send f n => exact inv_send f n h
  | sendPreset s f n => exact inv_sendPreset s f n h
  | sendFail =>
    show Proofs.PC.Inv (sendFail st).1
    unfold sendFail
    split
    · exact h
    · exact h
  | retry f n =>
    show Proofs.PC.Inv (retry st f n).1
    unfold retry
    split
    · exact inv_sendPreset _ f n (st := { st with failedSerial := none }) h
    · exact h
  | peer rs tag => exact h
  | pump => exact inv_pump h
  | dispatch => exact inv_dispatch h
  | fire i => exact inv_fire i h
  | cancel i => exact inv_cancel i h
  | block i => exact inv_block i h
  | dispatchBlock i =>
    show Proofs.PC.Inv (dispatchBlock st i).1
    unfold dispatchBlock
    split
    · exact inv_dispatch h
    · split
      · exact inv_dispatch h
      · exact inv_block i (inv_dispatch h)
  | closePeer => exact h

theorem inv_run (h : List Ev) : Proofs.PC.Inv (run h) := by
  unfold run
  suffices ∀ st, Proofs.PC.Inv st → Proofs.PC.Inv (h.foldl step st) from this {} (by intro c hc; cases hc)
  induction h with
  | nil => intro st hs; exact hs
  | cons ev evs ih => intro st hs; exact ih _ (inv_step st ev hs)

/-- **At most once**: in every history (any interleaving of replies, duplicates, stray replies,
    timeouts, cancels, blocking waits, dispatch steps and a peer close at any moment) no call's
    notify function runs twice, and a call that has not completed has not been notified. -/
theorem completes_at_most_once (h : List Ev) : ∀ c ∈ (run h).calls,
    c.notified ≤ 1 ∧ (c.completed = none → c.notified = 0) := by
  intro c hc
  obtain ⟨_, h2, h3, _⟩ := inv_run h c hc
  exact ⟨h3, h2⟩

/-- **A cancelled call is never notified** (cancelled before it completed): it stays
    uncompleted and un-notified in every continuation of the history. -/
theorem cancelled_never_notified (h : List Ev) : ∀ c ∈ (run h).calls,
    c.cancelled = true → c.completed = none ∧ c.notified = 0 := by
  intro c hc hcan
  obtain ⟨_, h2, _, h4⟩ := inv_run h c hc
  exact ⟨h4 hcan, h2 (h4 hcan)⟩

/-- **A reply is never paired with a different call**: dispatch completes call `i` only with a
    message whose REPLY_SERIAL is that call's serial, and only while the call is attached. -/
theorem reply_matches_serial (cs : List Call) (rs i : Nat) (h : findBySerial cs rs = some i) :
    ∃ c, cs[i]? = some c ∧ c.serial = rs ∧ c.inTable = true := by
  obtain ⟨c, h1, h2, h3⟩ := findBySerial_spec h
  exact ⟨c, h1, h3, h2⟩

/-! ### serials -/

/-- the counter after `k` allocations starting from the initial value 1 -/
def counterAfter : Nat → Nat
  | 0 => 1
  | k + 1 => (nextSerial (counterAfter k)).2

theorem counterAfter_eq (k : Nat) : counterAfter k = k % (SERIAL_MOD - 1) + 1 := by
  induction k with
  | zero => simp [counterAfter, SERIAL_MOD]
  | succ k ih =>
    simp only [counterAfter, nextSerial, ih, SERIAL_MOD]
    split
    · rename_i h
      omega
    · rename_i h
      omega

/-- the `k`-th serial handed out by a connection -/
def serialAt (k : Nat) : Nat := (nextSerial (counterAfter k)).1

/-- **Serials are non-zero**, for ever (also after the 32-bit counter wraps). -/
theorem serial_nonzero (k : Nat) : serialAt k ≠ 0 := by
  unfold serialAt nextSerial
  simp only
  rw [counterAfter_eq]
  omega

/-- **Serials are distinct until the counter wraps**: the first 2^32 − 1 serials are pairwise
    different (and each fits in 32 bits). -/
theorem serials_distinct_before_wrap (j k : Nat) (hj : j < SERIAL_MOD - 1) (hk : k < SERIAL_MOD - 1)
    (h : serialAt j = serialAt k) : j = k := by
  unfold serialAt nextSerial at h
  simp only at h
  rw [counterAfter_eq, counterAfter_eq, Nat.mod_eq_of_lt hj, Nat.mod_eq_of_lt hk] at h
  omega

theorem serial_fits (k : Nat) : serialAt k < SERIAL_MOD := by
  unfold serialAt nextSerial
  simp only
  rw [counterAfter_eq]
  have : k % (SERIAL_MOD - 1) < SERIAL_MOD - 1 := Nat.mod_lt _ (by simp [SERIAL_MOD])
  simp [SERIAL_MOD] at this ⊢
  omega

/-- non-vacuity / the recorded defect F11 as a theorem about the model: after the peer closes,
    a call waited on by a notify callback is never completed although its NoReply error was
    queued — it reaches the filters instead. -/
theorem f11_witness :
    let st := run [.send true true, .closePeer, .pump, .dispatch, .dispatch, .dispatch]
    (st.calls.map (·.completed)) = [none] ∧ (st.calls.map (·.notified)) = [0] ∧
    st.toFilters = [{ rs := 1, kind := .timeoutError }, { rs := 0, kind := .disconnected }] := by
  decide

/-- … whereas a reply, a fired timeout or a blocking wait complete it exactly once -/
theorem completes_by_reply_timeout_block :
    ((run [.send true true, .peer 1 42, .pump, .dispatch]).calls.map (fun c => (c.completed, c.notified))
        = [(some (.byReply 42), 1)]) ∧
    ((run [.send true true, .fire 0, .dispatch]).calls.map (fun c => (c.completed, c.notified))
        = [(some .byTimeoutError, 1)]) ∧
    ((run [.send false true, .closePeer, .block 0]).calls.map (fun c => (c.completed, c.notified))
        = [(some .byTimeoutError, 1)]) := by
  decide

/-! ### the serials of the registered calls -/

/-- **Pairing by serial is never ambiguous**: as long as the application leaves serials to the connection and the 32-bit
    counter has not wrapped, the calls a connection has registered carry pairwise distinct serials - whatever came in
    between: replies, timeouts, cancels, blocking waits, the peer closing, and sends that *failed* after the message had
    been given its serial and were tried again with the very same message (`sendFail`, `retry`): the serial such a message
    keeps has been used up, nobody else gets it. -/
theorem registered_serials_distinct (h : List Ev) (hp : ∀ ev ∈ h, noPreset ev = true) (hw : 1 + totalTakes h < SERIAL_MOD) :
    ((run h).calls.map (·.serial)).Nodup ∧ ∀ s, (run h).failedSerial = some s → s ∉ (run h).calls.map (·.serial) := by
  have h0 : SerInv ({} : State) :=
    ⟨Nat.le_refl 1, fun s hs => (by cases hs), List.nodup_nil, fun s hs => (by cases hs)⟩
  have := serInv_foldl h {} h0 hp hw
  exact ⟨this.nodup, fun s hs => (this.failed s hs).2⟩

/-- the hypotheses are met by a history with a failed send in it, and the retried message keeps its serial: 1 fails, is sent
    again as 1, the next call is 2 -/
example : ((run [.sendFail, .retry true true, .send true false]).calls.map (·.serial)) = [1, 2] ∧
    (∀ ev ∈ [Ev.sendFail, .retry true true, .send true false], noPreset ev = true) ∧
    1 + totalTakes [.sendFail, .retry true true, .send true false] < SERIAL_MOD := by decide

end Dbus.Props.C17
