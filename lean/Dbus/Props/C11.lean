import Dbus.Proofs.Chunking
/-
  C11 — message framing is independent of how the byte stream is chunked.
-/
namespace Dbus.Props.C11
open Dbus Dbus.Spec Dbus.Model Dbus.Proofs.Loader

/-- **Chunking is irrelevant.** However a byte stream is split into reads, the messages
    produced and whether (hence after how many messages) the stream is declared corrupt are the
    same as for the unsplit stream. Holds for every stream, every partition, every maximum
    message size. -/
theorem chunking_irrelevant (mx : Nat) (chunks : List Bytes) :
    (chunks.foldl (Loader.feed mx) {}).observable = (Loader.feed mx {} chunks.flatten).observable := by
  have hs : Stable mx ({} : Loader) := Or.inr (by
    show loadOne true mx 0 [] = .incomplete
    rfl)
  obtain ⟨hm, hc, _⟩ := foldl_feed_equiv mx chunks {} hs
  unfold Loader.observable
  rw [hm, hc]

/-- **Framing is final** (what the previous theorem rests on): a complete message at the front
    of the buffer is framed the same way whatever arrives behind it, and so is a corruption
    verdict. In particular the verdict does not depend on what follows the message — although
    the reference validates the header against the whole buffer. -/
theorem framing_final (mx fds : Nat) (bs x : Bytes) :
    (∀ m n, loadOne true mx fds bs = .ok m n → loadOne true mx fds (bs ++ x) = .ok m n) ∧
    (loadOne true mx fds bs = .corrupt → loadOne true mx fds (bs ++ x) = .corrupt) :=
  ⟨fun _ _ h => loadOne_ok_append x h, fun h => loadOne_corrupt_append x h⟩

/-- **Nothing after corruption**: once corrupt, further reads produce no message. -/
theorem nothing_after_corruption (mx : Nat) (l : Loader) (h : l.corrupted = true) (chunks : List Bytes) :
    (chunks.foldl (Loader.feed mx) l).observable = l.observable := by
  induction chunks with
  | nil => rfl
  | cons c cs ih => rw [List.foldl_cons, feed_corrupted mx l c h]; exact ih

/-- **Messages before the first invalid one are all delivered**: messages already framed are
    never lost or reordered by later reads (the message list only grows at the end). -/
theorem messages_monotone (mx : Nat) : ∀ (g : Nat) (l : Loader), ∃ more, (drain mx g l).msgs = l.msgs ++ more
  | 0, l => ⟨[], by simp [drain]⟩
  | g + 1, l => by
    by_cases hc : l.corrupted = true
    · exact ⟨[], by rw [drain_corrupted mx g l hc]; simp⟩
    · cases hl : loadOne true mx l.fds l.buf with
      | incomplete => exact ⟨[], by rw [drain_incomplete mx g l hc hl]; simp⟩
      | corrupt => exact ⟨[], by rw [drain_corrupt mx g l hc hl]; simp⟩
      | ok m n =>
        obtain ⟨more, hm⟩ := messages_monotone mx g (l.step m n)
        exact ⟨m :: more, by rw [drain_ok mx g l hc m n hl, hm]; simp [Loader.step]⟩

end Dbus.Props.C11
