import Dbus.Model.Auth
import Dbus.Spec.Auth
import Dbus.Proofs.AuthH
/-
  C08 — a peer counts as authenticated only after a valid SASL exchange.

  `run env ops` is the server-side conversation after any history of operations: bytes arriving in
  any chunking (`feed`), replies being written out in any portions (`drain`), and the environment
  committing to keyring/cookie/challenge choices (`oracle`).  `env` (socket credentials, permitted
  mechanisms, user database, number parser, keyring, server owner) is arbitrary.
-/
namespace Dbus.Props.C08
open Dbus Dbus.Model Dbus.Model.Auth Dbus.Spec.Auth Dbus.Proofs.Auth

/-- In every reachable state that has got as far as OK (waiting for BEGIN, or authenticated) the
    mechanism recorded is permitted by the server and the authorized identity is exactly what that
    mechanism establishes: EXTERNAL the socket's uid (with the socket's pid, groups, label),
    DBUS_COOKIE_SHA1 the server owner's uid (and the socket's pid), ANONYMOUS no user at all. -/
theorem established_in_every_reachable_state (env : Env) (ops : List Op)
    (h : (run env ops).phase = .waitingForBegin ∨ (run env ops).phase = .authenticated) :
    Established env (run env ops) :=
  (run_inv env ops).begun h

/-- Before a mechanism has said OK nothing is authorized. -/
theorem nothing_authorized_before_ok (env : Env) (ops : List Op)
    (h : (run env ops).phase = .waitingForAuth ∨ (run env ops).phase = .waitingForData) :
    (run env ops).authorized = {} := by
  rcases h with h | h
  · exact ((run_inv env ops).auth h).1
  · exact ((run_inv env ops).data h).1

/-- The only step into Authenticated is a BEGIN line received while waiting for BEGIN. -/
theorem authenticated_only_through_begin (env : Env) (ops : List Op) (line : Bytes)
    (hne : (run env ops).phase.isEnd = false)
    (h : (handleLine env (run env ops) line).phase = .authenticated) :
    (run env ops).phase = .waitingForBegin ∧ cmdOf (splitLine line).1 = .begin :=
  let ⟨a, _, c⟩ := authenticated_step env _ line (run_inv env ops) hne h
  ⟨a, c⟩

/-- EXTERNAL: the identity is the kernel-reported one, whatever the peer asked for. -/
theorem external_identity_is_the_sockets (env : Env) (ops : List Op)
    (h : (run env ops).phase = .authenticated) (hm : (run env ops).mech = some .external) :
    env.permits Mech.external.name = true ∧ env.sock.uid.isSome ∧
    (run env ops).authorized = { uid := env.sock.uid, pid := env.sock.pid, gids := env.sock.gids, label := env.sock.label } := by
  have := established_in_every_reachable_state env ops (Or.inr h)
  simp only [Established, hm] at this
  obtain ⟨hp, u, hu, ha⟩ := this
  refine ⟨hp, by simp [hu], ?_⟩
  rw [ha]
  cases hs : env.sock with
  | mk p u' g l => simp [hs] at hu; simp [hu]

/-- DBUS_COOKIE_SHA1: OK is sent only for the hex SHA-1 of `challenge:client-challenge:cookie`, for the
    cookie the server chose from the keyring. -/
theorem cookie_needs_the_correct_response (env : Env) (s : S) (id : Nat) (data : Bytes)
    (h : (cookieSecond env s id data).phase = .waitingForBegin) :
    ∃ cc hash secret, env.cookies.lookup id = some secret ∧
      cc = data.takeWhile (fun b => !isBlank b) ∧
      hash = (data.dropWhile (fun b => !isBlank b)).dropWhile isBlank ∧
      hash = hexEncode (Sha1.sha1 (s.challenge ++ [COLON] ++ cc ++ [COLON] ++ secret)) := by
  have rej : ∀ t : S, (sendRejected env t).phase ≠ .waitingForBegin := by
    intro t; unfold sendRejected; dsimp only; split <;> simp
  unfold cookieSecond at h
  split at h
  · exact absurd h (rej _)
  · dsimp only at h
    split at h
    · exact absurd h (rej _)
    · split at h
      · exact absurd h (rej _)
      · split at h
        · exact absurd h (rej _)
        · rename_i hne hcorrect
          unfold correctHash at hne hcorrect
          cases hl : env.cookies.lookup id with
          | none => simp [hl] at hne
          | some secret =>
            simp only [hl] at hne hcorrect
            split at hne
            · simp at hne
            · refine ⟨_, _, secret, rfl, rfl, rfl, ?_⟩
              simp only [ne_eq, Decidable.not_not] at hcorrect
              rename_i hs
              simpa [hs] using hcorrect

/-- and what it establishes is the server owner's identity -/
theorem cookie_identity_is_the_owners (env : Env) (ops : List Op)
    (h : (run env ops).phase = .authenticated) (hm : (run env ops).mech = some .cookie) :
    env.permits Mech.cookie.name = true ∧
    (run env ops).authorized = { uid := some env.selfUid, pid := env.sock.pid } := by
  have := established_in_every_reachable_state env ops (Or.inr h)
  simpa only [Established, hm] using this

/-- An authenticated connection without a user identity completed ANONYMOUS, and ANONYMOUS is among the
    mechanisms the server permits. -/
theorem anonymous_only_where_permitted (env : Env) (ops : List Op)
    (h : (run env ops).phase = .authenticated) (ha : (run env ops).authorized.anonymous = true) :
    (run env ops).mech = some .anonymous ∧ env.permits Mech.anonymous.name = true ∧
    (run env ops).authorized = { pid := env.sock.pid } := by
  have he := established_in_every_reachable_state env ops (Or.inr h)
  unfold Established at he
  cases hm : (run env ops).mech with
  | none => simp [hm] at he
  | some m =>
    cases m with
    | external =>
      simp only [hm] at he
      obtain ⟨_, u, _, hau⟩ := he
      simp [Creds.anonymous, hau] at ha
    | cookie =>
      simp only [hm] at he
      simp [Creds.anonymous, he.2] at ha
    | anonymous =>
      simp only [hm] at he
      exact ⟨rfl, he.1, he.2⟩

/-- The transport treats the connection as authenticated only when the handshake reached Authenticated and
    the identity passes the gate; an identity without a user passes only where anonymous access is enabled. -/
theorem anonymous_identity_gate (g : Gate) (env : Env) (ops : List Op)
    (h : transportAuthenticated g (run env ops) = true) :
    (run env ops).phase = .authenticated ∧
    ((run env ops).authorized.uid = none → g.allowAnonymous = true) ∧
    (∀ u, (run env ops).authorized.uid = some u →
        match g.userFn with
        | some f => f u = true
        | none => g.allowAnonymous = true ∨ u = 0 ∨ u = g.selfUid) := by
  unfold transportAuthenticated at h
  simp only [Bool.and_eq_true, decide_eq_true_eq] at h
  obtain ⟨hp, hg⟩ := h
  refine ⟨hp, ?_, ?_⟩
  · intro hu
    unfold Gate.accepts at hg
    simp [hu] at hg
    exact hg
  · intro u hu
    unfold Gate.accepts at hg
    cases hf : g.userFn with
    | some f => simpa [hu, hf] using hg
    | none =>
      simp [hu, hf] at hg
      rcases hg with (hg | hg) | hg
      · exact Or.inl hg
      · exact Or.inr (Or.inl hg)
      · exact Or.inr (Or.inr hg)

theorem sendRejected_authorized (env : Env) (s : S) : (sendRejected env s).authorized = {} := by
  unfold sendRejected shutdownMech
  cases hm : s.mech with
  | none => simp [hm]
  | some m => cases m <;> simp [hm]

/-- CANCEL or ERROR after OK: the identity that had been authorized is forgotten. -/
theorem cancel_forgets_identity (env : Env) (s : S) (line : Bytes) (hp : s.phase = .waitingForBegin)
    (ha : line.all isAscii = true)
    (hc : cmdOf (splitLine line).1 = .cancel ∨ cmdOf (splitLine line).1 = .error) :
    (handleLine env s line).authorized = {} ∧
    ((handleLine env s line).phase = .waitingForAuth ∨ (handleLine env s line).phase = .needDisconnect) := by
  unfold handleLine
  simp only [ha, Bool.not_true, Bool.false_eq_true, ↓reduceIte, hp]
  unfold waitingForBegin
  rcases hc with hc | hc <;> rw [hc] <;> dsimp only <;>
    exact ⟨sendRejected_authorized env s, by unfold sendRejected; dsimp only; split <;> simp⟩

/-- The server never counts more than six rejections … -/
theorem failures_bounded (env : Env) (ops : List Op) : (run env ops).failures ≤ MAX_FAILURES :=
  (run_inv env ops).fails.1

/-- … and has given up once it has counted six. -/
theorem gives_up_after_six (env : Env) (ops : List Op) (h : (run env ops).failures = MAX_FAILURES) :
    (run env ops).phase = .needDisconnect := by
  rcases Decidable.em ((run env ops).phase = .needDisconnect) with h' | h'
  · exact h'
  · have := (run_inv env ops).fails.2 h'
    omega

/-- Every REJECTED line is a counted failure and nothing else is: the failure count is the number of
    REJECTED lines sent, so at most six are ever sent. -/
theorem rejected_counts_failures (env : Env) (ops : List Op) (line : Bytes)
    (hne : (run env ops).phase.isEnd = false) :
    ∃ r, (handleLine env (run env ops) line).outgoing = (run env ops).outgoing ++ r ∧
      (kindOf r = .rejected → r = rejectedLine env ∧
          (handleLine env (run env ops) line).failures = (run env ops).failures + 1) ∧
      (kindOf r ≠ .rejected → (handleLine env (run env ops) line).failures = (run env ops).failures) := by
  obtain ⟨r, e, h1, h2⟩ := handleLine_line env _ line (run_inv env ops) hne
  refine ⟨r, e.out, ?_, ?_⟩
  · intro hk
    cases ha : line.all isAscii with
    | false => rw [(h1 ha).1] at hk; simp [kindOf, errNonAscii] at hk
    | true => exact (h2 ha).1 hk
  · intro hk
    cases ha : line.all isAscii with
    | false => exact (h1 ha).2.2
    | true => exact (h2 ha).2.1 hk

/-- Authenticated and NeedDisconnect are final: whatever arrives afterwards changes neither the state nor
    the identity, and produces no reply. -/
theorem end_states_are_final (env : Env) (s : S) (h : s.phase.isEnd = true) (bs : Bytes) :
    (feed env s bs).phase = s.phase ∧ (feed env s bs).authorized = s.authorized ∧
    (feed env s bs).outgoing = s.outgoing ∧ (feed env s bs).incoming = s.incoming ++ bs := by
  unfold feed
  rw [doWork_end env _ _ (by simpa using h)]
  exact ⟨rfl, rfl, rfl, rfl⟩

theorem bounded_fold (env : Env) (ops : List Op) : ∀ s : S, (s.phase.isEnd = false → s.incoming.length ≤ MAX_BUFFER) →
    ((ops.foldl (Op.apply env) s).phase.isEnd = false → (ops.foldl (Op.apply env) s).incoming.length ≤ MAX_BUFFER) := by
  induction ops with
  | nil => intro s hs; exact hs
  | cons op ops ih =>
    intro s hs
    apply ih
    cases op with
    | feed bs =>
      intro hne
      rcases doWork_bound env ({ s with incoming := s.incoming ++ bs } : S).incoming.length.succ
          { s with incoming := s.incoming ++ bs } (Nat.lt_succ_self _) with h | h
      · simp only [Op.apply, feed] at hne; rw [hne] at h; cases h
      · exact h.1
    | drain n =>
      intro hne
      rcases doWork_bound env ({ s with outgoing := s.outgoing.drop n } : S).incoming.length.succ
          { s with outgoing := s.outgoing.drop n } (Nat.lt_succ_self _) with h | h
      · simp only [Op.apply, drain] at hne; rw [hne] at h; cases h
      · exact h.1
    | oracle t => exact hs

/-- At most MAX_BUFFER (16 KiB) of handshake input is kept while the conversation goes on. -/
theorem buffers_bounded (env : Env) (ops : List Op) (h : (run env ops).phase.isEnd = false) :
    (run env ops).incoming.length ≤ MAX_BUFFER :=
  bounded_fold env ops {} (by intro _; simp [MAX_BUFFER]) h

/-- Once either buffer is over the limit the server processes nothing further: it gives up. -/
theorem overflow_gives_up (env : Env) (s : S) (fuel : Nat) (hne : s.phase.isEnd = false)
    (h : s.incoming.length > MAX_BUFFER ∨ s.outgoing.length > MAX_BUFFER) :
    doWork env (fuel + 1) s = { s with phase := .needDisconnect } := by
  unfold doWork
  simp [hne, h]

/-- all bytes fed so far -/
def fed : List Op → Bytes
  | [] => []
  | .feed bs :: ops => bs ++ fed ops
  | _ :: ops => fed ops

/-- No byte before BEGIN is message data: the bytes the peer has sent are, in order, the lines the server
    has consumed followed by what is still buffered; when the handshake is complete the consumed part ends
    with the BEGIN line (received in WaitingForBegin), so the unused bytes handed to the message loader are
    exactly those that followed it — in whatever chunks the bytes arrived. -/
theorem nothing_before_begin_is_message_data (env : Env) (ops : List Op) :
    ∃ pre, fed ops = pre ++ (run env ops).incoming ∧ LinesPrefix pre ∧
      ((run env ops).phase = .authenticated → EndsWithBegin pre) := by
  unfold run
  suffices hh : ∀ (s : S) (pre0 : Bytes), Inv env s → LinesPrefix pre0 →
      (s.phase = .authenticated → EndsWithBegin pre0) →
      ∃ pre, pre0 ++ s.incoming ++ fed ops = pre ++ (ops.foldl (Op.apply env) s).incoming ∧ LinesPrefix pre ∧
        ((ops.foldl (Op.apply env) s).phase = .authenticated → EndsWithBegin pre) by
    obtain ⟨pre, h1, h2, h3⟩ := hh {} [] (inv_init env []) (Or.inl rfl) (by intro h; simp at h)
    exact ⟨pre, by simpa using h1, h2, h3⟩
  induction ops with
  | nil => intro s pre0 _ h2 h3; exact ⟨pre0, by simp [fed], h2, h3⟩
  | cons op ops ih =>
    intro s pre0 hi h2 h3
    have key : ∀ (t : S) (extra : Bytes), Inv env t → t.phase = s.phase → t.incoming = s.incoming ++ extra →
        ∃ pre, pre0 ++ s.incoming ++ extra = pre ++ (doWork env (t.incoming.length + 1) t).incoming ∧ LinesPrefix pre ∧
          ((doWork env (t.incoming.length + 1) t).phase = .authenticated → EndsWithBegin pre) := by
      intro t extra hit hph hinc
      obtain ⟨p, q1, q2, q3⟩ := doWork_stream env (t.incoming.length + 1) t hit
      have hend0 : t.phase.isEnd = true → doWork env (t.incoming.length + 1) t = t := doWork_end env _ t
      generalize doWork env (t.incoming.length + 1) t = d at q1 q3 hend0 ⊢
      refine ⟨pre0 ++ p, ?_, ?_, ?_⟩
      · rw [List.append_assoc pre0, ← hinc, q1]; simp
      · rcases q2 with q2 | ⟨x, q2⟩
        · subst q2; simpa using h2
        · subst q2; exact Or.inr ⟨pre0 ++ x, by simp⟩
      · intro ha
        rcases q3 ha with q4 | ⟨x, line, hx, hl, hb⟩
        · -- already authenticated: nothing was consumed
          have hend : t.phase.isEnd = true := by rw [q4]; rfl
          rw [hend0 hend] at q1
          have : p = [] := List.self_eq_append_left.mp q1
          subst this
          simpa using h3 (by rw [← hph]; exact q4)
        · subst hx
          refine ⟨pre0 ++ x, line, by simp, ?_, hb⟩
          rcases hl with hl | ⟨y, hl⟩
          · subst hl; simpa using h2
          · subst hl; exact Or.inr ⟨pre0 ++ y, by simp⟩
    cases op with
    | feed bs =>
      obtain ⟨pre, k1, k2, k3⟩ := key { s with incoming := s.incoming ++ bs } bs (hi.setIncoming _) rfl rfl
      obtain ⟨pre', j1, j2, j3⟩ := ih (feed env s bs) pre (feed_inv env s bs hi) k2 k3
      refine ⟨pre', ?_, j2, j3⟩
      simp only [fed, List.foldl_cons, Op.apply]
      rw [← j1]
      unfold feed
      rw [← k1]; simp
    | drain n =>
      obtain ⟨pre, k1, k2, k3⟩ := key { s with outgoing := s.outgoing.drop n } [] (hi.setOutgoing _) rfl (by simp)
      obtain ⟨pre', j1, j2, j3⟩ := ih (drain env s n) pre (drain_inv env s n hi) k2 k3
      refine ⟨pre', ?_, j2, j3⟩
      simp only [fed, List.foldl_cons, Op.apply]
      rw [← j1]
      unfold drain
      rw [← k1]; simp
    | oracle t =>
      obtain ⟨pre', j1, j2, j3⟩ := ih { s with tape := s.tape ++ t } pre0 (hi.addTape _) h2 h3
      exact ⟨pre', by simpa [fed, Op.apply] using j1, j2, j3⟩

/-- For every command line in every reachable state the server answers as the specification's state
    machine prescribes (`Dbus.Spec.Auth.specAllows`): the reply kind and the successor state are among those
    the specification permits for that state and command; a line that is not ASCII gets ERROR and changes
    nothing. -/
theorem conforms_to_specification (env : Env) (ops : List Op) (line : Bytes)
    (hne : (run env ops).phase.isEnd = false) :
    ∃ r, (handleLine env (run env ops) line).outgoing = (run env ops).outgoing ++ r ∧
      (line.all isAscii = true →
        specAllows (run env ops).phase (cmdOf (splitLine line).1) (kindOf r) (handleLine env (run env ops) line).phase = true) ∧
      (line.all isAscii = false → kindOf r = .error ∧ (handleLine env (run env ops) line).phase = (run env ops).phase) := by
  obtain ⟨r, e, h1, h2⟩ := handleLine_line env _ line (run_inv env ops) hne
  refine ⟨r, e.out, fun ha => (h2 ha).2.2, fun ha => ?_⟩
  obtain ⟨hr, hp, _⟩ := h1 ha
  exact ⟨by rw [hr]; simp [kindOf, errNonAscii], hp⟩

/-! ### the hypotheses are satisfiable: concrete conversations (kernel-evaluated) -/

def demoEnv : Env :=
  { allowed := some [Mech.external.name, Mech.anonymous.name], sock := { uid := some 1000, pid := some 7 }, guid := [0x61],
    fdPossible := true, selfUid := 0, context := [], parseNumber := parseNumber, lookupUser := fun _ => none, cookies := [] }

/-- "AUTH EXTERNAL 31303030\r\n" in two chunks, then "NEGOTIATE_UNIX_FD\r\nBEGIN\r\nl" -/
def demoOps : List Op := [.feed [0x41,0x55,0x54,0x48,0x20,0x45,0x58,0x54,0x45,0x52], .feed [0x4e,0x41,0x4c,0x20,0x33,0x31,0x33,0x30,0x33,0x30,0x33,0x30,0x0d,0x0a], .drain 5, .feed [0x4e,0x45,0x47,0x4f,0x54,0x49,0x41,0x54,0x45,0x5f,0x55,0x4e,0x49,0x58,0x5f,0x46,0x44,0x0d,0x0a,0x42,0x45,0x47,0x49,0x4e,0x0d,0x0a,0x6c]]

example : (run demoEnv demoOps).phase = .authenticated ∧ (run demoEnv demoOps).mech = some .external ∧
    (run demoEnv demoOps).authorized = { uid := some 1000, pid := some 7 } ∧ (run demoEnv demoOps).incoming = [0x6c] ∧
    (run demoEnv demoOps).fdNeg = true := by decide

/-- EXTERNAL, OK, CANCEL, then ANONYMOUS: the identity is the anonymous one -/
def demoOps2 : List Op := [.feed [0x41,0x55,0x54,0x48,0x20,0x45,0x58,0x54,0x45,0x52,0x4e,0x41,0x4c,0x20,0x33,0x31,0x33,0x30,0x33,0x30,0x33,0x30,0x0d,0x0a,0x43,0x41,0x4e,0x43,0x45,0x4c,0x0d,0x0a,0x41,0x55,0x54,0x48,0x20,0x41,0x4e,0x4f,0x4e,0x59,0x4d,0x4f,0x55,0x53,0x0d,0x0a,0x42,0x45,0x47,0x49,0x4e,0x0d,0x0a]]

example : (run demoEnv demoOps2).phase = .authenticated ∧ (run demoEnv demoOps2).mech = some .anonymous ∧
    (run demoEnv demoOps2).authorized = { pid := some 7 } ∧ (run demoEnv demoOps2).failures = 1 := by decide

/-- six rejections end the conversation -/
def demoOps3 : List Op := [.feed [0x41,0x55,0x54,0x48,0x0d,0x0a,0x41,0x55,0x54,0x48,0x0d,0x0a,0x41,0x55,0x54,0x48,0x0d,0x0a,0x41,0x55,0x54,0x48,0x0d,0x0a,0x41,0x55,0x54,0x48,0x0d,0x0a,0x41,0x55,0x54,0x48,0x0d,0x0a,0x41,0x55,0x54,0x48,0x0d,0x0a]]

example : (run demoEnv demoOps3).phase = .needDisconnect ∧ (run demoEnv demoOps3).failures = 6 := by decide

end Dbus.Props.C08
