import Dbus.Proofs.Bus.Activation
import Dbus.Proofs.Bus.Timed
import Dbus.Model.Helper
/-
  C19 — auto-started services get held messages once, in order, or callers get errors; the
  activation helper executes a program only for a valid bus name whose service file declares
  exactly that name, an Exec line and a User.

  The theorems are about `Dbus.Model.Bus.stepA` (lean/Dbus/Model/Bus/Activation.lean) and
  `Dbus.Model.Helper.run`; both are tied to the code by the C19 check (real daemon with stub
  services under a virtual clock; the real launch helper on generated service directories).
-/
namespace Dbus.Props.C19
open Dbus Dbus.Spec Dbus.Model Dbus.Model.Bus Dbus.Proofs.Bus

/-! ### the table of pending activations -/

theorem findAct_none_iff (acts : List PendingAct) (n : Bytes) : findAct acts n = none ↔ n ∉ acts.map (·.name) := by
  unfold findAct
  rw [List.find?_eq_none]
  simp only [List.mem_map, not_exists, not_and, beq_iff_eq]

theorem findAct_dropAct (acts : List PendingAct) (n : Bytes) : findAct (dropAct acts n) n = none := by
  rw [findAct_none_iff]
  unfold dropAct
  simp only [List.mem_map, List.mem_filter, not_exists, not_and]
  intro pa ⟨_, hne⟩ heq
  simp [heq] at hne

theorem names_joinAct (e : ActEntry) (n : Bytes) (acts : List PendingAct) :
    (acts.map (joinAct e n)).map (·.name) = acts.map (·.name) := by
  rw [List.map_map]
  apply List.map_congr_left
  intro pa _
  unfold joinAct
  simp only [Function.comp]
  split <;> rfl

/-- no two pending activations for one name -/
def ActsWF (acts : List PendingAct) : Prop := (acts.map (·.name)).Nodup

theorem actsWF_dropAct {acts : List PendingAct} (h : ActsWF acts) (n : Bytes) : ActsWF (dropAct acts n) :=
  List.Nodup.sublist (List.Sublist.map _ List.filter_sublist) h

/-! ### starting the program: at most once per activation -/

/-- what a step may do to the started programs: nothing, or start one for a name that has no
    pending activation yet — and then it has one -/
def StartsFresh (x r : ATx) : Prop :=
  (r.spawned = x.spawned ∧ r.nspawn = x.nspawn) ∨
  ∃ n k, findAct x.acts n = none ∧ r.spawned = x.spawned ++ [(n, k)] ∧ (findAct r.acts n).isSome = true

theorem findAct_append_new (acts : List PendingAct) (pa : PendingAct) : (findAct (acts ++ [pa]) pa.name).isSome = true := by
  unfold findAct
  rw [List.find?_append]
  cases h : List.find? (fun x => x.name == pa.name) acts with
  | some _ => rfl
  | none => simp

/-- **`bus_activation_activate_service` starts a program only when nothing is pending for the
    name**, joins the pending activation otherwise; it never leaves two activations for one name. -/
theorem activateService_fresh (files : List SvcFile) (maxP : Nat) (x : ATx) (c : ConnId) (auto : Bool) (m : Msg) (n : Bytes)
    (hwf : ActsWF x.acts) :
    StartsFresh x (activateService files maxP x c auto m n).1 ∧ ActsWF (activateService files maxP x c auto m n).1.acts := by
  unfold activateService
  split
  · exact ⟨Or.inl ⟨rfl, rfl⟩, hwf⟩
  · split
    · exact ⟨Or.inl ⟨rfl, rfl⟩, hwf⟩
    · rename_i f _
      split
      · exact ⟨Or.inl ⟨rfl, rfl⟩, hwf⟩
      · split
        · exact ⟨Or.inl ⟨rfl, rfl⟩, hwf⟩
        · split
          · -- joins: names unchanged
            refine ⟨Or.inl ⟨rfl, rfl⟩, ?_⟩
            show ((x.acts.map (joinAct { conn := c, msg := m, auto := auto } n)).map (fun pa : PendingAct => pa.name)).Nodup
            rw [names_joinAct]; exact hwf
          · rename_i hnone
            have hnot : n ∉ x.acts.map (·.name) := (findAct_none_iff _ _).mp hnone
            have hwf' : ∀ pa : PendingAct, pa.name = n → ActsWF (x.acts ++ [pa]) := by
              intro pa hpa
              show ((x.acts ++ [pa]).map (·.name)).Nodup
              rw [List.map_append, List.nodup_append]
              refine ⟨hwf, by simp, ?_⟩
              intro a ha b hb
              simp only [List.map_cons, List.map_nil, List.mem_singleton] at hb
              subst hb
              intro heq; subst heq
              exact hnot (hpa ▸ ha)
            split
            · exact ⟨Or.inl ⟨rfl, rfl⟩, hwf⟩
            · split
              · exact ⟨Or.inl ⟨rfl, rfl⟩, hwf⟩
              · split
                · refine ⟨Or.inr ⟨n, some x.nspawn, hnone, rfl, ?_⟩, hwf' _ rfl⟩
                  exact findAct_append_new x.acts { name := n, exec := f.exec, entries := [{ conn := c, msg := m, auto := auto }], child := some x.nspawn }
                · refine ⟨Or.inr ⟨n, none, hnone, rfl, ?_⟩, hwf' _ rfl⟩
                  exact findAct_append_new x.acts { name := n, exec := f.exec, entries := [{ conn := c, msg := m, auto := auto }] }

/-- the effect of (part of) a step on the activation bookkeeping -/
def Eff (x r : ATx) : Prop := StartsFresh x r ∧ (ActsWF x.acts → ActsWF r.acts)

theorem Eff.same {x r : ATx} (ha : r.acts = x.acts) (hs : r.spawned = x.spawned) (hn : r.nspawn = x.nspawn) : Eff x r :=
  ⟨Or.inl ⟨hs, hn⟩, fun h => ha ▸ h⟩

/-- replacing the core transaction does not matter to it -/
theorem Eff.withT {x r : ATx} (h : Eff x r) (t t' : Tx) : Eff { x with t := t } { r with t := t' } := h

theorem Eff.ofT {x r : ATx} (t : Tx) (h : Eff { x with t := t } r) : Eff x r := h

theorem eff_sendPending (x : ATx) (n : Bytes) : Eff x (sendPending x n) := by
  unfold sendPending
  split
  · exact ⟨Or.inl ⟨rfl, rfl⟩, fun h => actsWF_dropAct h n⟩
  · exact Eff.same rfl rfl rfl

theorem eff_acquireA (x : ATx) (c : ConnId) (n : Bytes) (flags : Nat) : Eff x (acquireA x c n flags).1 := by
  unfold acquireA
  repeat' split
  all_goals first
    | exact Eff.same rfl rfl rfl
    | exact Eff.ofT _ (eff_sendPending _ n)

theorem eff_activateService (files : List SvcFile) (maxP : Nat) (x : ATx) (c : ConnId) (auto : Bool) (m : Msg) (n : Bytes) :
    Eff x (activateService files maxP x c auto m n).1 := by
  refine ⟨?_, fun h => (activateService_fresh files maxP x c auto m n h).2⟩
  -- the first half does not need well-formedness
  unfold activateService
  repeat' split
  all_goals first
    | exact Or.inl ⟨rfl, rfl⟩
    | (rename_i hnone _ _ _; exact Or.inr ⟨n, _, hnone, rfl, findAct_append_new x.acts _⟩)

theorem eff_runMethodA (files : List SvcFile) (maxP : Nat) (x : ATx) (c : ConnId) (m : Msg) (i nm : Bytes) :
    Eff x (runMethodA files maxP x c m i nm).1 := by
  unfold runMethodA
  split
  · exact eff_activateService files maxP x c false m (arg0 m)
  · split
    · have h := eff_acquireA x c (arg0 m) (arg1Nat m)
      rcases hr : acquireA x c (arg0 m) (arg1Nat m) with ⟨x1, r⟩
      rw [hr] at h
      cases r with
      | ok code => exact h
      | error e => exact h
    · rcases runMethod x.t c m (methodOf i nm) with ⟨t, e⟩
      exact Eff.same rfl rfl rfl

theorem eff_driverHandleA (tbl : List IfaceRow) (files : List SvcFile) (maxP : Nat) (x : ATx) (c : ConnId) (m : Msg) :
    Eff x (driverHandleA tbl files maxP x c m).1 := by
  unfold driverHandleA
  dsimp only
  repeat' split
  all_goals first
    | exact Eff.same rfl rfl rfl
    | exact eff_runMethodA files maxP x c m _ _

theorem eff_toDriverCoreA (tbl : List IfaceRow) (files : List SvcFile) (maxP : Nat) (x : ATx) (c : ConnId) (m : Msg) :
    Eff x (toDriverCoreA tbl files maxP x c m).1 := by
  unfold toDriverCoreA
  rcases checkPolicy x.t.bus (some c) none none m with ⟨p, e⟩
  cases e with
  | some e => exact Eff.same rfl rfl rfl
  | none =>
    simp only
    have h := eff_driverHandleA tbl files maxP { x with t := x.t.setPending p } c m
    rcases hr : driverHandleA tbl files maxP { x with t := x.t.setPending p } c m with ⟨x1, e1⟩
    rw [hr] at h
    cases e1 with
    | some e1 => exact Eff.ofT _ h
    | none =>
      simp only
      rcases dispatchMatches x1.t (some c) none (m.setSender (senderNameOf x1.t.bus c)) with ⟨t2, e2⟩
      exact Eff.ofT _ h

theorem eff_toDriverA (tbl : List IfaceRow) (files : List SvcFile) (maxP : Nat) (x : ATx) (c : ConnId) (m : Msg) :
    Eff x (toDriverA tbl files maxP x c m).1 := by
  unfold toDriverA
  exact Eff.ofT _ (eff_toDriverCoreA tbl files maxP { x with t := { x.t with mon := [] } } c m)

theorem eff_routeA (files : List SvcFile) (maxP : Nat) (x : ATx) (c : ConnId) (m : Msg) : Eff x (routeA files maxP x c m).1 := by
  unfold routeA
  repeat' split
  all_goals first
    | exact Eff.same rfl rfl rfl
    | exact Eff.ofT _ (eff_activateService files maxP _ c true m _)

theorem eff_finishA {x : ATx} (r : ATx × Option Bytes) (c : ConnId) (m : Msg) (h : Eff x r.1) : Eff x (finishA r c m) := by
  unfold finishA
  rcases r with ⟨x1, e⟩
  cases e <;> exact h

theorem eff_failAct (err : Bytes) (x : ATx) (pa : PendingAct) : Eff x (failAct err x pa) :=
  ⟨Or.inl ⟨rfl, rfl⟩, fun h => actsWF_dropAct h pa.name⟩

theorem Eff.refl (x : ATx) : Eff x x := Eff.same rfl rfl rfl

/-- steps that start nothing compose -/
theorem Eff.quiet_trans {x y z : ATx} (h1 : Eff x y) (q1 : y.spawned = x.spawned ∧ y.nspawn = x.nspawn)
    (h2 : Eff y z) (q2 : z.spawned = y.spawned ∧ z.nspawn = y.nspawn) : Eff x z :=
  ⟨Or.inl ⟨q2.1.trans q1.1, q2.2.trans q1.2⟩, fun h => h2.2 (h1.2 h)⟩

theorem failAct_fold (err : Bytes) : ∀ (ps : List PendingAct) (x : ATx),
    Eff x (ps.foldl (failAct err) x) ∧ (ps.foldl (failAct err) x).spawned = x.spawned ∧ (ps.foldl (failAct err) x).nspawn = x.nspawn
  | [], x => ⟨Eff.refl x, rfl, rfl⟩
  | p :: ps, x => by
    simp only [List.foldl_cons]
    obtain ⟨h, hs, hn⟩ := failAct_fold err ps (failAct err x p)
    exact ⟨Eff.quiet_trans (eff_failAct err x p) ⟨rfl, rfl⟩ h ⟨hs, hn⟩, hs, hn⟩

theorem eff_childFailed (x : ATx) (n err : Bytes) : Eff x (childFailed x n err) := by
  unfold childFailed
  split
  · exact Eff.refl x
  · rename_i pa _
    obtain ⟨h, hs, hn⟩ := failAct_fold err (x.acts.filter fun p => p.name != n && p.exec == pa.exec) x
    exact Eff.quiet_trans h ⟨hs, hn⟩ (eff_failAct err _ pa) ⟨rfl, rfl⟩

theorem eff_timedOut (x : ATx) (n : Bytes) : Eff x (timedOut x n) := by
  unfold timedOut
  split
  · exact Eff.refl x
  · rename_i pa _
    exact eff_failAct ERR_TIMED_OUT x pa

theorem eff_dispatchA (tbl : List IfaceRow) (a : ABus) (c : ConnId) (m0 : Msg) :
    Eff (ofCore a { bus := a.core }) (dispatchA tbl a c m0) := by
  unfold dispatchA
  dsimp only
  repeat' split
  all_goals first
    | exact Eff.same rfl rfl rfl
    | exact Eff.ofT _ (eff_finishA _ c _ (eff_toDriverA tbl a.files a.maxPending _ c _))
    | exact eff_finishA _ c _ (eff_routeA a.files a.maxPending _ c _)

/-- **A program is started at most once per activation.** Whatever the event, a step of the bus
    starts at most one program, and only for a name that has no pending activation; afterwards that
    name has one, and there are never two pending activations for one name.  So between the start of
    a program for `n` and the end of that activation (name taken, failure, timeout) no second
    program is started for `n`. -/
theorem program_started_at_most_once_per_activation (tbl : List IfaceRow) (a : ABus) (ev : AEv) (hwf : ActsWF a.acts) :
    ((stepA tbl a ev).spawned = [] ∨
      ∃ n k, findAct a.acts n = none ∧ (stepA tbl a ev).spawned = [(n, k)] ∧ (findAct (stepA tbl a ev).acts n).isSome = true) ∧
    ActsWF (stepA tbl a ev).acts := by
  have key : Eff (ofCore a { bus := a.core }) (stepA tbl a ev) := by
    cases ev with
    | core e =>
      cases e with
      | msg c m => exact eff_dispatchA tbl a c m
      | connect c uid gids canFd => exact Eff.same rfl rfl rfl
      | invalid c => exact Eff.same rfl rfl rfl
      | close c => exact Eff.same rfl rfl rfl
      | timeout => exact Eff.same rfl rfl rfl
      | expire due => exact Eff.same rfl rfl rfl
      | stall c on => exact Eff.same rfl rfl rfl
      | reload p => exact Eff.same rfl rfl rfl
    | childExited k err =>
      cases err with
      | none => exact Eff.same rfl rfl rfl
      | some err =>
        simp only [stepA]
        split
        · exact eff_childFailed _ _ err
        · exact Eff.same rfl rfl rfl
    | execFailed n =>
      simp only [stepA]
      repeat' split
      all_goals first
        | exact Eff.same rfl rfl rfl
        | exact eff_childFailed _ n ERR_EXEC_FAILED
    | actTimeout n => exact eff_timedOut _ n
  refine ⟨?_, key.2 hwf⟩
  rcases key.1 with ⟨hs, _⟩ | ⟨n, k, hnone, hs, hsome⟩
  · exact Or.inl hs
  · exact Or.inr ⟨n, k, hnone, hs, hsome⟩

/-- in every reachable state there is at most one pending activation per name -/
theorem one_pending_activation_per_name (tbl : List IfaceRow) (evs : List AEv) (a : ABus) (hwf : ActsWF a.acts) :
    ActsWF (runA tbl a evs).1.acts := by
  unfold runA
  suffices h : ∀ (evs : List AEv) (acc : ABus × List ATx), ActsWF acc.1.acts →
      ActsWF (evs.foldl (fun (acc : ABus × List ATx) ev => (acc.1.next (stepA tbl acc.1 ev), acc.2 ++ [stepA tbl acc.1 ev])) acc).1.acts from
    h evs (a, []) hwf
  intro evs
  induction evs with
  | nil => intro acc h; exact h
  | cons ev evs ih =>
    intro acc h
    simp only [List.foldl_cons]
    exact ih _ (program_started_at_most_once_per_activation tbl acc.1 ev h).2

/-! ### the name is taken: held messages, once, in arrival order -/

/-- **Held messages are delivered exactly once, in arrival order, subject to policy.** When the
    name `n` has just been given to `owner`, what `bus_activation_send_pending_auto_activation_messages`
    adds to the output is, entry by entry in the order the entries arrived: for an auto-start entry
    whose sender is still connected, either one copy of the held message to `owner` (followed by
    copies to eavesdroppers, never a second one to `owner`), or — the policy gate refusing it now
    that the recipient is known — nothing to `owner` and at most one error to the sender; nothing
    for other entries.  The pending activation is then gone, so nothing is delivered a second time. -/
theorem held_messages_once_in_arrival_order (x : ATx) (n : Bytes) (pa : PendingAct) (owner : ConnId)
    (hf : findAct x.acts n = some pa) (ho : x.t.bus.primary? n = some owner) :
    ∃ ls : List (List Out), (sendPending x n).t.out = x.t.out ++ ls.flatten ∧ Each₂ (HeldOut owner) pa.entries ls ∧
      findAct (sendPending x n).acts n = none ∧ core (sendPending x n).t.bus = core x.t.bus := by
  unfold sendPending
  simp only [hf, ho]
  obtain ⟨hc, ls, hls, hh⟩ := deliverHeld_fold owner pa.entries x.t
  exact ⟨ls, hls, hh, findAct_dropAct _ _, hc⟩

/-- nothing pending for the name: taking it delivers nothing extra -/
theorem nothing_pending_nothing_sent (x : ATx) (n : Bytes) (hf : findAct x.acts n = none) : sendPending x n = x := by
  unfold sendPending
  simp [hf]

/-- an auto-start entry of a connected sender that the gate lets through does reach the owner -/
theorem allowed_held_message_is_delivered (owner : ConnId) (t : Tx) (e : ActEntry) (p : List Pending)
    (ha : e.auto = true) (hc : connected t.bus e.conn = true)
    (hpol : checkPolicy t.bus (some e.conn) (some owner) (some owner) e.msg = (p, none))
    (hfd : (decide (e.msg.nFds > 0) && !canFdOf t.bus owner) = false) :
    ∃ l, (deliverHeld owner t e).out = t.out ++ Out.deliver owner e.msg :: l :=
  deliverHeld_delivers owner t e p ha hc hpol hfd

/-- **StartServiceByName callers are answered once**: each entry contributes nothing or exactly one
    method return carrying DBUS_START_REPLY_SUCCESS and the caller's serial -/
theorem start_callers_answered_once (pa : PendingAct) : ∀ (t : Tx),
    ∃ ls : List (List Out), (serviceCreated t pa).out = t.out ++ ls.flatten ∧
      Each₂ (fun e l => l = [] ∨ StartedOut e l) pa.entries ls := by
  unfold serviceCreated
  generalize pa.entries = es
  induction es with
  | nil => intro t; exact ⟨[], by simp, .nil⟩
  | cons e es ih =>
    intro t
    simp only [List.foldl_cons]
    obtain ⟨_, l, hl, hh⟩ := replyStarted_spec t e
    obtain ⟨ls, hls, hf⟩ := ih (replyStarted t e)
    exact ⟨l :: ls, by rw [hls, hl]; simp, .cons hh hf⟩

/-! ### the start fails, the process exits, or the timeout passes -/

/-- **Every waiting sender receives exactly one error** (none only if it has gone or its own
    receive policy refuses the bus's error): entry by entry, in arrival order; the pending
    activation is gone afterwards. -/
theorem failure_each_waiter_one_error (err : Bytes) (x : ATx) (pa : PendingAct) :
    ∃ ls : List (List Out), (failAct err x pa).t.out = x.t.out ++ ls.flatten ∧ Each₂ FailOut pa.entries ls ∧
      findAct (failAct err x pa).acts pa.name = none ∧ core (failAct err x pa).t.bus = core x.t.bus := by
  unfold failAct
  obtain ⟨hc, ls, hls, hh⟩ := failEntry_fold err pa.entries x.t
  exact ⟨ls, hls, hh, findAct_dropAct _ _, hc⟩

theorem connected_waiter_gets_the_error (err : Bytes) (t : Tx) (e : ActEntry) (p : List Pending)
    (hc : connected t.bus e.conn = true)
    (hgate : checkPolicy t.bus none (some e.conn) (some e.conn) (stampDriver t.bus e.conn (mkErrorNamed e.msg err)) = (p, none)) :
    ∃ x, (failEntry err t e).out = t.out ++ [Out.deliver e.conn x] ∧ IsErrorFor e.msg x :=
  failEntry_exactly_one err t e p hc hgate

/-- the start timeout: the same fan-out with TimedOut, and the program is killed -/
theorem timeout_fails_every_waiter (x : ATx) (n : Bytes) (pa : PendingAct) (hf : findAct x.acts n = some pa) :
    ∃ ls : List (List Out), (timedOut x n).t.out = x.t.out ++ ls.flatten ∧ Each₂ FailOut pa.entries ls ∧
      (timedOut x n).killed = x.killed ++ [(n, pa.child)] ∧ findAct (timedOut x n).acts pa.name = none := by
  unfold timedOut
  simp only [hf]
  obtain ⟨ls, hls, hh, hnone, _⟩ := failure_each_waiter_one_error ERR_TIMED_OUT x pa
  exact ⟨ls, hls, hh, trivial, hnone⟩

/-- an exit status of 0 is ignored (the program may have daemonized): nothing is sent, nothing changes -/
theorem clean_exit_is_ignored (tbl : List IfaceRow) (a : ABus) (k : Nat) :
    (stepA tbl a (.childExited k none)).t.out = [] ∧ (stepA tbl a (.childExited k none)).acts = a.acts ∧
    (stepA tbl a (.childExited k none)).t.bus = a.core := by
  simp only [stepA]
  exact ⟨rfl, rfl, rfl⟩

/-- a program nobody waits for any more (its activation succeeded, failed or timed out) can die
    without anybody hearing of it -/
theorem stale_program_exit_is_silent (tbl : List IfaceRow) (a : ABus) (k : Nat) (err : Bytes)
    (h : a.acts.find? (·.child == some k) = none) :
    (stepA tbl a (.childExited k (some err))).t.out = [] ∧ (stepA tbl a (.childExited k (some err))).acts = a.acts := by
  simp only [stepA, h]
  exact ⟨rfl, rfl⟩

/-! ### the activation helper -/

open Dbus.Model.Helper in
/-- **The helper executes a program only for a syntactically valid bus name whose service file — the
    first loadable `<name>.service` in directory order — declares exactly that name together with an
    Exec line and a User; and then what it executes is the Exec line split into words.** -/
theorem helper_executes_iff (name : Bytes) (dirs : List (Option Bytes)) (argv : List Bytes) :
    Helper.run name dirs = .exec argv ↔
      validateBusName name = true ∧
      ∃ f, firstLoadable dirs = some f ∧ getString f SERVICE_SECTION KEY_NAME = some name ∧
        (getString f SERVICE_SECTION KEY_USER).isSome = true ∧
        ∃ e, getString f SERVICE_SECTION KEY_EXEC = some e ∧ parseArgv e = .ok argv := by
  unfold Helper.run
  constructor
  · intro h
    by_cases hv : validateBusName name = true
    · simp only [hv, Bool.not_true, Bool.false_eq_true, if_false] at h
      cases hf : firstLoadable dirs with
      | none => simp [hf] at h
      | some f =>
        simp only [hf] at h
        cases hn : getString f SERVICE_SECTION KEY_NAME with
        | none => simp [hn] at h
        | some n =>
          simp only [hn] at h
          by_cases hne : (n != name) = true
          · simp [hne] at h
          · simp only [hne, Bool.false_eq_true, if_false] at h
            have hn' : n = name := by simpa using hne
            cases he : getString f SERVICE_SECTION KEY_EXEC with
            | none => simp [he] at h
            | some e =>
              cases hu : getString f SERVICE_SECTION KEY_USER with
              | none => simp [he, hu] at h
              | some u =>
                simp only [he, hu] at h
                cases hp : parseArgv e with
                | ok av =>
                  simp only [hp, Outcome.exec.injEq] at h
                  exact ⟨hv, f, rfl, by rw [hn, hn'], by rw [hu]; rfl, e, he, by rw [hp, h]⟩
                | invalidArgs => simp [hp] at h
                | noMemory => simp [hp] at h
    · simp [hv] at h
  · rintro ⟨hv, f, hf, hn, hu, e, he, hp⟩
    cases hu' : getString f SERVICE_SECTION KEY_USER with
    | none => simp [hu'] at hu
    | some u => simp [hv, hf, hn, he, hu', hp]

open Dbus.Model.Helper in
/-- an invalid bus name is refused before any file is looked at -/
theorem helper_refuses_invalid_name (name : Bytes) (dirs : List (Option Bytes)) (h : validateBusName name = false) :
    Helper.run name dirs = .exit EXIT_NAME_INVALID := by
  unfold Helper.run; simp [h]

open Dbus.Model.Helper in
/-- a service file that declares another name — however similar — is never executed -/
theorem helper_refuses_other_name (name other : Bytes) (dirs : List (Option Bytes)) (f : DFile)
    (hv : validateBusName name = true) (hf : firstLoadable dirs = some f)
    (hn : getString f SERVICE_SECTION KEY_NAME = some other) (hne : other ≠ name) :
    Helper.run name dirs = .exit EXIT_FILE_INVALID := by
  unfold Helper.run
  have : (other != name) = true := by simpa using hne
  simp [hv, hf, hn, this]

/-! ### non-vacuity -/

/-- a pending activation with two held calls and a StartServiceByName caller, taken by connection 7 -/
example : ∃ (x : ATx) (pa : PendingAct), findAct x.acts [0x61] = some pa ∧ x.t.bus.primary? [0x61] = some 7 ∧ pa.entries.length = 3 :=
  ⟨{ t := { bus := { services := [{ name := [0x61], owners := [{ conn := 7, allowRepl := false, noQueue := false }] }] } },
     acts := [{ name := [0x61], exec := [], entries := [{ conn := 1, msg := default, auto := true }, { conn := 2, msg := default, auto := false },
                                                          { conn := 1, msg := default, auto := true }] }] },
   _, rfl, rfl, rfl⟩

/-! ### the start timeout belongs to the activation, not to its waiters -/

/-- has the timer of the pending activation `n` run out at time `now`? -/
def actDue (t : TBus) (now : Nat) (n : Bytes) : Bool := t.actBorn.any fun e => e.1 == n && decide (e.2 + t.startTimeout ≤ now)

theorem actDue_iff (t : TBus) (now : Nat) (n : Bytes) : actDue t now n = true ↔ ∃ b, (n, b) ∈ t.actBorn ∧ b + t.startTimeout ≤ now := by
  unfold actDue
  simp only [List.any_eq_true, Bool.and_eq_true, beq_iff_eq, decide_eq_true_eq]
  constructor
  · rintro ⟨e, he, rfl, hd⟩; exact ⟨e.2, he, hd⟩
  · rintro ⟨b, hb, hd⟩; exact ⟨(n, b), hb, rfl, hd⟩

/-- **Joining an activation does not move its deadline.** Whatever happens — more senders joining the
    pending activation, other traffic — as long as the activation is still pending afterwards, the
    time its timer was armed at is the one recorded when the program was started. -/
theorem joining_keeps_the_start_deadline (tbl : List IfaceRow) (t : TBus) (e : AEv) (pa : PendingAct) (b : Nat)
    (hb : t.actBorn.lookup pa.name = some b) (hpa : pa ∈ (stepT tbl t (.ev e)).1.a.acts) :
    (pa.name, b) ∈ (stepT tbl t (.ev e)).1.actBorn :=
  stampActs_keeps t.now t.actBorn _ pa b hb hpa

/-- **When time passes, exactly the activations whose timer has run out end** (each waiter getting its
    TimedOut error: `timeout_fails_every_waiter`); every other pending activation stays as it is, with
    all its waiters. -/
theorem start_deadline_is_fixed (tbl : List IfaceRow) (t : TBus) (dt : Nat) :
    (stepT tbl t (.advance dt)).1.a.acts = t.a.acts.filter (fun pa => !actDue t (t.now + dt) pa.name) := by
  simp only [stepT]
  rw [fireActs_acts]
  show t.a.acts.filter _ = _
  apply List.filter_congr
  intro pa _
  congr 1
  have h1 := mem_dueActs { t with now := t.now + dt } (t.now + dt) pa.name
  have h2 := actDue_iff t (t.now + dt) pa.name
  cases hs : actDue t (t.now + dt) pa.name with
  | true => simpa using h1.mpr (h2.mp hs)
  | false =>
    have hn : pa.name ∉ dueActs { t with now := t.now + dt } (t.now + dt) := fun hm => by
      have := h2.mpr (h1.mp hm); rw [hs] at this; cases this
    simpa using hn

/-- the transactions of an `advance`, after the expiry of the pending replies, are the time-outs of the
    due activations: one each -/
theorem one_timeout_per_due_activation (tbl : List IfaceRow) (t : TBus) (dt : Nat) :
    (stepT tbl t (.advance dt)).2.length = 1 + (dueActs { t with now := t.now + dt } (t.now + dt)).length := by
  simp only [stepT]
  obtain ⟨rest, h, hl⟩ := fireActs_txs tbl (dueActs { t with now := t.now + dt } (t.now + dt))
    (({ t with now := t.now + dt } : TBus).next (stepA tbl t.a (.core (.expire (dueSlots { t with now := t.now + dt } (t.now + dt))))))
    [stepA tbl t.a (.core (.expire (dueSlots { t with now := t.now + dt } (t.now + dt))))]
  rw [h]; simp [hl]; omega

/-- the hypotheses are met: an activation started at time 0 with a 1000 s timeout, joined at 700 s, is still
    pending at 900 s and over at 1150 s -/
example : let t : TBus := { a := { acts := [{ name := [0x61], exec := [], entries := [{ conn := 1, msg := default, auto := true }] }] },
                            startTimeout := 1000000, actBorn := [([0x61], 0)], now := 700000 }
    ((stepT [] t (.advance 200000)).1.a.acts.length = 1) ∧ ((stepT [] t (.advance 450000)).1.a.acts.length = 0) := by
  decide

end Dbus.Props.C19
