import Dbus.Proofs.Bus.Names
import Dbus.Props.C07
import Dbus.Props.C09
import Dbus.Proofs.Bus.MonInv
/-
  C05 — unicast messages reach exactly the current owner, once, in order.
-/
namespace Dbus.Props.C05
open Dbus Dbus.Spec Dbus.Model Dbus.Model.Bus Dbus.Proofs.Bus

/-- the deliveries `sendMatches` adds: a sublist of "one copy to each connection with a matching rule" -/
theorem sendMatches_fold_sublist (m : Msg) (s a : Option ConnId) : ∀ (rs : List ConnId) (t : Tx),
    ∃ l, (rs.foldl (fun t r => sendOne t s a r m) t).out = t.out ++ l ∧ l.Sublist (rs.map fun r => Out.deliver r m)
  | [], t => ⟨[], by simp, List.Sublist.refl _⟩
  | r :: rs, t => by
    simp only [List.foldl_cons, List.map_cons]
    obtain ⟨l, hl, hs⟩ := sendMatches_fold_sublist m s a rs (sendOne t s a r m)
    rcases (sendOne_spec t s a r m).2 with ho | ho
    · exact ⟨l, by rw [hl, ho], hs.cons _⟩
    · exact ⟨Out.deliver r m :: l, by rw [hl, ho]; simp, hs.cons_cons _⟩

theorem sendMatches_sublist (t : Tx) (s a : Option ConnId) (m : Msg) :
    ∃ l, (sendMatches t s a m).out = t.out ++ l ∧
      l.Sublist ((recipients t.bus s a m).map fun r => Out.deliver r m) :=
  sendMatches_fold_sublist m s a _ t

/-- the addressed recipient is never among the match-rule recipients (it already has its copy) -/
theorem addressed_not_recipient (b : Bus) (s : Option ConnId) (a : ConnId) (m : Msg) : a ∉ recipients b s (some a) m := by
  unfold recipients
  intro h
  simp only [List.mem_map, List.mem_filter] at h
  obtain ⟨x, ⟨_, hx⟩, rfl⟩ := h
  simp at hx

/-- every match-rule recipient of a message that names a destination has an eavesdropping rule
    matching it -/
theorem recipient_of_unicast_eavesdrops (b : Bus) (s a : Option ConnId) (m : Msg) (d : Bytes) (hd : m.dest = some d)
    (r : ConnId) (hr : r ∈ recipients b s a m) :
    ∃ x ∈ b.conns, x.id = r ∧ ∃ rule ∈ x.rules, rule.eavesdrop = true ∧ ruleMatches rule (matchCtx b s a m) = true := by
  unfold recipients at hr
  simp only [List.mem_map, List.mem_filter, Bool.and_eq_true, List.any_eq_true] at hr
  obtain ⟨x, ⟨hx, ⟨_, rule, hrule, hm⟩⟩, rfl⟩ := hr
  refine ⟨x, hx, rfl, rule, hrule, ?_, hm⟩
  have hctx : (matchCtx b s a m).dest = some d := hd
  cases he : rule.eavesdrop with
  | true => rfl
  | false =>
    have := Dbus.Props.C07.unicast_needs_eavesdrop rule (matchCtx b s a m) d hctx he
    simp [ruleMatches, this] at hm

/-- count of copies of `m` delivered to `a` -/
def copiesTo (a : ConnId) (m : Msg) (l : List Out) : Nat :=
  (l.filter fun o => match o with | .deliver to x => to == a && (x.serial == m.serial && x.fields.length == m.fields.length) | _ => false).length


/-- **Delivered exactly once, to the primary owner.** A message from connection `c` that names a
    destination whose primary owner at this moment is `a`, and that the policy gate lets through,
    produces: one copy to `a`, first; then at most one copy to each connection that has an
    eavesdropping match rule matching it — and `a` is not among those. -/
theorem unicast_reaches_owner_once (t : Tx) (c a : ConnId) (m : Msg) (d : Bytes) (p : List Pending)
    (hd : m.dest = some d) (ha : t.bus.primary? d = some a)
    (hpol : checkPolicy t.bus (some c) (some a) (some a) m = (p, none))
    (hfd : (decide (m.nFds > 0) && !canFdOf t.bus a) = false) :
    (route t c m).2 = none ∧
    ∃ l, (route t c m).1.out = t.out ++ Out.deliver a m :: l ∧
      l.Sublist ((recipients (t.setPending p).bus (some c) (some a) m).map fun r => Out.deliver r m) ∧
      a ∉ recipients (t.setPending p).bus (some c) (some a) m := by
  have hcap := capture_frame t (some c) (some a) m
  have hsa : sendAddressed (capture t (some c) (some a) m) (some c) a m =
      (((capture t (some c) (some a) m).setPending p).emit (.deliver a m), none) := by
    unfold sendAddressed
    rw [hcap.1]
    simp only [hpol, hfd, Bool.false_eq_true, if_false]
  have hbus : ((capture t (some c) (some a) m).setPending p).bus = (t.setPending p).bus := by
    show ({ (capture t (some c) (some a) m).bus with pending := p } : Bus) = { t.bus with pending := p }
    rw [hcap.1]
  unfold route
  simp only [hd, ha, dispatchMatches, hsa]
  obtain ⟨l, hl, hs⟩ := sendMatches_sublist (((capture t (some c) (some a) m).setPending p).emit (.deliver a m)) (some c) (some a) m
  have hbus2 : (((capture t (some c) (some a) m).setPending p).emit (.deliver a m)).bus = (t.setPending p).bus := hbus
  rw [hbus2] at hs
  refine ⟨trivial, l, ?_, hs, addressed_not_recipient _ _ a m⟩
  rw [hl]
  show ((capture t (some c) (some a) m).out ++ [Out.deliver a m]) ++ l = _
  rw [hcap.2]; simp

/-- **No owner: nothing is delivered, the sender gets one error.** -/
theorem no_owner_no_delivery (t : Tx) (c : ConnId) (m : Msg) (d : Bytes)
    (hd : m.dest = some d) (ha : t.bus.primary? d = none) :
    ∃ e, (route t c m).2 = some e ∧ (e = .nameHasNoOwner ∨ e = .serviceUnknown) ∧
      (route t c m).1.bus = t.bus ∧ (route t c m).1.out = t.out := by
  unfold route
  simp only [hd, ha]
  have hcap := capture_frame t (some c) none m
  by_cases h : m.noAutoStart = true
  · exact ⟨.nameHasNoOwner, by simp [h], Or.inl rfl, hcap.1, hcap.2⟩
  · exact ⟨.serviceUnknown, by simp [h], Or.inr rfl, hcap.1, hcap.2⟩

/-- **Refused: nothing is delivered.** When the gate refuses the addressed delivery, no copy goes
    anywhere (eavesdroppers included). -/
theorem refused_no_delivery (t : Tx) (c a : ConnId) (m : Msg) (d : Bytes) (p : List Pending) (e : Err)
    (hd : m.dest = some d) (ha : t.bus.primary? d = some a)
    (hpol : checkPolicy t.bus (some c) (some a) (some a) m = (p, some e)) :
    (route t c m).2 = some e ∧ (route t c m).1.out = t.out ∧ (route t c m).1.bus = (t.setPending p).bus := by
  have hcap := capture_frame t (some c) (some a) m
  have hsa : sendAddressed (capture t (some c) (some a) m) (some c) a m =
      ((capture t (some c) (some a) m).setPending p, some e) := by
    unfold sendAddressed; rw [hcap.1]; simp only [hpol]
  unfold route
  simp only [hd, ha, dispatchMatches, hsa]
  refine ⟨trivial, hcap.2, ?_⟩
  show ({ (capture t (some c) (some a) m).bus with pending := p } : Bus) = { t.bus with pending := p }
  rw [hcap.1]

theorem replySerial_setField (m : Msg) (f : Field) (h : f.code ≠ FIELD_REPLY_SERIAL) :
    (m.setField f).replySerial = m.replySerial := by
  unfold Msg.replySerial Msg.setField
  rw [Dbus.Props.C12.set_frame m.fields f FIELD_REPLY_SERIAL (Ne.symm h)]

theorem replySerial_mkError (m : Msg) (e : Err) : (mkError m e).replySerial = m.serial := by
  unfold mkError mkMsg Msg.replySerial getField
  simp [u32Field, FIELD_REPLY_SERIAL, natOf, List.find?_cons]

theorem replySerial_stampDriver (b : Bus) (to : ConnId) (m : Msg) : (stampDriver b to m).replySerial = m.replySerial := by
  unfold stampDriver
  cases b.nameOf to with
  | none =>
    show ((m.setSender BUS_NAME).setNoReply).replySerial = _
    exact replySerial_setField m _ (by simp [strField, FIELD_SENDER, FIELD_REPLY_SERIAL])
  | some n =>
    show (((m.setSender BUS_NAME).setDest n).setNoReply).replySerial = _
    have h1 := replySerial_setField (m.setSender BUS_NAME) (strField FIELD_DESTINATION n)
      (by simp [strField, FIELD_DESTINATION, FIELD_REPLY_SERIAL])
    have h2 := replySerial_setField m (strField FIELD_SENDER BUS_NAME) (by simp [strField, FIELD_SENDER, FIELD_REPLY_SERIAL])
    exact h1.trans h2

theorem stampDriver_mtype (b : Bus) (to : ConnId) (m : Msg) : (stampDriver b to m).mtype = m.mtype := by
  unfold stampDriver
  cases b.nameOf to <;> rfl

/-- **Exactly one error, carrying the call's serial.** What `finish` adds for an undeliverable or
    refused message: at most one message (none only if the sender's own receive policy refuses
    it), an error from the bus whose reply serial is the message's serial. -/
theorem undeliverable_one_error (t : Tx) (c : ConnId) (m : Msg) (e : Err) :
    (finish (t, some e) c m).2 = t.out ∨
    ∃ x, (finish (t, some e) c m).2 = t.out ++ [Out.deliver c x] ∧ x.mtype = 3 ∧ x.replySerial = m.serial ∧
      x.sender = some BUS_NAME := by
  show (sendError t c m e).out = t.out ∨ ∃ x, (sendError t c m e).out = _ ∧ _
  simp only [sendError]
  rcases (sendFromDriver_spec t c (mkError m e)).2 with h | h
  · exact Or.inl h
  · refine Or.inr ⟨_, h, by rw [stampDriver_mtype]; rfl, ?_, (stampDriver_busMade t.bus c (known_mkError m e)).1⟩
    rw [replySerial_stampDriver, replySerial_mkError]

/-- **A recipient that is not reading.** When the owner's outgoing queue is over the limit the message
    is not queued for it or for anybody else; the route ends in an error for the sender (which `finish`
    turns into exactly one error reply, `undeliverable_one_error`). -/
theorem stalled_owner_gets_nothing (t : Tx) (c a : ConnId) (m : Msg) (d : Bytes)
    (hd : m.dest = some d) (ha : t.bus.primary? d = some a) (hfull : queueFull t.bus (some a) = true) (hnr : m.replySerial = 0) :
    ∃ e, (route t c m).2 = some e ∧ (route t c m).1.out = t.out := by
  have h := Dbus.Props.C09.full_queue_opens_no_slot t.bus c a m hfull hnr
  rcases hp : checkPolicy t.bus (some c) (some a) (some a) m with ⟨p, e⟩
  rw [hp] at h
  cases e with
  | none => exact absurd rfl h.2
  | some e =>
    obtain ⟨h1, h2, _⟩ := refused_no_delivery t c a m d p e hd ha hp
    exact ⟨e, h1, h2⟩

/-! ### the delivered copy is the sender's message -/

theorem strip_body (m0 : Msg) : (strip m0).body = m0.body ∧ (strip m0).bodyTypes = m0.bodyTypes ∧
    (strip m0).mtype = m0.mtype ∧ (strip m0).flags = m0.flags ∧ (strip m0).serial = m0.serial := ⟨rfl, rfl, rfl, rfl, rfl⟩

/-- every defined header field other than SENDER (and CONTAINER_INSTANCE, which the bus owns) reads
    the same in the forwarded message as in the one received -/
theorem forwarded_fields_intact (m0 : Msg) (name : Bytes) (code : Nat) (h1 : code ≤ 9) (h7 : code ≠ 7) :
    getField ((strip m0).setSender name).fields code = getField m0.fields code := by
  unfold Msg.setSender Msg.setField strip Msg.delField
  simp only
  rw [Dbus.Props.C12.set_frame _ _ code (by simp [strField, FIELD_SENDER]; exact h7)]
  rw [Dbus.Props.C12.delete_frame _ FIELD_CONTAINER_INSTANCE code (by simp [FIELD_CONTAINER_INSTANCE]; omega)]
  exact Dbus.Props.C12.removeUnknown_frame _ code (by simp [FIELD_LAST]; omega)

/-- the forwarded message keeps body, body signature, type, flags and serial -/
theorem forwarded_rest_intact (m0 : Msg) (name : Bytes) :
    ((strip m0).setSender name).body = m0.body ∧ ((strip m0).setSender name).bodyTypes = m0.bodyTypes ∧
    ((strip m0).setSender name).mtype = m0.mtype ∧ ((strip m0).setSender name).flags = m0.flags ∧
    ((strip m0).setSender name).serial = m0.serial := ⟨rfl, rfl, rfl, rfl, rfl⟩

/-! ### order -/

theorem run_snd_append (tbl : List IfaceRow) (b : Bus) (evs : List Ev) (ev : Ev) :
    (run tbl b (evs ++ [ev])).2 = (run tbl b evs).2 ++ [(step tbl (run tbl b evs).1 ev).out] := by
  unfold run
  rw [List.foldl_append]
  rfl

/-- messages are handed over in the order the bus processed them: the outputs of a longer history
    extend those of its prefix -/
theorem outputs_in_processing_order (tbl : List IfaceRow) (b : Bus) (evs : List Ev) (ev : Ev) :
    ∃ out, (run tbl b (evs ++ [ev])).2 = (run tbl b evs).2 ++ [out] := ⟨_, run_snd_append tbl b evs ev⟩

/-- **The owner a unicast message is delivered to is a connected client** (and no monitor), in every reachable state: the
    registry never names a connection that has gone. -/
theorem primary_owner_is_connected (tbl : List IfaceRow) (l : Limits) (p : Policy) (evs : List Ev) (d : Bytes) (a : ConnId)
    (h : (run tbl { limits := l, policy := p } evs).1.primary? d = some a) :
    ∃ x ∈ (run tbl { limits := l, policy := p } evs).1.conns, x.id = a ∧ x.monitor = false := by
  have hg := good_run tbl (good_init l p) evs
  obtain ⟨s, hs, hq⟩ := primary?_inQueue h
  exact hg.reg.live s hs a hq

end Dbus.Props.C05
