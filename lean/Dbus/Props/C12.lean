import Dbus.Model.Encode
namespace Dbus.Props.C12
end Dbus.Props.C12
