import Dbus.Proofs.Endian
import Dbus.Proofs.EditWF
/-
  C12 — header edits keep a message valid and touch nothing else.

  Edits are functions on the abstract field list; the K-tie shows that the library's in-place
  editing (reserve padding, realign, re-pad, invalidate cache) produces `encodeMsg` of the
  edited message byte for byte after every operation.
-/
namespace Dbus.Props.C12
open Dbus Dbus.Spec Dbus.Model Dbus.Proofs.Message

/-- the edited field reads back as set -/
theorem set_reads_back : ∀ (fs : List Field) (f : Field), getField (setFieldList fs f) f.code = some f.val
  | [], f => by simp [setFieldList, getField]
  | g :: fs, f => by
    unfold setFieldList
    by_cases h : g.code = f.code
    · simp [h, getField]
    · have ih := set_reads_back fs f
      simp only [h, if_false]
      unfold getField at ih ⊢
      simp only [List.find?_cons, h, decide_false]
      exact ih

/-- every other field is untouched by a set -/
theorem set_frame : ∀ (fs : List Field) (f : Field) (c : Nat), c ≠ f.code →
    getField (setFieldList fs f) c = getField fs c
  | [], f, c, hc => by
    simp [setFieldList, getField, List.find?_cons, Ne.symm hc]
  | g :: fs, f, c, hc => by
    unfold setFieldList
    by_cases h : g.code = f.code
    · simp only [h, if_true]
      unfold getField
      have h1 : ¬ f.code = c := fun e => hc e.symm
      have h2 : ¬ g.code = c := by rw [h]; exact h1
      simp [List.find?_cons, h1, h2]
    · simp only [h, if_false]
      have ih := set_frame fs f c hc
      unfold getField at ih ⊢
      by_cases hg : g.code = c
      · simp [List.find?_cons, hg]
      · simp only [List.find?_cons, hg, decide_false]
        exact ih

/-- a deleted field is gone when it occurred once (known fields occur at most once in any
    message that was accepted from the wire or built through the API) -/
theorem delete_removes : ∀ (fs : List Field) (c : Nat), (fs.filter (·.code = c)).length ≤ 1 →
    getField (deleteFieldList fs c) c = none
  | [], c, _ => rfl
  | g :: fs, c, h => by
    unfold deleteFieldList
    by_cases hg : g.code = c
    · simp only [hg, if_true]
      have h0 : (fs.filter (·.code = c)).length = 0 := by
        simp [List.filter_cons, hg] at h; simpa using h
      have h0' : fs.filter (·.code = c) = [] := List.length_eq_zero_iff.1 h0
      unfold getField
      have hnone : fs.find? (·.code = c) = none := by
        rw [List.find?_eq_none]
        intro x hx hxc
        have hm : x ∈ fs.filter (·.code = c) := by simp [hx] ; simpa using hxc
        rw [h0'] at hm
        cases hm
      simp [hnone]
    · simp only [hg, if_false]
      have ih := delete_removes fs c (by simpa [List.filter_cons, hg] using h)
      unfold getField at ih ⊢
      simp only [List.find?_cons, hg, decide_false]
      exact ih

/-- every other field is untouched by a delete -/
theorem delete_frame : ∀ (fs : List Field) (c c' : Nat), c' ≠ c →
    getField (deleteFieldList fs c) c' = getField fs c'
  | [], _, _, _ => rfl
  | g :: fs, c, c', hc => by
    unfold deleteFieldList
    by_cases hg : g.code = c
    · simp only [hg, if_true]
      unfold getField
      have : ¬ g.code = c' := by rw [hg]; exact fun e => hc e.symm
      simp [List.find?_cons, this]
    · simp only [hg, if_false]
      have ih := delete_frame fs c c' hc
      unfold getField at ih ⊢
      by_cases hg' : g.code = c'
      · simp [List.find?_cons, hg']
      · simp only [List.find?_cons, hg', decide_false]
        exact ih

/-- stripping unknown fields keeps every known field and removes every unknown one -/
theorem removeUnknown_frame (fs : List Field) (c : Nat) (hc : c ≤ FIELD_LAST) :
    getField (removeUnknownList fs) c = getField fs c := by
  unfold removeUnknownList getField
  induction fs with
  | nil => rfl
  | cons g fs ih =>
    by_cases hk : g.code ≤ FIELD_LAST
    · simp only [List.filter_cons, hk, decide_true, if_true, List.find?_cons]
      by_cases hg : g.code = c
      · simp [hg]
      · simp only [hg, decide_false]; exact ih
    · simp only [List.filter_cons, hk, decide_false, List.find?_cons]
      have hg : ¬ g.code = c := by omega
      simp only [hg, decide_false]
      exact ih

theorem removeUnknown_all_known (fs : List Field) : ∀ f ∈ removeUnknownList fs, f.code ≤ FIELD_LAST := by
  intro f hf
  unfold removeUnknownList at hf
  simpa using (List.mem_filter.1 hf).2

/-- flags, type, body and signature types are not touched by any header edit; the serial
    only by `setSerial` -/
theorem edit_leaves_rest (m : Msg) (op : EditOp) :
    (applyEdit m op).mtype = m.mtype ∧ (applyEdit m op).flags = m.flags ∧
    (applyEdit m op).body = m.body ∧ (applyEdit m op).bodyTypes = m.bodyTypes ∧
    (applyEdit m op).endian = m.endian := by
  cases op <;> exact ⟨rfl, rfl, rfl, rfl, rfl⟩

/-- **Edited messages stay loadable**: whenever the edited abstract message is well-formed
    (in particular: the mandatory fields for its type are still there), its serialised form is
    a valid message that parses back to exactly the edited message. -/
theorem edit_roundtrip (mx fds : Nat) (m : Msg) (op : EditOp) (h : WFMsg mx fds (applyEdit m op)) :
    loadOne true mx fds (encodeMsg (applyEdit m op)) =
      .ok (applyEdit m op) (encodeMsg (applyEdit m op)).length := by
  have := loadOne_encodeMsg h []
  simpa using this

/-- **Padding is exact**: the serialised header always ends on an 8-byte boundary. -/
theorem padding_exact (m : Msg) : ((encodeMsg m).length - (encodeBody m).length) % 8 = 0 := by
  rw [encodeMsg_length]
  unfold align8 padLen
  omega

/-! ### edits keep a message valid

  Every header edit the API admits turns a well-formed message into a well-formed message, so that `edit_roundtrip`
  applies unconditionally (`edit_keeps_valid`, `edits_keep_valid`, `edits_roundtrip`).  The preconditions are the
  API's own (`EditOK`): a field is set to a value the setter's validity check lets through (`SetOK`: a known code other
  than SIGNATURE and UNIX_FDS, which the library derives from the body; the value of the prescribed type with valid
  contents), the serial is not set to 0, a deletion leaves the fields mandatory for the type, and the message stays within
  the size limits - the one clause that an edit making a field longer can break, and that the library checks when the
  message is sent, not when it is edited.  Removing fields needs no size hypothesis: `fieldsLen_sublist` proves that
  the field array does not grow. -/

/-- what the API's setters demand of the new field -/
structure SetOK (e : Endian) (f : Field) : Prop where
  known : f.code ≤ FIELD_LAST
  not_signature : f.code ≠ FIELD_SIGNATURE
  not_unix_fds : f.code ≠ FIELD_UNIX_FDS
  ok : FieldOK f
  wf : FieldWF e f

/-- the message with its fields replaced is within the size limits -/
def SizesOK (mx : Nat) (m : Msg) (fs : List Field) : Prop :=
  fieldsLen m.endian fs ≤ MAX_ARRAY_LENGTH ∧ fieldsLen m.endian fs ≤ mx ∧
    align8 (16 + fieldsLen m.endian fs) + (encodeBody m).length ≤ mx

theorem align8_mono {a b : Nat} (h : a ≤ b) : align8 a ≤ align8 b := padLen8_mono h

/-- fewer fields: still within the limits -/
theorem sizesOK_sublist {mx fds : Nat} {m : Msg} (h : WFMsg mx fds m) {fs' : List Field} (hs : fs'.Sublist m.fields) :
    SizesOK mx m fs' := by
  have hle := fieldsLen_sublist m.endian hs
  have h1 := (header_wf_fields_of _ _ _ _ _ _ _ h.header_wf).1
  have h2 := h.falen_le
  have h3 := h.total_le
  have h4 : align8 (16 + fieldsLen m.endian fs') ≤ align8 (16 + fieldsLen m.endian m.fields) := align8_mono (by omega)
  exact ⟨by omega, by omega, by omega⟩

/-- a message with another field list is well-formed when the list passes the loader's checks and the sizes fit -/
theorem wfMsg_fields {mx fds : Nat} {m : Msg} (h : WFMsg mx fds m) (fs : List Field)
    (hsz : SizesOK mx m fs) (hwf : ∀ f ∈ fs, FieldWF m.endian f) (hck : checkFields true fs [] = true)
    (hman : mandatoryOK m.mtype fs = true) (hsig : getField fs FIELD_SIGNATURE = getField m.fields FIELD_SIGNATURE)
    (hfd : getField fs FIELD_UNIX_FDS = getField m.fields FIELD_UNIX_FDS) :
    WFMsg mx fds { m with fields := fs } := by
  refine { mtype_ne := h.mtype_ne, version_eq := h.version_eq, serial_ne := h.serial_ne, header_wf := ?_, fields_ok := hck,
           mandatory := hman, body_types := ?_, body_wf := h.body_wf, falen_le := hsz.2.1, blen_le := h.blen_le,
           total_le := hsz.2.2, fds_ok := ?_ }
  · exact header_wf_fields _ _ _ _ _ _ m.fields fs h.header_wf hsz.1 hwf
  · have := h.body_types
    unfold bodyTypesOf at this ⊢
    show (match getField fs FIELD_SIGNATURE with | some (.str _ s) => parseSignature s | some _ => none | none => some []) = _
    rw [hsig]; exact this
  · have := h.fds_ok
    unfold unixFdsOf at this ⊢
    show (match getField fs FIELD_UNIX_FDS with | some (.fixed _ n) => n | _ => 0) ≤ fds
    rw [hfd]; exact this

/-- **Setting a field** (first time, longer, shorter) keeps a valid message valid -/
theorem set_keeps_valid (mx fds : Nat) (m : Msg) (f : Field) (h : WFMsg mx fds m) (hf : SetOK m.endian f)
    (hsz : SizesOK mx m (setFieldList m.fields f)) : WFMsg mx fds (applyEdit m (.set f)) := by
  have hold := (header_wf_fields_of _ _ _ _ _ _ _ h.header_wf).2
  refine wfMsg_fields h _ hsz ?_ (checkFields_set _ _ h.fields_ok hf.known hf.ok) (mandatoryOK_set _ _ _ h.mandatory)
    (set_frame _ _ _ (Ne.symm hf.not_signature)) (set_frame _ _ _ (Ne.symm hf.not_unix_fds))
  intro g hg
  rcases mem_setFieldList _ _ _ hg with hg | rfl
  · exact hold g hg
  · exact hf.wf

/-- **Deleting a field** that is not mandatory for the type keeps a valid message valid -/
theorem delete_keeps_valid (mx fds : Nat) (m : Msg) (c : Nat) (h : WFMsg mx fds m)
    (hs : c ≠ FIELD_SIGNATURE) (hu : c ≠ FIELD_UNIX_FDS)
    (hman : mandatoryOK m.mtype (deleteFieldList m.fields c) = true) : WFMsg mx fds (applyEdit m (.delete c)) := by
  have hold := (header_wf_fields_of _ _ _ _ _ _ _ h.header_wf).2
  have hsub := deleteFieldList_sublist m.fields c
  exact wfMsg_fields h _ (sizesOK_sublist h hsub) (fun g hg => hold g (hsub.subset hg))
    (checkFields_sublist hsub h.fields_ok) hman (delete_frame _ _ _ (Ne.symm hs)) (delete_frame _ _ _ (Ne.symm hu))

/-- **Stripping unknown fields** keeps a valid message valid - no side condition at all -/
theorem removeUnknown_keeps_valid (mx fds : Nat) (m : Msg) (h : WFMsg mx fds m) :
    WFMsg mx fds (applyEdit m .removeUnknown) := by
  have hold := (header_wf_fields_of _ _ _ _ _ _ _ h.header_wf).2
  have hsub := removeUnknownList_sublist m.fields
  exact wfMsg_fields h _ (sizesOK_sublist h hsub) (fun g hg => hold g (hsub.subset hg))
    (checkFields_sublist hsub h.fields_ok) (by rw [mandatoryOK_removeUnknown]; exact h.mandatory)
    (removeUnknown_frame _ _ (by decide)) (removeUnknown_frame _ _ (by decide))

theorem encode_fixed_len (e : Endian) (off : Nat) (b : BTy) (n n' : Nat) :
    (encode e off (.fixed b n)).length = (encode e off (.fixed b n')).length := by
  simp [encode, Dbus.Proofs.Wire.encNat_length]

/-- `dbus_message_set_serial` with a serial that is not 0 (the API's precondition) keeps a valid message valid -/
theorem setSerial_keeps_valid (mx fds : Nat) (m : Msg) (n : Nat) (h : WFMsg mx fds m) (hn : n ≠ 0) (hlt : n < 2 ^ 32) :
    WFMsg mx fds (applyEdit m (.setSerial n)) := by
  refine { mtype_ne := h.mtype_ne, version_eq := h.version_eq, serial_ne := hn, header_wf := ?_, fields_ok := h.fields_ok,
           mandatory := h.mandatory, body_types := h.body_types, body_wf := h.body_wf, falen_le := h.falen_le, blen_le := h.blen_le,
           total_le := h.total_le, fds_ok := h.fds_ok }
  have hw := h.header_wf
  show WFFields m.endian 0 0 (headerValues m.endian m.mtype m.flags m.version (encodeBody m).length n m.fields) headerTypes
  simp only [headerValues, headerTypes, WFFields] at hw ⊢
  refine ⟨hw.1, hw.2.1, hw.2.2.1, hw.2.2.2.1, hw.2.2.2.2.1, ?_, ?_⟩
  · simp only [WFVal] at hw ⊢
    exact ⟨trivial, rfl, by show n < 256 ^ 4; omega, by intro h; cases h⟩
  · rw [encode_fixed_len m.endian _ .u32 n m.serial]
    exact hw.2.2.2.2.2.2

/-- … so the message with its new serial serialises to bytes that load back as exactly that message -/
theorem setSerial_roundtrip (mx fds : Nat) (m : Msg) (n : Nat) (h : WFMsg mx fds m) (hn : n ≠ 0) (hlt : n < 2 ^ 32) :
    loadOne true mx fds (encodeMsg (applyEdit m (.setSerial n))) =
      .ok (applyEdit m (.setSerial n)) (encodeMsg (applyEdit m (.setSerial n))).length :=
  edit_roundtrip mx fds m (.setSerial n) (setSerial_keeps_valid mx fds m n h hn hlt)

/-- the API's preconditions for one edit of the message `m` -/
def EditOK (mx : Nat) (m : Msg) : EditOp → Prop
  | .set f => SetOK m.endian f ∧ SizesOK mx m (setFieldList m.fields f)
  | .delete c => c ≠ FIELD_SIGNATURE ∧ c ≠ FIELD_UNIX_FDS ∧ mandatoryOK m.mtype (deleteFieldList m.fields c) = true
  | .removeUnknown => True
  | .setSerial n => n ≠ 0 ∧ n < 2 ^ 32

/-- **One edit keeps a valid message valid.** -/
theorem edit_keeps_valid (mx fds : Nat) (m : Msg) (op : EditOp) (h : WFMsg mx fds m) (hop : EditOK mx m op) :
    WFMsg mx fds (applyEdit m op) := by
  cases op with
  | set f => exact set_keeps_valid mx fds m f h hop.1 hop.2
  | delete c => exact delete_keeps_valid mx fds m c h hop.1 hop.2.1 hop.2.2
  | removeUnknown => exact removeUnknown_keeps_valid mx fds m h
  | setSerial n => exact setSerial_keeps_valid mx fds m n h hop.1 hop.2

/-- every edit of the sequence meets the API's preconditions on the message as it then is -/
def EditsOK (mx : Nat) : Msg → List EditOp → Prop
  | _, [] => True
  | m, op :: ops => EditOK mx m op ∧ EditsOK mx (applyEdit m op) ops

/-- **Any sequence of edits keeps a valid message valid** -/
theorem edits_keep_valid (mx fds : Nat) : ∀ (ops : List EditOp) (m : Msg), WFMsg mx fds m → EditsOK mx m ops →
    WFMsg mx fds (ops.foldl applyEdit m)
  | [], _, h, _ => h
  | op :: ops, m, h, hops => edits_keep_valid mx fds ops _ (edit_keeps_valid mx fds m op h hops.1) hops.2

/-- … and so the edited message serialises to bytes that load back as exactly the edited message -/
theorem edits_roundtrip (mx fds : Nat) (ops : List EditOp) (m : Msg) (h : WFMsg mx fds m) (hops : EditsOK mx m ops) :
    loadOne true mx fds (encodeMsg (ops.foldl applyEdit m)) =
      .ok (ops.foldl applyEdit m) (encodeMsg (ops.foldl applyEdit m)).length := by
  have := loadOne_encodeMsg (edits_keep_valid mx fds ops m h hops) []
  simpa using this

/-- non-vacuity of `SetOK`: a DESTINATION field `a.b` is one the setter admits -/
example (e : Endian) : SetOK e { code := FIELD_DESTINATION, ty := .basic .str, val := .str .str [0x61, 0x2e, 0x62] } := by
  refine ⟨by decide, by decide, by decide, ⟨by decide, fun _ => ⟨.str, rfl, rfl, by decide⟩⟩, ?_⟩
  unfold FieldWF fieldVal
  simp only [WFVal, WFFields, Ty.WF, Ty.DepthLax]
  refine ⟨by simp, by unfold MAX_VALUE_DEPTH; omega, ⟨trivial, rfl, by decide, by simp⟩, ?_, trivial⟩
  refine ⟨trivial, ⟨by decide, by decide, by decide⟩, by decide, by unfold MAX_VALUE_DEPTH; omega, trivial, rfl, by decide,
    fun _ => (Props.C16.validateUtf8_iff _).1 (by decide +kernel), ⟨(fun h => by cases h), (fun h => by cases h)⟩⟩

/-! ### non-vacuity: a concrete well-formed message and a concrete admissible sequence of edits -/

open Dbus.Proofs.Wire in
/-- a method return (REPLY_SERIAL 9, serial 1, no body) -/
def exampleReturn : Msg :=
  { endian := Endian.little, mtype := 2, flags := 0, version := 1, serial := 1,
    fields := [{ code := 5, ty := .basic .u32, val := .fixed .u32 9 }],
    bodyTypes := [], body := [] }


open Dbus.Proofs.Wire in
theorem exampleReturn_wf : WFMsg 4096 0 exampleReturn := by
  refine { mtype_ne := by decide, version_eq := rfl, serial_ne := by decide, header_wf := ?_, fields_ok := by decide, mandatory := by decide,
           body_types := rfl, body_wf := trivial, falen_le := ?_, blen_le := ?_, total_le := ?_, fds_ok := by decide }
  · simp [exampleReturn, headerValues, headerTypes, WFFields, WFVal, WFElems, fieldVal, encodeBody, BTy.isFixed, BTy.fixedSize, BTy.size, Ty.isFixed,
      MAX_VALUE_DEPTH, MAX_ARRAY_LENGTH, Ty.WF, Ty.DepthLax, Ty.maxRun, Ty.structDepth, Ty.dictDepth, MAX_TYPE_DEPTH,
      encodeList, encode, Dbus.Proofs.Wire.encNat_length, Ty.print, BTy.code, pad, padLen, BTy.align, Ty.align, Endian.toByte]
  · simp [exampleReturn, fieldsLen, fieldVal, encodeList, encode, Dbus.Proofs.Wire.encNat_length, Ty.print, BTy.code, pad, padLen, BTy.align, Ty.align, BTy.size, BTy.fixedSize]
  · simp [exampleReturn, encodeBody, encodeList]
  · simp [exampleReturn, fieldsLen, fieldVal, encodeBody, align8, encodeList, encode, Dbus.Proofs.Wire.encNat_length, Ty.print, BTy.code, pad, padLen, BTy.align, Ty.align, BTy.size, BTy.fixedSize]


theorem dest_setok (e : Endian) : SetOK e { code := FIELD_DESTINATION, ty := .basic .str, val := .str .str [0x61, 0x2e, 0x62] } := by
  refine ⟨by decide, by decide, by decide, ⟨by decide, fun _ => ⟨.str, rfl, rfl, by decide⟩⟩, ?_⟩
  unfold FieldWF fieldVal
  simp only [WFVal, WFFields, Ty.WF, Ty.DepthLax]
  refine ⟨by simp, by unfold MAX_VALUE_DEPTH; omega, ⟨trivial, rfl, by decide, by simp⟩, ?_, trivial⟩
  refine ⟨trivial, ⟨by decide, by decide, by decide⟩, by decide, by unfold MAX_VALUE_DEPTH; omega, trivial, rfl, by decide,
    fun _ => (Props.C16.validateUtf8_iff _).1 (by decide +kernel), ⟨(fun h => by cases h), (fun h => by cases h)⟩⟩

/-- non-vacuity of `edits_keep_valid`: on a method return, set the destination, then strip unknown fields, then give it serial 5 -/
example : WFMsg 4096 0 ([EditOp.set { code := FIELD_DESTINATION, ty := .basic .str, val := .str .str [0x61, 0x2e, 0x62] }, .removeUnknown,
                         .setSerial 5].foldl applyEdit exampleReturn) := by
  refine edits_keep_valid 4096 0 _ exampleReturn exampleReturn_wf ⟨⟨dest_setok _, ?_⟩, trivial, ⟨by decide, by decide⟩, trivial⟩
  simp [SizesOK, exampleReturn, setFieldList, FIELD_DESTINATION, fieldsLen, fieldVal, encodeBody, align8, encodeList, encode, Dbus.Proofs.Wire.encNat_length, Ty.print, BTy.code, pad, padLen,
    BTy.align, Ty.align, BTy.size, BTy.fixedSize, MAX_ARRAY_LENGTH]

end Dbus.Props.C12
