import Dbus.Proofs.Endian
/-
  C12 — header edits keep a message valid and touch nothing else.

  Edits are functions on the abstract field list; the K-tie shows that the library's in-place
  editing (reserve padding, realign, re-pad, invalidate cache) produces `encodeMsg` of the
  edited message byte for byte after every operation.
-/
namespace Dbus.Props.C12
open Dbus Dbus.Spec Dbus.Model Dbus.Proofs.Message

/-- the edited field reads back as set -/
theorem set_reads_back : ∀ (fs : List Field) (f : Field), getField (setFieldList fs f) f.code = some f.val
  | [], f => by simp [setFieldList, getField]
  | g :: fs, f => by
    unfold setFieldList
    by_cases h : g.code = f.code
    · simp [h, getField]
    · have ih := set_reads_back fs f
      simp only [h, if_false]
      unfold getField at ih ⊢
      simp only [List.find?_cons, h, decide_false]
      exact ih

/-- every other field is untouched by a set -/
theorem set_frame : ∀ (fs : List Field) (f : Field) (c : Nat), c ≠ f.code →
    getField (setFieldList fs f) c = getField fs c
  | [], f, c, hc => by
    simp [setFieldList, getField, List.find?_cons, Ne.symm hc]
  | g :: fs, f, c, hc => by
    unfold setFieldList
    by_cases h : g.code = f.code
    · simp only [h, if_true]
      unfold getField
      have h1 : ¬ f.code = c := fun e => hc e.symm
      have h2 : ¬ g.code = c := by rw [h]; exact h1
      simp [List.find?_cons, h1, h2]
    · simp only [h, if_false]
      have ih := set_frame fs f c hc
      unfold getField at ih ⊢
      by_cases hg : g.code = c
      · simp [List.find?_cons, hg]
      · simp only [List.find?_cons, hg, decide_false]
        exact ih

/-- a deleted field is gone when it occurred once (known fields occur at most once in any
    message that was accepted from the wire or built through the API) -/
theorem delete_removes : ∀ (fs : List Field) (c : Nat), (fs.filter (·.code = c)).length ≤ 1 →
    getField (deleteFieldList fs c) c = none
  | [], c, _ => rfl
  | g :: fs, c, h => by
    unfold deleteFieldList
    by_cases hg : g.code = c
    · simp only [hg, if_true]
      have h0 : (fs.filter (·.code = c)).length = 0 := by
        simp [List.filter_cons, hg] at h; simpa using h
      have h0' : fs.filter (·.code = c) = [] := List.length_eq_zero_iff.1 h0
      unfold getField
      have hnone : fs.find? (·.code = c) = none := by
        rw [List.find?_eq_none]
        intro x hx hxc
        have hm : x ∈ fs.filter (·.code = c) := by simp [hx] ; simpa using hxc
        rw [h0'] at hm
        cases hm
      simp [hnone]
    · simp only [hg, if_false]
      have ih := delete_removes fs c (by simpa [List.filter_cons, hg] using h)
      unfold getField at ih ⊢
      simp only [List.find?_cons, hg, decide_false]
      exact ih

/-- every other field is untouched by a delete -/
theorem delete_frame : ∀ (fs : List Field) (c c' : Nat), c' ≠ c →
    getField (deleteFieldList fs c) c' = getField fs c'
  | [], _, _, _ => rfl
  | g :: fs, c, c', hc => by
    unfold deleteFieldList
    by_cases hg : g.code = c
    · simp only [hg, if_true]
      unfold getField
      have : ¬ g.code = c' := by rw [hg]; exact fun e => hc e.symm
      simp [List.find?_cons, this]
    · simp only [hg, if_false]
      have ih := delete_frame fs c c' hc
      unfold getField at ih ⊢
      by_cases hg' : g.code = c'
      · simp [List.find?_cons, hg']
      · simp only [List.find?_cons, hg', decide_false]
        exact ih

/-- stripping unknown fields keeps every known field and removes every unknown one -/
theorem removeUnknown_frame (fs : List Field) (c : Nat) (hc : c ≤ FIELD_LAST) :
    getField (removeUnknownList fs) c = getField fs c := by
  unfold removeUnknownList getField
  induction fs with
  | nil => rfl
  | cons g fs ih =>
    by_cases hk : g.code ≤ FIELD_LAST
    · simp only [List.filter_cons, hk, decide_true, if_true, List.find?_cons]
      by_cases hg : g.code = c
      · simp [hg]
      · simp only [hg, decide_false]; exact ih
    · simp only [List.filter_cons, hk, decide_false, List.find?_cons]
      have hg : ¬ g.code = c := by omega
      simp only [hg, decide_false]
      exact ih

theorem removeUnknown_all_known (fs : List Field) : ∀ f ∈ removeUnknownList fs, f.code ≤ FIELD_LAST := by
  intro f hf
  unfold removeUnknownList at hf
  simpa using (List.mem_filter.1 hf).2

/-- flags, type, body and signature types are not touched by any header edit; the serial
    only by `setSerial` -/
theorem edit_leaves_rest (m : Msg) (op : EditOp) :
    (applyEdit m op).mtype = m.mtype ∧ (applyEdit m op).flags = m.flags ∧
    (applyEdit m op).body = m.body ∧ (applyEdit m op).bodyTypes = m.bodyTypes ∧
    (applyEdit m op).endian = m.endian := by
  cases op <;> exact ⟨rfl, rfl, rfl, rfl, rfl⟩

/-- **Edited messages stay loadable**: whenever the edited abstract message is well-formed
    (in particular: the mandatory fields for its type are still there), its serialised form is
    a valid message that parses back to exactly the edited message. -/
theorem edit_roundtrip (mx fds : Nat) (m : Msg) (op : EditOp) (h : WFMsg mx fds (applyEdit m op)) :
    loadOne true mx fds (encodeMsg (applyEdit m op)) =
      .ok (applyEdit m op) (encodeMsg (applyEdit m op)).length := by
  have := loadOne_encodeMsg h []
  simpa using this

/-- **Padding is exact**: the serialised header always ends on an 8-byte boundary. -/
theorem padding_exact (m : Msg) : ((encodeMsg m).length - (encodeBody m).length) % 8 = 0 := by
  rw [encodeMsg_length]
  unfold align8 padLen
  omega

/-! ### edits keep a message valid

  FULL STATEMENT: every header edit the API admits turns a well-formed message into a well-formed message (so that
  `edit_roundtrip` applies unconditionally).  PROVED PART: the serial (`setSerial_keeps_valid`, hence
  `setSerial_roundtrip`).  For field edits the statement needs the per-field preconditions of the setters (the value is a valid
  name/path/signature of the right type, mandatory fields are not deleted, the signature field is not touched) and an
  argument that a field struct's well-formedness does not depend on which 8-aligned offset it starts at; that part is
  covered by the correspondence (byte-identical serialisation after every edit, and the edited bytes load) only. -/

theorem encode_fixed_len (e : Endian) (off : Nat) (b : BTy) (n n' : Nat) :
    (encode e off (.fixed b n)).length = (encode e off (.fixed b n')).length := by
  simp [encode, Dbus.Proofs.Wire.encNat_length]

/-- `dbus_message_set_serial` with a serial that is not 0 (the API's precondition) keeps a valid message valid -/
theorem setSerial_keeps_valid (mx fds : Nat) (m : Msg) (n : Nat) (h : WFMsg mx fds m) (hn : n ≠ 0) (hlt : n < 2 ^ 32) :
    WFMsg mx fds (applyEdit m (.setSerial n)) := by
  refine { mtype_ne := h.mtype_ne, version_eq := h.version_eq, serial_ne := hn, header_wf := ?_, fields_ok := h.fields_ok,
           mandatory := h.mandatory, body_types := h.body_types, body_wf := h.body_wf, falen_le := h.falen_le, blen_le := h.blen_le,
           total_le := h.total_le, fds_ok := h.fds_ok }
  have hw := h.header_wf
  show WFFields m.endian 0 0 (headerValues m.endian m.mtype m.flags m.version (encodeBody m).length n m.fields) headerTypes
  simp only [headerValues, headerTypes, WFFields] at hw ⊢
  refine ⟨hw.1, hw.2.1, hw.2.2.1, hw.2.2.2.1, hw.2.2.2.2.1, ?_, ?_⟩
  · simp only [WFVal] at hw ⊢
    exact ⟨trivial, rfl, by show n < 256 ^ 4; omega, by intro h; cases h⟩
  · rw [encode_fixed_len m.endian _ .u32 n m.serial]
    exact hw.2.2.2.2.2.2

/-- … so the message with its new serial serialises to bytes that load back as exactly that message -/
theorem setSerial_roundtrip (mx fds : Nat) (m : Msg) (n : Nat) (h : WFMsg mx fds m) (hn : n ≠ 0) (hlt : n < 2 ^ 32) :
    loadOne true mx fds (encodeMsg (applyEdit m (.setSerial n))) =
      .ok (applyEdit m (.setSerial n)) (encodeMsg (applyEdit m (.setSerial n))).length :=
  edit_roundtrip mx fds m (.setSerial n) (setSerial_keeps_valid mx fds m n h hn hlt)

end Dbus.Props.C12
