import Dbus.Proofs.WireFuel
/-
  C01 — untrusted bytes become a message only if spec-valid, and always safely.
  Property theorems (value / body level; the message level is in the second half).
-/
namespace Dbus.Props.C01
open Dbus Dbus.Spec Dbus.Model Dbus.Proofs.Wire

/-- **Soundness / canonicity.** Whatever the decoder accepts as a value of type `t` is exactly
    the specification's encoding of the value it returns (so no second byte string decodes to
    the same value at that offset), and the value is well-formed: typed, booleans 0/1, strings
    valid UTF-8 / paths / signatures, padding zero, array ≤ 2^26 bytes, nesting ≤ 64. -/
theorem decode_accepts_only_encodings (e : Endian) (g d : Nat) (t : Ty) (off : Nat) (bs : Bytes) (v : Val) (r : Bytes)
    (h : decode e g d t off bs = some (v, r)) :
    bs = encode e off v ++ r ∧ WFVal e d off v t :=
  (decode_sound e g).1 d t off bs v r h

/-- **Completeness.** The encoding of every well-formed value is accepted, whatever follows
    it, and reads back as that value; the fuel the loader passes (`fuelFor`) is enough. -/
theorem decode_encode (e : Endian) (v : Val) (t : Ty) (off : Nat) (r : Bytes) (n : Nat)
    (h : WFVal e 0 off v t) (hn : (encode e off v).length ≤ n) :
    decode e (fuelFor n) 0 t off (encode e off v ++ r) = some (v, r) := by
  apply decode_complete e v t 0 off r _ h
  have := need_le e v t 0 off h
  unfold fuelFor; omega

/-- **Accepts iff spec-valid** for a sequence of values of the given types (a message body or
    the header seen as a body): accepted exactly when the bytes are the encoding of
    well-formed values of those types followed by the remainder. -/
theorem decodeFields_iff (e : Endian) (ts : List Ty) (bs : Bytes) (vs : List Val) (r : Bytes) :
    decodeFields e (fuelFor bs.length) 0 ts 0 bs = some (vs, r) ↔
      (bs = encodeList e 0 vs ++ r ∧ WFFields e 0 0 vs ts) := by
  constructor
  · exact (decode_sound e _).2.1 0 ts 0 bs vs r
  · rintro ⟨hb, hwf⟩
    have hfuel : needList vs ≤ fuelFor bs.length :=
      fuelFor_covers e vs ts 0 bs.length hwf (by rw [hb]; simp)
    have := decodeFields_complete e vs ts 0 0 r (fuelFor bs.length) hwf hfuel
    rw [hb] at this ⊢
    simpa using this

/-- **Prefix stability** (used by C11): what is accepted, and how many bytes it consumed, does
    not depend on the bytes that follow. -/
theorem validate_prefix_stable (e : Endian) (ts : List Ty) (a b : Bytes) (vs : List Val) (r : Bytes)
    (h : decodeFields e (fuelFor a.length) 0 ts 0 a = some (vs, r)) :
    decodeFields e (fuelFor (a ++ b).length) 0 ts 0 (a ++ b) = some (vs, r ++ b) := by
  obtain ⟨ha, hwf⟩ := (decodeFields_iff e ts a vs r).1 h
  apply (decodeFields_iff e ts (a ++ b) vs (r ++ b)).2
  exact ⟨by rw [ha]; simp, hwf⟩

/-- … and conversely: if the longer buffer is accepted using only bytes of the shorter one,
    the shorter one is accepted with the same values. -/
theorem validate_prefix_reflects (e : Endian) (ts : List Ty) (a b : Bytes) (vs : List Val) (r : Bytes)
    (h : decodeFields e (fuelFor (a ++ b).length) 0 ts 0 (a ++ b) = some (vs, r))
    (hlen : (encodeList e 0 vs).length ≤ a.length) :
    ∃ r', r = r' ++ b ∧ decodeFields e (fuelFor a.length) 0 ts 0 a = some (vs, r') := by
  obtain ⟨hab, hwf⟩ := (decodeFields_iff e ts (a ++ b) vs r).1 h
  -- a ++ b = enc ++ r with |enc| ≤ |a| : so a = enc ++ r' and r = r' ++ b
  have h1 : a = (a ++ b).take a.length := by simp
  have hsplit : a = encodeList e 0 vs ++ (a.drop (encodeList e 0 vs).length) := by
    have : (a ++ b).take (encodeList e 0 vs).length = encodeList e 0 vs := by rw [hab]; simp
    have h2 : a.take (encodeList e 0 vs).length = encodeList e 0 vs := by
      rw [List.take_append_of_le_length hlen] at this
      exact this
    have h3 := (List.take_append_drop (encodeList e 0 vs).length a).symm
    rw [h2] at h3
    exact h3
  refine ⟨a.drop (encodeList e 0 vs).length, ?_, ?_⟩
  · have : encodeList e 0 vs ++ r = encodeList e 0 vs ++ (a.drop (encodeList e 0 vs).length ++ b) := by
      rw [← hab, ← List.append_assoc, ← hsplit]
    exact List.append_cancel_left this
  · apply (decodeFields_iff e ts a vs _).2
    exact ⟨hsplit, hwf⟩

/-- non-vacuity: a struct holding a byte, an array of u16 and a variant is well-formed (so
    the hypotheses of `decode_encode` are satisfiable by a nested value) in both byte orders -/
example (e : Endian) :
    WFVal e 0 0 (.struct [.fixed .byte 9, .array (.basic .u16) [.fixed .u16 7, .fixed .u16 65535],
                          .variant (.basic .bool) (.fixed .bool 1)])
      (.struct [.basic .byte, .array (.basic .u16), .variant]) := by
  simp [WFVal, WFFields, WFElems, BTy.isFixed, BTy.fixedSize, BTy.size, Ty.isFixed, MAX_VALUE_DEPTH,
    MAX_ARRAY_LENGTH, Ty.WF, Ty.DepthLax, Ty.maxRun, Ty.structDepth, Ty.dictDepth, MAX_TYPE_DEPTH,
    encodeList, encode, encNat_length, Ty.print, BTy.code, pad, padLen, BTy.align, Ty.align]

end Dbus.Props.C01
