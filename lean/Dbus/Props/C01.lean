import Dbus.Proofs.WireIff
import Dbus.Proofs.MessageLevel
/-
  C01 — untrusted bytes become a message only if spec-valid, and always safely.
  Property theorems (value / body level; the message level is in the second half).
-/
namespace Dbus.Props.C01
open Dbus Dbus.Spec Dbus.Model Dbus.Proofs.Wire

/-- **Soundness / canonicity.** Whatever the decoder accepts as a value of type `t` is exactly
    the specification's encoding of the value it returns (so no second byte string decodes to
    the same value at that offset), and the value is well-formed: typed, booleans 0/1, strings
    valid UTF-8 / paths / signatures, padding zero, array ≤ 2^26 bytes, nesting ≤ 64. -/
theorem decode_accepts_only_encodings (e : Endian) (g d : Nat) (t : Ty) (off : Nat) (bs : Bytes) (v : Val) (r : Bytes)
    (h : decode e g d t off bs = some (v, r)) :
    bs = encode e off v ++ r ∧ WFVal e d off v t :=
  (decode_sound e g).1 d t off bs v r h

/-- **Completeness.** The encoding of every well-formed value is accepted, whatever follows
    it, and reads back as that value; the fuel the loader passes (`fuelFor`) is enough. -/
theorem decode_encode (e : Endian) (v : Val) (t : Ty) (off : Nat) (r : Bytes) (n : Nat)
    (h : WFVal e 0 off v t) (hn : (encode e off v).length ≤ n) :
    decode e (fuelFor n) 0 t off (encode e off v ++ r) = some (v, r) := by
  apply decode_complete e v t 0 off r _ h
  have := need_le e v t 0 off h
  unfold fuelFor; omega

/-- **Accepts iff spec-valid** for a sequence of values of the given types (a message body or
    the header seen as a body): accepted exactly when the bytes are the encoding of
    well-formed values of those types followed by the remainder. -/
theorem decodeFields_iff (e : Endian) (ts : List Ty) (bs : Bytes) (vs : List Val) (r : Bytes) :
    decodeFields e (fuelFor bs.length) 0 ts 0 bs = some (vs, r) ↔
      (bs = encodeList e 0 vs ++ r ∧ WFFields e 0 0 vs ts) :=
  Dbus.Proofs.Wire.decodeFields_iff e ts bs vs r

/-- **Prefix stability** (used by C11): what is accepted, and how many bytes it consumed, does
    not depend on the bytes that follow. -/
theorem validate_prefix_stable (e : Endian) (ts : List Ty) (a b : Bytes) (vs : List Val) (r : Bytes)
    (h : decodeFields e (fuelFor a.length) 0 ts 0 a = some (vs, r)) :
    decodeFields e (fuelFor (a ++ b).length) 0 ts 0 (a ++ b) = some (vs, r ++ b) :=
  Dbus.Proofs.Wire.validate_prefix_stable e ts a b vs r h

/-- … and conversely: if the longer buffer is accepted using only bytes of the shorter one,
    the shorter one is accepted with the same values. -/
theorem validate_prefix_reflects (e : Endian) (ts : List Ty) (a b : Bytes) (vs : List Val) (r : Bytes)
    (h : decodeFields e (fuelFor (a ++ b).length) 0 ts 0 (a ++ b) = some (vs, r))
    (hlen : (encodeList e 0 vs).length ≤ a.length) :
    ∃ r', r = r' ++ b ∧ decodeFields e (fuelFor a.length) 0 ts 0 a = some (vs, r') :=
  Dbus.Proofs.Wire.validate_prefix_reflects e ts a b vs r h hlen

/-- non-vacuity: a struct holding a byte, an array of u16 and a variant is well-formed (so
    the hypotheses of `decode_encode` are satisfiable by a nested value) in both byte orders -/
example (e : Endian) :
    WFVal e 0 0 (.struct [.fixed .byte 9, .array (.basic .u16) [.fixed .u16 7, .fixed .u16 65535],
                          .variant (.basic .bool) (.fixed .bool 1)])
      (.struct [.basic .byte, .array (.basic .u16), .variant]) := by
  simp [WFVal, WFFields, WFElems, BTy.isFixed, BTy.fixedSize, BTy.size, Ty.isFixed, MAX_VALUE_DEPTH,
    MAX_ARRAY_LENGTH, Ty.WF, Ty.DepthLax, Ty.maxRun, Ty.structDepth, Ty.dictDepth, MAX_TYPE_DEPTH,
    encodeList, encode, encNat_length, Ty.print, BTy.code, pad, padLen, BTy.align, Ty.align]

end Dbus.Props.C01

namespace Dbus.Props.C01
open Dbus Dbus.Spec Dbus.Model Dbus.Proofs.Message

/-- **Accepts iff spec-valid, message level.** The parser yields a message from the front of a
    buffer exactly when the buffer starts with the wire image of a well-formed message
    (`WFMsg`: marshalling, header-field, size and nesting rules), and then it yields *that*
    message, consuming exactly its image. Holds for every byte string, both byte orders, every
    maximum size and descriptor count. -/
theorem demarshal_accepts_iff_spec (mx fds : Nat) (bs : Bytes) (m : Msg) (n : Nat) :
    loadOne true mx fds bs = .ok m n ↔
      (WFMsg mx fds m ∧ n = (encodeMsg m).length ∧ ∃ rest, bs = encodeMsg m ++ rest) := by
  constructor
  · intro h
    obtain ⟨hn, htake, hwf⟩ := loadOne_sound h
    have hlen : n = (encodeMsg m).length := by
      rw [← htake]; simp; omega
    refine ⟨hwf, hlen, bs.drop n, ?_⟩
    rw [← htake]; simp
  · rintro ⟨hwf, rfl, rest, rfl⟩
    exact loadOne_encodeMsg hwf rest

/-- **Accessors equal an independent decoding**: a second, independent decoding of the accepted
    bytes (re-encoding the returned message and loading it again, on its own) gives the same
    header fields and body values. -/
theorem accessors_eq_independent_decoding (mx fds : Nat) (bs : Bytes) (m : Msg) (n : Nat)
    (h : loadOne true mx fds bs = .ok m n) :
    loadOne true mx fds (bs.take n) = .ok m n := by
  obtain ⟨hn, htake, hwf⟩ := loadOne_sound h
  have := loadOne_encodeMsg hwf []
  rw [List.append_nil, ← htake] at this
  rw [this]
  congr 1
  simp; omega

/-- **Limits are exact**: a message whose total size exceeds the loader's maximum is never
    accepted; one within it is not refused for its size. (The 2^26 array and 64-level nesting
    limits are clauses of `WFVal`; 255-byte names and signatures of the C16 predicates.) -/
theorem message_size_limit (mx fds : Nat) (bs : Bytes) (m : Msg) (n : Nat)
    (h : loadOne true mx fds bs = .ok m n) : n ≤ mx := by
  obtain ⟨hwf, hn, _⟩ := (demarshal_accepts_iff_spec mx fds bs m n).1 h
  rw [hn, encodeMsg_length]
  exact hwf.total_le

end Dbus.Props.C01
