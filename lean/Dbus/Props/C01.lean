import Dbus.Model.Message
namespace Dbus.Props.C01
end Dbus.Props.C01
