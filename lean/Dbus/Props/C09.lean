import Dbus.Proofs.Bus.Limits
import Dbus.Proofs.Bus.Timed
import Dbus.Proofs.Bus.GenericA
import Dbus.Proofs.Bus.MonInv
/-
  C09 — only the addressee of a pending call can answer it, once.
-/
namespace Dbus.Props.C09
open Dbus Dbus.Spec Dbus.Model Dbus.Model.Bus Dbus.Proofs.Bus

/-- a policy that lets a reply out only when it was requested (the system bus default:
    `<allow send_requested_reply="true" send_type="method_return|error"/>` and nothing more for replies) -/
def OnlyRequestedReplies (mxf : Nat) (rules : List PRule) : Prop :=
  ∀ (v : MsgView) (recv : PeerInfo), v.isReply = true → canSend mxf rules v false recv = false

def slot (caller callee : ConnId) (serial : Nat) : Pending := { caller := caller, callee := callee, serial := serial }

theorem msgView_isReply (m : Msg) (h : m.replySerial ≠ 0) : (msgView m).isReply = true := by
  simp [msgView, h]

/-- **Unrequested replies are refused.** A reply (method return or error) from `s` addressed to `r`
    for which no slot (r called s with that serial, still unanswered) exists is refused as access
    denied — whatever its serial, whoever `s` is. -/
theorem reply_without_slot_refused (b : Bus) (s r : ConnId) (m : Msg) (rules : List PRule)
    (hact : b.isActive s = true) (hrules : rulesOf b (some s) = some rules)
    (honly : OnlyRequestedReplies b.limits.maxFdsDefault rules)
    (hk : knownType m = true) (hr : m.replySerial ≠ 0)
    (hno : b.pending.contains (slot r s m.replySerial) = false) :
    checkPolicy b (some s) (some r) (some r) m = (b.pending, some .accessDenied) := by
  have hreq : requestedReply b (some s) (some r) (some r) m = (b.pending, false) := by
    have hmem : ¬ ({ caller := r, callee := s, serial := m.replySerial } : Pending) ∈ b.pending := by
      simpa [slot] using hno
    unfold requestedReply checkReply
    simp [hact, hr, hmem]
  have hv : policyVerdict b (some s) (some r) (some r) m false = some .accessDenied := by
    unfold policyVerdict sendAllowed
    simp only [senderInactive, hact, Bool.not_true, Bool.false_eq_true, if_false, hrules]
    rw [honly _ _ (msgView_isReply m hr)]
    simp
  unfold checkPolicy
  simp only [hk, Bool.not_true, Bool.false_eq_true, if_false, hreq, hv]

/-- **A reply uses its slot up.** Whether or not the rest of the policy then lets it through, a
    reply that finds its slot removes it. -/
theorem reply_consumes_slot (b : Bus) (s r : ConnId) (m : Msg)
    (hact : b.isActive s = true) (hk : knownType m = true) (hr : m.replySerial ≠ 0) (hty : m.mtype ≠ 1)
    (hyes : b.pending.contains (slot r s m.replySerial) = true) :
    (checkPolicy b (some s) (some r) (some r) m).1 = b.pending.erase (slot r s m.replySerial) := by
  have hreq : requestedReply b (some s) (some r) (some r) m = (b.pending.erase (slot r s m.replySerial), true) := by
    have hmem : ({ caller := r, callee := s, serial := m.replySerial } : Pending) ∈ b.pending := by
      simpa [slot] using hyes
    unfold requestedReply checkReply
    simp [hact, hr, hmem, slot]
  unfold checkPolicy
  simp only [hk, Bool.not_true, Bool.false_eq_true, if_false, hreq]
  have h1 : (m.mtype == 1) = false := by simpa using hty
  cases policyVerdict b (some s) (some r) (some r) m true with
  | some e => rfl
  | none => simp [h1]

/-- **At most one reply per call**: once the slot is used up, with a duplicate-free pending list the
    same reply finds none (and is then refused by `reply_without_slot_refused`). -/
theorem second_reply_finds_no_slot (pend : List Pending) (p : Pending) (hn : pend.Nodup) :
    (pend.erase p).contains p = false := by
  simp only [List.contains_eq_mem, decide_eq_false_iff_not]
  exact fun h => (List.Nodup.mem_erase_iff hn).mp h |>.1 rfl

/-- **A call that expects no reply opens no slot.** -/
theorem no_reply_expected_no_slot (mx : Nat) (pend : List Pending) (caller callee : ConnId) (call : Msg)
    (h : call.noReply = true) : expectReply mx pend caller callee call = (pend, none) := by
  unfold expectReply; simp [h]

/-- **An outstanding serial cannot be reused**: a second call with the serial of a still unanswered
    one to the same callee is refused and opens nothing. -/
theorem outstanding_serial_refused (mx : Nat) (pend : List Pending) (caller callee : ConnId) (call : Msg)
    (hnr : call.noReply = false) (h : pend.contains (slot caller callee call.serial) = true) :
    expectReply mx pend caller callee call = (pend, some .accessDenied) := by
  have hmem : ({ caller := caller, callee := callee, serial := call.serial } : Pending) ∈ pend := by
    simpa [slot] using h
  unfold expectReply
  simp [hnr, hmem]


/-! ### the pending list never holds a slot twice -/

def PendInv (b : Bus) : Prop := b.pending.Nodup

theorem expectReply_nodup (mx : Nat) (pend : List Pending) (caller callee : ConnId) (call : Msg) (h : pend.Nodup) :
    (expectReply mx pend caller callee call).1.Nodup := by
  unfold expectReply
  split; · exact h
  dsimp only
  split; · exact h
  split; · exact h
  rename_i hnc _
  exact List.nodup_cons.mpr ⟨by simpa using hnc, h⟩

theorem requestedReply_nodup (b : Bus) (s a p : Option ConnId) (m : Msg) (h : b.pending.Nodup) :
    (requestedReply b s a p m).1.Nodup := by
  unfold requestedReply
  repeat' split
  all_goals first
    | exact h
    | (unfold checkReply; dsimp only; split
       · exact h.sublist List.erase_sublist
       · exact h)

theorem checkPolicy_nodup (b : Bus) (s a p : Option ConnId) (m : Msg) (h : b.pending.Nodup) :
    (checkPolicy b s a p m).1.Nodup := by
  unfold checkPolicy
  split; · exact h
  have h1 := requestedReply_nodup b s a p m h
  rcases hr : requestedReply b s a p m with ⟨pend, req⟩
  rw [hr] at h1
  dsimp only
  repeat' split
  all_goals first
    | exact h1
    | exact expectReply_nodup _ _ _ _ _ h1

theorem applyQueue_pending (t : Tx) (n : Bytes) (os' : List Owner) (sigs : List Sig) :
    (applyQueue t n os' sigs).bus.pending = t.bus.pending := by
  rw [applyQueue_bus]
  exact (setOwners_frame t.bus n os').2.2.2.2.2

theorem pend_leaves : Leaves (keeps PendInv) where
  refl := fun _ h => h
  trans := fun _ _ _ h1 h2 h => h2 (h1 h)
  gate := fun b s a p m h => checkPolicy_nodup b s a p m h
  forget := fun _ _ h => h.sublist List.filter_sublist
  expire := fun _ _ => List.nodup_nil
  expireSome := fun _ _ h => h.sublist List.filter_sublist
  acquire := by
    intro t c n f _ h
    unfold acquire
    repeat' split
    all_goals first
      | exact h
      | (show ((applyQueue _ _ _ _).bus.pending).Nodup; rw [applyQueue_pending]; exact h)
  release := by
    intro t c n h
    unfold release
    repeat' split
    all_goals first
      | exact h
      | (show ((applyQueue _ _ _ _).bus.pending).Nodup; rw [applyQueue_pending]; exact h)
  removeOwner := by
    intro t n c h
    show ((applyQueue _ _ _ _).bus.pending).Nodup; rw [applyQueue_pending]; exact h
  helloOk := by
    intro t c m _ _ _ h
    unfold helloOk ensureService
    show ((applyQueue _ _ _ _).bus.pending).Nodup
    rw [applyQueue_pending, reply_bus]
    show (mint t.bus).1.pending.Nodup
    rw [show (mint t.bus).1.pending = t.bus.pending from (mintAux_fields _ _).2.2.1]; exact h
  addRule := fun _ _ _ _ _ h => h
  removeRule := fun _ _ _ _ _ h => h
  gcRules := by
    intro b _ x _ h
    unfold gcRules; split; · exact h
    split <;> exact h
  installMonitor := fun _ _ _ h => h
  joinMonitors := by
    intro b c x rules h
    show (gcRules b _).pending.Nodup
    unfold gcRules; split; · exact h
    split <;> exact h
  clearRules := fun _ _ h => h
  removeConn := fun _ _ h => h
  connect := fun _ _ _ _ _ _ h => h
  setFull := fun _ _ h => h
  setPolicy := fun _ _ h => h

/-- in every reachable state no slot (caller, callee, serial) is recorded twice -/
theorem pending_never_duplicated (tbl : List IfaceRow) (l : Limits) (p : Policy) (evs : List Ev) :
    (run tbl { limits := l, policy := p } evs).1.pending.Nodup :=
  invariant_of_leaves pend_leaves tbl _ evs List.nodup_nil

/-! ### the callee vanishes, or the timeout elapses: one NoReply per waiting call -/

theorem sendError_out (t : Tx) (to : ConnId) (m : Msg) (e : Err) :
    (sendError t to m e).out = t.out ∨ (sendError t to m e).out = t.out ++ [Out.deliver to (stampDriver t.bus to (mkError m e))] :=
  (sendFromDriver_spec t to (mkError m e)).2

/-- the NoReply the bus makes for a slot -/
def noReplyFor (b : Bus) (p : Pending) : Out :=
  Out.deliver p.caller (stampDriver b p.caller (mkError (fakeCall p.serial) .noReply))

theorem fold_noReply (b0 : Bus) (f : Pending → Bool) : ∀ (ps : List Pending) (t : Tx), t.bus = b0 →
    (ps.foldl (fun t p => if f p then sendError t p.caller (fakeCall p.serial) .noReply else t) t).bus = b0 ∧
    ∃ l, (ps.foldl (fun t p => if f p then sendError t p.caller (fakeCall p.serial) .noReply else t) t).out = t.out ++ l ∧
      l.Sublist ((ps.filter f).map (noReplyFor b0))
  | [], t, h => ⟨h, [], by simp, List.Sublist.refl _⟩
  | p :: ps, t, h => by
    simp only [List.foldl_cons]
    by_cases hf : f p = true
    · simp only [hf, if_true, List.filter_cons, List.map_cons]
      have hb : (sendError t p.caller (fakeCall p.serial) .noReply).bus = b0 := (sendFromDriver_bus _ _ _).trans h
      obtain ⟨h1, l, hl, hs⟩ := fold_noReply b0 f ps _ hb
      refine ⟨h1, ?_⟩
      rcases sendError_out t p.caller (fakeCall p.serial) .noReply with ho | ho
      · exact ⟨l, by rw [hl, ho], hs.cons _⟩
      · refine ⟨noReplyFor b0 p :: l, ?_, hs.cons_cons _⟩
        rw [hl, ho, h]; simp [noReplyFor]
    · have hf' : f p = false := by simpa using hf
      simp only [hf', Bool.false_eq_true, if_false, List.filter_cons]
      exact fold_noReply b0 f ps t h

/-- **The callee disconnects.** All slots involving the vanished connection go; for each call that
    was waiting on it the caller gets at most one NoReply (exactly one unless its own receive policy
    refuses it), in slot order, and nothing else is sent. -/
theorem callee_gone_one_noreply_each (t : Tx) (c : ConnId) :
    (dropPending t c).bus.pending = t.bus.pending.filter (fun p => !involves c p) ∧
    ∃ l, (dropPending t c).out = t.out ++ l ∧
      l.Sublist (((t.bus.pending.filter (involves c)).filter (fun p => p.callee == c && p.caller != c)).map
        (noReplyFor { t.bus with pending := t.bus.pending.filter fun p => !involves c p })) := by
  unfold dropPending
  have key := fold_noReply { t.bus with pending := t.bus.pending.filter fun p => !involves c p }
    (fun p => p.callee == c && p.caller != c) (t.bus.pending.filter (involves c))
    (t.setPending (t.bus.pending.filter fun p => !involves c p)) rfl
  have hfun : (noReplyTo c) = (fun t p => if (p.callee == c && p.caller != c) then sendError t p.caller (fakeCall p.serial) .noReply else t) := by
    funext t p; rfl
  rw [hfun]
  exact ⟨by rw [key.1], key.2⟩

/-- **The reply timeout elapses.** Every slot goes and each caller gets at most one NoReply per slot. -/
theorem timeout_one_noreply_each (b : Bus) :
    (expireAll b).1.pending = [] ∧
    ∃ l, (expireAll b).2 = l ∧ l.Sublist (b.pending.map (noReplyFor { b with pending := [] })) := by
  unfold expireAll
  have key := fold_noReply { b with pending := [] } (fun _ => true) b.pending ({ bus := { b with pending := [] } } : Tx) rfl
  have hft : b.pending.filter (fun _ => true) = b.pending := List.filter_eq_self.mpr (fun _ _ => rfl)
  simp only [if_true, hft] at key
  refine ⟨by rw [key.1], ?_⟩
  obtain ⟨l, hl, hs⟩ := key.2
  exact ⟨l, by rw [hl]; rfl, hs⟩

/-- the NoReply carries the call's serial and comes from the bus -/
theorem noReply_shape (b : Bus) (p : Pending) :
    ∃ x, noReplyFor b p = Out.deliver p.caller x ∧ x.mtype = 3 ∧ x.sender = some BUS_NAME := by
  refine ⟨_, rfl, ?_, (stampDriver_busMade b p.caller (known_mkError _ _)).1⟩
  unfold stampDriver
  cases b.nameOf p.caller <;> rfl

/-- **A callee that is not reading gets no call and owes no reply.** When the addressed recipient's
    outgoing queue is over the limit the gate refuses (LimitsExceeded unless the policy refuses first)
    and a method call leaves the pending-reply list exactly as it was: no slot is recorded for a call
    that was never delivered. -/
theorem full_queue_opens_no_slot (b : Bus) (s a : ConnId) (m : Msg) (hfull : queueFull b (some a) = true)
    (hnr : m.replySerial = 0) :
    (checkPolicy b (some s) (some a) (some a) m).1 = b.pending ∧ (checkPolicy b (some s) (some a) (some a) m).2 ≠ none := by
  unfold checkPolicy
  split
  · exact ⟨rfl, by simp⟩
  · have hrr : requestedReply b (some s) (some a) (some a) m = (b.pending, false) := by
      unfold requestedReply
      simp [hnr]
    simp only [hrr]
    have hv : policyVerdict b (some s) (some a) (some a) m false ≠ none := by
      unfold policyVerdict
      simp only [Option.isNone_some, Bool.false_and, Bool.false_eq_true, if_false, hfull, if_true]
      repeat' split
      all_goals simp
    cases hp : policyVerdict b (some s) (some a) (some a) m false with
    | none => exact absurd hp hv
    | some e => exact ⟨rfl, by simp⟩

/-! ### deadlines: the reply timeout is per call, fixed when the call is delivered -/

/-- **Entries that are due go, the others stay.** `do_expiration_with_monotonic_time` in the model:
    whatever set of pending replies is due, exactly those are removed, each caller gets at most one
    NoReply per removed slot (exactly one unless its own receive policy refuses it), in list order,
    and nothing else is sent. -/
theorem expire_due_one_noreply_each (b : Bus) (due : Pending → Bool) :
    (expireWhere b due).bus.pending = b.pending.filter (fun p => !due p) ∧
    ∃ l, (expireWhere b due).out = l ∧
      l.Sublist ((b.pending.filter due).map (noReplyFor { b with pending := b.pending.filter fun p => !due p })) := by
  unfold expireWhere
  have key := fold_noReply { b with pending := b.pending.filter fun p => !due p } (fun _ => true) (b.pending.filter due)
    ({ bus := { b with pending := b.pending.filter fun p => !due p } } : Tx) rfl
  have hft : (b.pending.filter due).filter (fun _ => true) = b.pending.filter due := List.filter_eq_self.mpr (fun _ _ => rfl)
  simp only [if_true, hft] at key
  refine ⟨by rw [key.1], ?_⟩
  obtain ⟨l, hl, hs⟩ := key.2
  exact ⟨l, by rw [hl]; rfl, hs⟩

/-- has the deadline of the pending reply `p` passed at time `now`? -/
def slotDue (t : TBus) (T now : Nat) (p : Pending) : Bool := t.slotBorn.any fun e => e.1 == p && decide (e.2 + T ≤ now)

theorem slotDue_iff (t : TBus) (T now : Nat) (p : Pending) : slotDue t T now p = true ↔ ∃ b, (p, b) ∈ t.slotBorn ∧ b + T ≤ now := by
  unfold slotDue
  simp only [List.any_eq_true, Bool.and_eq_true, beq_iff_eq, decide_eq_true_eq]
  constructor
  · rintro ⟨e, he, rfl, hd⟩; exact ⟨e.2, he, hd⟩
  · rintro ⟨b, hb, hd⟩; exact ⟨(p, b), hb, rfl, hd⟩

/-- **The reply timeout runs from the moment the call was delivered.** When `dt` milliseconds pass,
    the first thing the bus does is expire exactly the pending replies whose stamp lies `T` or more
    behind the new time — each of their callers gets its NoReply — and no other pending reply is
    touched; later calls, replies or disconnects of other connections have not moved any deadline
    (`stampSlots_keeps`). -/
theorem reply_deadline_is_fixed (tbl : List IfaceRow) (t : TBus) (T dt : Nat) (hT : t.replyTimeout = some T) :
    ∃ x : ATx, (stepT tbl t (.advance dt)).2.head? = some x ∧
      x.t.bus.pending = t.a.core.pending.filter (fun p => !slotDue t T (t.now + dt) p) ∧
      ∃ l, x.t.out = l ∧ l.Sublist ((t.a.core.pending.filter (slotDue t T (t.now + dt))).map
        (noReplyFor { t.a.core with pending := x.t.bus.pending })) := by
  refine ⟨_, advance_first_tx tbl t dt, ?_⟩
  have hdue : ∀ p, (dueSlots { t with now := t.now + dt } (t.now + dt)).contains p = slotDue t T (t.now + dt) p := by
    intro p
    have h1 := mem_dueSlots { t with now := t.now + dt } T (t.now + dt) hT p
    have h2 := slotDue_iff t T (t.now + dt) p
    cases hs : slotDue t T (t.now + dt) p with
    | true => simpa using h1.mpr (h2.mp hs)
    | false =>
      have hn : p ∉ dueSlots { t with now := t.now + dt } (t.now + dt) := fun hm => by
        have := h2.mpr (h1.mp hm); rw [hs] at this; cases this
      simpa using hn
  have hfun : (fun p => (dueSlots { t with now := t.now + dt } (t.now + dt)).contains p) = slotDue t T (t.now + dt) := funext hdue
  have key := expire_due_one_noreply_each t.a.core (slotDue t T (t.now + dt))
  have hx : (stepA tbl t.a (.core (.expire (dueSlots { t with now := t.now + dt } (t.now + dt))))).t =
      expireWhere t.a.core (slotDue t T (t.now + dt)) := by
    rw [← hfun]; rfl
  rw [hx]
  refine ⟨key.1, ?_⟩
  obtain ⟨l, hl, hs⟩ := key.2
  exact ⟨l, hl, by rw [key.1]; exact hs⟩

/-- a call younger than the timeout is not touched when time passes (its stamp is the only one recorded
    for its slot: slots are never duplicated, `pending_never_duplicated`) -/
theorem young_call_survives (tbl : List IfaceRow) (t : TBus) (T dt : Nat) (hT : t.replyTimeout = some T) (p : Pending) (b : Nat)
    (hp : p ∈ t.a.core.pending) (hb : ∀ b', (p, b') ∈ t.slotBorn → b' = b) (hyoung : t.now + dt < b + T) :
    ∃ x : ATx, (stepT tbl t (.advance dt)).2.head? = some x ∧ p ∈ x.t.bus.pending := by
  obtain ⟨x, hx, hmem, _⟩ := reply_deadline_is_fixed tbl t T dt hT
  refine ⟨x, hx, ?_⟩
  rw [hmem, List.mem_filter]
  refine ⟨hp, ?_⟩
  cases hs : slotDue t T (t.now + dt) p with
  | false => rfl
  | true =>
    obtain ⟨b', hb', hle⟩ := (slotDue_iff t T (t.now + dt) p).mp hs
    rw [hb b' hb'] at hle
    omega

/-- without a reply timeout (the session bus default) time passing expires nothing -/
theorem no_reply_timeout_nothing_expires (tbl : List IfaceRow) (t : TBus) (dt : Nat) (hT : t.replyTimeout = none) :
    ∃ x : ATx, (stepT tbl t (.advance dt)).2.head? = some x ∧ x.t.bus.pending = t.a.core.pending ∧ x.t.out = [] := by
  refine ⟨_, advance_first_tx tbl t dt, ?_⟩
  rw [dueSlots_never { t with now := t.now + dt } (t.now + dt) hT]
  show (expireWhere t.a.core (fun p => ([] : List Pending).contains p)).bus.pending = _ ∧ (expireWhere t.a.core (fun p => ([] : List Pending).contains p)).out = []
  unfold expireWhere
  have h1 : t.a.core.pending.filter (fun p => ([] : List Pending).contains p) = [] := by
    apply List.filter_eq_nil_iff.mpr; intro p _; simp
  have h2 : t.a.core.pending.filter (fun p => !([] : List Pending).contains p) = t.a.core.pending := by
    apply List.filter_eq_self.mpr; intro p _; simp
  rw [h1, h2]
  exact ⟨rfl, rfl⟩

/-! ### the same over whole histories with activation and time -/

/-- what the clock layer keeps in every reachable state: one stamp per pending reply, in step with the
    list of pending replies, and no slot recorded twice -/
def TimedInv (t : TBus) : Prop := t.slotBorn.map (·.1) = t.a.core.pending ∧ t.a.core.pending.Nodup

theorem track_fireActs (tbl : List IfaceRow) : ∀ (ns : List Bytes) (t : TBus) (acc : List ATx),
    t.slotBorn.map (·.1) = t.a.core.pending →
    (fireActs tbl ns t acc).1.slotBorn.map (·.1) = (fireActs tbl ns t acc).1.a.core.pending
  | [], _, _, h => h
  | n :: ns, t, acc, _ => by
    unfold fireActs
    exact track_fireActs tbl ns _ _ (next_slots_track t _)

theorem timedInv_step (tbl : List IfaceRow) (t : TBus) (ev : TEv) (h : TimedInv t) : TimedInv (stepT tbl t ev).1 := by
  refine ⟨?_, lvT_step pend_leaves tbl t ev h.2⟩
  cases ev with
  | ev e => exact next_slots_track t _
  | advance dt =>
    simp only [stepT]
    exact track_fireActs tbl _ _ _ (next_slots_track _ _)

/-- in every state reachable with activation and time, from a bus nobody has connected to yet -/
theorem timedInv_run (tbl : List IfaceRow) (evs : List TEv) (t0 : TBus) (h0 : TimedInv t0) : TimedInv (runT tbl t0 evs).1 := by
  unfold runT
  suffices hh : ∀ (evs : List TEv) (acc : TBus × List (List ATx)), TimedInv acc.1 →
      TimedInv (evs.foldl (fun (acc : TBus × List (List ATx)) ev => ((stepT tbl acc.1 ev).1, acc.2 ++ [(stepT tbl acc.1 ev).2])) acc).1 from
    hh evs (t0, []) h0
  intro evs
  induction evs with
  | nil => intro acc h; exact h
  | cons ev evs ih => intro acc h; simp only [List.foldl_cons]; exact ih _ (timedInv_step tbl acc.1 ev h)

theorem nodup_keys_unique : ∀ (l : List (Pending × Nat)) (p : Pending) (b b' : Nat), (l.map (·.1)).Nodup →
    (p, b) ∈ l → (p, b') ∈ l → b' = b
  | [], _, _, _, _, h, _ => by cases h
  | e :: l, p, b, b', hn, h1, h2 => by
    simp only [List.map_cons, List.nodup_cons] at hn
    rcases List.mem_cons.mp h1 with rfl | h1' <;> rcases List.mem_cons.mp h2 with h2e | h2'
    · exact (Prod.mk.inj h2e).2
    · exact absurd (List.mem_map.mpr ⟨(p, b'), h2', rfl⟩) hn.1
    · subst h2e; exact absurd (List.mem_map.mpr ⟨(p, b), h1', rfl⟩) hn.1
    · exact nodup_keys_unique l p b b' hn.2 h1' h2'

/-- a stamp is the only one recorded for its slot -/
theorem stamp_unique (t : TBus) (h : TimedInv t) (p : Pending) (b b' : Nat) (h1 : (p, b) ∈ t.slotBorn) (h2 : (p, b') ∈ t.slotBorn) :
    b' = b :=
  nodup_keys_unique t.slotBorn p b b' (by rw [h.1]; exact h.2) h1 h2

/-- **In every reachable state, a call younger than the reply timeout survives the passing of time**:
    `young_call_survives` with its side conditions discharged by the invariant. -/
theorem young_call_survives_reachable (tbl : List IfaceRow) (evs : List TEv) (t0 : TBus) (h0 : TimedInv t0) (T dt : Nat)
    (hT : (runT tbl t0 evs).1.replyTimeout = some T) (p : Pending) (b : Nat)
    (hb : (p, b) ∈ (runT tbl t0 evs).1.slotBorn) (hyoung : (runT tbl t0 evs).1.now + dt < b + T) :
    ∃ x : ATx, (stepT tbl (runT tbl t0 evs).1 (.advance dt)).2.head? = some x ∧ p ∈ x.t.bus.pending := by
  have hi := timedInv_run tbl evs t0 h0
  have hp : p ∈ (runT tbl t0 evs).1.a.core.pending := by
    rw [← hi.1]; exact List.mem_map.mpr ⟨(p, b), hb, rfl⟩
  exact young_call_survives tbl _ T dt hT p b hp (fun b' hb' => stamp_unique _ hi p b b' hb hb') hyoung

/-- the hypotheses are met: a call recorded at time 0 under an 800 s timeout survives 700 s and is gone after 900 s -/
example : let t : TBus := { a := { core := { pending := [slot 1 2 7] } }, replyTimeout := some 800000, slotBorn := [(slot 1 2 7, 0)] }
    ((stepT [] t (.advance 700000)).1.a.core.pending = [slot 1 2 7]) ∧ ((stepT [] t (.advance 900000)).1.a.core.pending = []) := by
  decide

/-! ### who a slot is between, in every reachable state -/

/-- **No slot outlives its caller or its callee**: in every reachable state of the bus each pending reply is between two
    connected clients, neither of them a monitor. (So every slot ends in one of the three ways proved above: the callee's
    reply consumes it, it expires, or one of the two disconnects - `callee_gone_one_noreply_each`.) -/
theorem slots_between_connected_clients (tbl : List IfaceRow) (l : Limits) (p : Policy) (evs : List Ev) :
    ∀ e ∈ (run tbl { limits := l, policy := p } evs).1.pending,
      (e.caller ∈ (run tbl { limits := l, policy := p } evs).1.conns.map (·.id) ∧
       e.callee ∈ (run tbl { limits := l, policy := p } evs).1.conns.map (·.id)) ∧
      ∀ x ∈ (run tbl { limits := l, policy := p } evs).1.conns, x.monitor = true → e.caller ≠ x.id ∧ e.callee ≠ x.id := by
  intro e he
  have hg := good_run tbl (good_init l p) evs
  refine ⟨hg.plive e he, ?_⟩
  intro x hx hm
  have := hg.quiet x hx hm e he
  unfold involves at this
  simp only [Bool.or_eq_false_iff, beq_eq_false_iff_ne, ne_eq] at this
  exact this

end Dbus.Props.C09
