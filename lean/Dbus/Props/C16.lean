import Dbus.Proofs.Syntax
import Dbus.Proofs.Utf8
import Dbus.Proofs.Signature
/-
  C16 — name, path, signature and UTF-8 checks accept exactly the specified grammars.
  Property theorems only; helper lemmas live in Dbus/Proofs.
-/
namespace Dbus.Props.C16
open Dbus Dbus.Spec Dbus.Model Dbus.Proofs

theorem validateMember_iff (s : Bytes) : validateMember s = true ↔ SpecMember s := by
  unfold validateMember SpecMember IsElement
  by_cases hl : s.length > MAX_NAME_LENGTH
  · simp only [hl, if_true]
    constructor
    · intro h; cases h
    · rintro ⟨h, _⟩; omega
  · simp only [hl, if_false]
    have hl' : s.length ≤ MAX_NAME_LENGTH := by omega
    cases s with
    | nil => simp
    | cons c rest =>
      simp only [Bool.and_eq_true, List.all_eq_true]
      constructor
      · rintro ⟨hc, hr⟩; exact ⟨hl', c, rest, rfl, hc, hr⟩
      · rintro ⟨_, c', cs, he, hc, hr⟩
        cases he; exact ⟨hc, hr⟩

theorem validateInterface_iff (s : Bytes) : validateInterface s = true ↔ SpecInterface s := by
  unfold validateInterface SpecInterface
  by_cases hl : s.length > MAX_NAME_LENGTH
  · simp only [hl, if_true]
    constructor
    · intro h; cases h
    · rintro ⟨h, _⟩; omega
  · simp only [hl, if_false]
    have hl' : s.length ≤ MAX_NAME_LENGTH := by omega
    constructor
    · intro h
      refine ⟨hl', ?_⟩
      cases s with
      | nil => simp at h
      | cons c rest =>
        simp only at h
        split at h
        · cases h
        · split at h
          · cases h
          · rename_i hd hi
            have hi' : isInitialNameChar c = true := by simpa using hi
            have hs : scanRest isInitialNameChar isNameChar rest false = some true := by simpa using h
            obtain ⟨t, els, hdec, hd'⟩ := scan_sound rest false true hs
            have : els ≠ [] := by intro h0; subst h0; simp at hd'
            have hlen : 1 ≤ els.length := by
              cases els with
              | nil => exact absurd rfl this
              | cons _ _ => simp
            exact dotted_of_decomp c rest t els hi' hdec (by omega)
    · rintro ⟨_, hd⟩
      obtain ⟨c, rest, t, els, rfl, hc, hdec, hn⟩ := decomp_of_dotted s hd
      have hne : c ≠ DOT := by intro h; rw [h, initialNameChar_dot] at hc; cases hc
      have hels : els ≠ [] := by intro h0; subst h0; simp at hn
      simp only [hne, if_false, hc, Bool.not_true, Bool.false_eq_true]
      rw [scan_complete nameChar_dot rest t els false hdec]
      cases els with
      | nil => exact absurd rfl hels
      | cons _ _ => simp

theorem validateErrorName_iff (s : Bytes) : validateErrorName s = true ↔ SpecErrorName s :=
  validateInterface_iff s


/-- shared analysis of `_dbus_validate_bus_name_full` -/
theorem validateBusNameFull_iff (s : Bytes) (ns : Bool) :
    validateBusNameFull s ns = true ↔
      s.length ≤ MAX_NAME_LENGTH ∧
        (IsDotted isInitialBusNameChar isBusNameChar (if ns then 1 else 2) s ∨
          ∃ t, s = COLON :: t ∧ LaxUniqueTail t) := by
  unfold validateBusNameFull
  by_cases hl : s.length > MAX_NAME_LENGTH
  · simp only [hl, if_true]
    constructor
    · intro h; cases h
    · rintro ⟨h, _⟩; omega
  · simp only [hl, if_false]
    have hl' : s.length ≤ MAX_NAME_LENGTH := by omega
    constructor
    · intro h
      refine ⟨hl', ?_⟩
      cases s with
      | nil => simp at h
      | cons c rest =>
        simp only at h
        split at h
        · rename_i hcol
          right
          refine ⟨rest, by rw [hcol], ?_⟩
          cases hs : scanRest isBusNameChar isBusNameChar rest false with
          | none => rw [hs] at h; cases h
          | some d' =>
            obtain ⟨t, els, ⟨ht, he, hs'⟩, _⟩ := scan_sound rest false d' hs
            exact ⟨t, els, ht, he, hs'⟩
        · split at h
          · cases h
          · split at h
            · cases h
            · rename_i hcol hd hi
              have hi' : isInitialBusNameChar c = true := by simpa using hi
              left
              split at h
              · cases h
              · rename_i d' hs
                obtain ⟨t, els, hdec, hd'⟩ := scan_sound rest false d' hs
                refine dotted_of_decomp c rest t els hi' hdec ?_
                cases ns with
                | true => simp
                | false =>
                  simp only [Bool.false_or] at h
                  subst h
                  cases els with
                  | nil => simp at hd'
                  | cons _ _ => simp
    · rintro ⟨_, hd | ⟨t, rfl, t0, els, ht0, he, rfl⟩⟩
      · obtain ⟨c, rest, t, els, rfl, hc, hdec, hn⟩ := decomp_of_dotted s hd
        have hne : c ≠ DOT := by intro h; rw [h, initialBusNameChar_dot] at hc; cases hc
        have hnc : c ≠ COLON := by intro h; rw [h, initialBusNameChar_colon] at hc; cases hc
        simp only [hnc, hne, if_false, hc, Bool.not_true, Bool.false_eq_true]
        rw [scan_complete busNameChar_dot rest t els false hdec]
        cases ns with
        | true => simp
        | false =>
          cases els with
          | nil => simp at hn
          | cons _ _ => simp
      · simp only [if_true]
        rw [scan_complete busNameChar_dot _ t0 els false ⟨ht0, he, rfl⟩]
        rfl

/-- The bus-name check accepts exactly the specification's bus names plus the explicitly
    characterised unique-name laxity (known finding K1). -/
theorem validateBusName_iff (s : Bytes) :
    validateBusName s = true ↔ SpecBusName s ∨ UniqueNameLaxity s := by
  unfold validateBusName
  rw [validateBusNameFull_iff]
  simp only [Bool.false_eq_true, if_false]
  unfold SpecBusName SpecWellKnownName SpecUniqueName UniqueNameLaxity
  constructor
  · rintro ⟨hl, hd | ⟨t, rfl, hlax⟩⟩
    · exact Or.inl (Or.inl ⟨hl, hd⟩)
    · by_cases hsp : IsDotted isBusNameChar isBusNameChar 2 t
      · exact Or.inl (Or.inr ⟨hl, t, rfl, hsp⟩)
      · exact Or.inr ⟨hl, t, rfl, hlax, hsp⟩
  · rintro ((⟨hl, hd⟩ | ⟨hl, t, rfl, hd⟩) | ⟨hl, t, rfl, hlax, _⟩)
    · exact ⟨hl, Or.inl hd⟩
    · refine ⟨hl, Or.inr ⟨t, rfl, ?_⟩⟩
      obtain ⟨c, rest, t0, els, rfl, hc, ⟨ht, he, rfl⟩, _⟩ := decomp_of_dotted t hd
      refine ⟨c :: t0, els, ?_, he, by simp⟩
      intro x hx
      rcases List.mem_cons.1 hx with rfl | hx
      · exact hc
      · exact ht x hx
    · exact ⟨hl, Or.inr ⟨t, rfl, hlax⟩⟩

/-- K1 is not vacuous: `:` alone is accepted by the reference and is not a bus name. -/
theorem uniqueNameLaxity_witness : UniqueNameLaxity [COLON] ∧ ¬ SpecBusName [COLON] := by
  constructor
  · refine ⟨by decide, [], rfl, ⟨[], [], by simp, by simp, by simp⟩, ?_⟩
    rintro ⟨els, hn, _, _, hs⟩
    cases els with
    | nil => simp at hn
    | cons e els =>
      cases els with
      | nil => simp at hn
      | cons e' els =>
        rw [intercalate_cons_flatMap] at hs
        simp at hs
  · have h : validateBusName [COLON] = true := by decide
    intro hsp
    rcases hsp with ⟨_, hd⟩ | ⟨_, t, ht, hd⟩
    · obtain ⟨c, rest, t0, els, hs, hc, _, _⟩ := decomp_of_dotted _ hd
      cases hs
      rw [initialBusNameChar_colon] at hc; cases hc
    · cases ht
      obtain ⟨c, rest, t0, els, hs, _⟩ := decomp_of_dotted _ hd
      cases hs

theorem validateBusNamespace_iff (s : Bytes) :
    validateBusNamespace s = true ↔ SpecBusNamespace s := by
  unfold validateBusNamespace SpecBusNamespace
  rw [validateBusNameFull_iff]
  simp

theorem validatePath_iff (s : Bytes) : validatePath s = true ↔ SpecPath s := by
  unfold validatePath SpecPath
  cases s with
  | nil =>
    simp only [Bool.false_eq_true, false_iff]
    rintro (h | ⟨els, hne, _, hs⟩)
    · cases h
    · cases els with
      | nil => exact hne rfl
      | cons _ _ => simp at hs
  | cons c rest =>
    by_cases hc : c = SLASH
    · subst hc
      simp only [ne_eq, not_true_eq_false, if_false]
      cases rest with
      | nil => simp
      | cons r rest' =>
        simp only
        constructor
        · intro h
          right
          obtain ⟨t, els, ⟨ht, he, hs⟩, hk⟩ := pathLoop_sound _ 0 h
          refine ⟨t :: els, by simp, ?_, by simp [hs]⟩
          intro e hem
          rcases List.mem_cons.1 hem with rfl | hem
          · refine ⟨?_, ht⟩
            intro h0; subst h0; simp at hk
          · exact he e hem
        · rintro (h | ⟨els, hne, he, hs⟩)
          · cases h
          · cases els with
            | nil => exact absurd rfl hne
            | cons e els =>
              simp only [List.flatMap_cons, List.cons_append, List.cons.injEq, true_and] at hs
              obtain ⟨hene, hec⟩ := he e (by simp)
              refine pathLoop_complete _ e els 0 ⟨hec, fun e' h' => he e' (by simp [h']), hs⟩ ?_
              have : e.length ≠ 0 := by simpa using hene
              omega
    · simp only [ne_eq, hc, not_false_eq_true, if_true, Bool.false_eq_true, false_iff]
      rintro (h | ⟨els, hne, _, hs⟩)
      · cases h; exact hc rfl
      · cases els with
        | nil => exact hne rfl
        | cons _ _ =>
          simp only [List.flatMap_cons, List.cons_append, List.cons.injEq] at hs
          exact hc hs.1

theorem validateUtf8_complete (cps : List Nat) (h : ∀ c ∈ cps, c ≠ 0 ∧ IsScalar c) :
    validateUtf8 (cps.flatMap utf8Encode) = true := by
  induction cps with
  | nil => simp [validateUtf8]
  | cons c cps ih =>
    rw [List.flatMap_cons, validateUtf8_encode c _ (h c (by simp)).1 (h c (by simp)).2]
    exact ih (fun c' hc' => h c' (by simp [hc']))

theorem validateUtf8_sound : ∀ (n : Nat) (bs : Bytes), bs.length ≤ n → validateUtf8 bs = true →
    SpecUtf8 bs
  | _, [], _, _ => ⟨[], by simp, by simp⟩
  | 0, _ :: _, hn, _ => by simp at hn
  | n + 1, b :: rest, hn, h => by
    obtain ⟨c, rest', hc0, hcs, heq, hlen, hv⟩ := validateUtf8_step b rest h
    obtain ⟨cps, hcps, hr⟩ := validateUtf8_sound n rest' (by simp at hn; omega) hv
    refine ⟨c :: cps, ?_, by rw [heq, hr]; simp⟩
    intro x hx
    rcases List.mem_cons.1 hx with rfl | hx
    · exact ⟨hc0, hcs⟩
    · exact hcps x hx

/-- The UTF-8 check accepts exactly the concatenations of RFC 3629 encodings of non-NUL
    Unicode scalar values: no over-long forms, no surrogates, nothing above U+10FFFF, no
    truncated or stray continuation bytes, no 5/6-byte forms, no NUL. -/
theorem validateUtf8_iff (bs : Bytes) : validateUtf8 bs = true ↔ SpecUtf8 bs := by
  constructor
  · exact validateUtf8_sound bs.length bs (Nat.le_refl _)
  · rintro ⟨cps, h, rfl⟩
    exact validateUtf8_complete cps h

/-- what the signature check decides, in terms of type trees -/
theorem validateSignature_iff_lax (bs : Bytes) :
    validateSignature bs = true ↔
      bs.length ≤ MAX_SIGNATURE_LENGTH ∧
        ∃ ts : List Ty, bs = printList ts ∧ WFList ts ∧ ∀ t ∈ ts, t.DepthLax := by
  unfold validateSignature
  by_cases hl : bs.length > MAX_SIGNATURE_LENGTH
  · simp only [hl, if_true]
    constructor
    · intro h; cases h
    · rintro ⟨h, _⟩; omega
  · simp only [hl, if_false]
    have hl' : bs.length ≤ MAX_SIGNATURE_LENGTH := by omega
    constructor
    · intro h
      refine ⟨hl', ?_⟩
      split at h
      · cases h
      · rename_i ts hp
        obtain ⟨hb, hwf⟩ := parseSeq_sound _ _ _ hp
        refine ⟨ts, hb, hwf, ?_⟩
        intro t ht
        exact (depthLax_iff t).1 (List.all_eq_true.1 h t ht)
    · rintro ⟨_, ts, rfl, hwf, hd⟩
      unfold parseSignature
      rw [parseSeq_complete ts _ hwf (Nat.le_refl _)]
      simp only [List.all_eq_true]
      exact fun t ht => (depthLax_iff t).2 (hd t ht)

/-- The signature check accepts exactly the specification's signatures, plus the explicitly
    characterised array-depth laxity (known finding K2: arrays separated by brackets may nest
    deeper than 32). -/
theorem validateSignature_iff (bs : Bytes) :
    validateSignature bs = true ↔ SpecSignature bs ∨ ArrayDepthLaxity bs := by
  rw [validateSignature_iff_lax]
  unfold SpecSignature ArrayDepthLaxity
  constructor
  · rintro ⟨hl, ts, hb, hwf, hd⟩
    by_cases hall : ∀ t ∈ ts, t.arrayDepth ≤ MAX_TYPE_DEPTH
    · exact Or.inl ⟨hl, ts, hb, hwf, fun t ht => ⟨hall t ht, (hd t ht).2.1, (hd t ht).2.2⟩⟩
    · refine Or.inr ⟨hl, ts, hb, hwf, hd, ?_⟩
      obtain ⟨t, ht⟩ := Classical.not_forall.1 hall
      obtain ⟨hm, hn⟩ := Classical.not_imp.1 ht
      exact ⟨t, hm, by omega⟩
  · rintro (⟨hl, ts, hb, hwf, hd⟩ | ⟨hl, ts, hb, hwf, hd, _⟩)
    · exact ⟨hl, ts, hb, hwf, fun t ht => depthOK_lax t (hd t ht)⟩
    · exact ⟨hl, ts, hb, hwf, hd⟩

/-- Signatures without deep array nesting are decided exactly as the specification says. -/
theorem validateSignature_iff_spec_of_shallow (bs : Bytes) (h : ¬ ArrayDepthLaxity bs) :
    validateSignature bs = true ↔ SpecSignature bs := by
  rw [validateSignature_iff]; constructor
  · rintro (h' | h')
    · exact h'
    · exact absurd h' h
  · exact Or.inl

theorem validateSingle_iff_lax (bs : Bytes) :
    validateSingle bs = true ↔
      bs.length ≤ MAX_SIGNATURE_LENGTH ∧ ∃ t : Ty, bs = t.print ∧ t.WF ∧ t.DepthLax := by
  unfold validateSingle
  by_cases hl : bs.length > MAX_SIGNATURE_LENGTH
  · simp only [hl, if_true]
    constructor
    · intro h; cases h
    · rintro ⟨h, _⟩; omega
  · simp only [hl, if_false]
    have hl' : bs.length ≤ MAX_SIGNATURE_LENGTH := by omega
    constructor
    · intro h
      refine ⟨hl', ?_⟩
      split at h
      · rename_i t hp
        obtain ⟨hb, hwf⟩ := parseSeq_sound _ _ _ hp
        exact ⟨t, by simpa [printList] using hb, hwf.1, (depthLax_iff t).1 h⟩
      · cases h
    · rintro ⟨_, t, rfl, hwf, hd⟩
      unfold parseSignature
      have := parseSeq_complete [t] (printList [t]).length ⟨hwf, trivial⟩ (Nat.le_refl _)
      simp only [printList, List.append_nil] at this
      rw [this]
      exact (depthLax_iff t).2 hd

/-! ### executable oracles of the strict specification -/

theorem specUniqueName_iff (s : Bytes) : specUniqueName s = true ↔ SpecUniqueName s := by
  unfold specUniqueName SpecUniqueName
  by_cases hl : s.length > MAX_NAME_LENGTH
  · simp only [hl, if_true]
    constructor
    · intro h; cases h
    · rintro ⟨h, _⟩; omega
  · simp only [hl, if_false]
    have hl' : s.length ≤ MAX_NAME_LENGTH := by omega
    constructor
    · intro h
      refine ⟨hl', ?_⟩
      match s, h with
      | c :: c1 :: rest, h =>
        simp only [Bool.and_eq_true, decide_eq_true_eq, beq_iff_eq] at h
        obtain ⟨⟨⟨hc, hc1⟩, hb⟩, hs⟩ := h
        obtain ⟨t, els, hdec, hd'⟩ := scan_sound rest false true hs
        refine ⟨c1 :: rest, by rw [hc], ?_⟩
        have : els ≠ [] := by intro h0; subst h0; simp at hd'
        have hlen : 1 ≤ els.length := by
          cases els with
          | nil => exact absurd rfl this
          | cons _ _ => simp
        exact dotted_of_decomp c1 rest t els hb hdec (by omega)
    · rintro ⟨_, t, rfl, hd⟩
      obtain ⟨c, rest, t0, els, rfl, hc, hdec, hn⟩ := decomp_of_dotted t hd
      have hne : c ≠ DOT := by intro h; rw [h, busNameChar_dot] at hc; cases hc
      have hels : els ≠ [] := by intro h0; subst h0; simp at hn
      simp only [Bool.and_eq_true, decide_eq_true_eq, beq_iff_eq]
      refine ⟨⟨⟨trivial, hne⟩, hc⟩, ?_⟩
      rw [scan_complete busNameChar_dot rest t0 els false hdec]
      cases els with
      | nil => exact absurd rfl hels
      | cons _ _ => simp

theorem specBusName_iff (s : Bytes) : specBusName s = true ↔ SpecBusName s := by
  unfold specBusName SpecBusName
  cases s with
  | nil =>
    simp only [Bool.false_eq_true, false_iff]
    rintro (⟨_, hd⟩ | ⟨_, t, ht, _⟩)
    · obtain ⟨c, rest, _, _, hs, _⟩ := decomp_of_dotted _ hd; cases hs
    · cases ht
  | cons c rest =>
    simp only
    split
    · rename_i hc
      rw [specUniqueName_iff]
      constructor
      · exact Or.inr
      · rintro (⟨_, hd⟩ | h)
        · obtain ⟨c', rest', _, _, hs, hc', _⟩ := decomp_of_dotted _ hd
          cases hs; rw [hc, initialBusNameChar_colon] at hc'; cases hc'
        · exact h
    · rename_i hc
      rw [validateBusName_iff]
      constructor
      · rintro (h | ⟨_, t, ht, _⟩)
        · exact h
        · cases ht; exact absurd rfl hc
      · exact Or.inl

theorem depthOK_iff (t : Ty) : depthOK t = true ↔ t.DepthOK := by
  unfold depthOK Ty.DepthOK
  simp [and_assoc]

theorem specSignature_iff (bs : Bytes) : specSignature bs = true ↔ SpecSignature bs := by
  unfold specSignature SpecSignature
  by_cases hl : bs.length > MAX_SIGNATURE_LENGTH
  · simp only [hl, if_true]
    constructor
    · intro h; cases h
    · rintro ⟨h, _⟩; omega
  · simp only [hl, if_false]
    have hl' : bs.length ≤ MAX_SIGNATURE_LENGTH := by omega
    constructor
    · intro h
      refine ⟨hl', ?_⟩
      split at h
      · cases h
      · rename_i ts hp
        obtain ⟨hb, hwf⟩ := parseSeq_sound _ _ _ hp
        exact ⟨ts, hb, hwf, fun t ht => (depthOK_iff t).1 (List.all_eq_true.1 h t ht)⟩
    · rintro ⟨_, ts, rfl, hwf, hd⟩
      unfold parseSignature
      rw [parseSeq_complete ts _ hwf (Nat.le_refl _)]
      simp only [List.all_eq_true]
      exact fun t ht => (depthOK_iff t).2 (hd t ht)

theorem specSingle_iff (bs : Bytes) : specSingle bs = true ↔ SpecSingle bs := by
  unfold specSingle SpecSingle
  by_cases hl : bs.length > MAX_SIGNATURE_LENGTH
  · simp only [hl, if_true]
    constructor
    · intro h; cases h
    · rintro ⟨h, _⟩; omega
  · simp only [hl, if_false]
    have hl' : bs.length ≤ MAX_SIGNATURE_LENGTH := by omega
    constructor
    · intro h
      refine ⟨hl', ?_⟩
      split at h
      · rename_i t hp
        obtain ⟨hb, hwf⟩ := parseSeq_sound _ _ _ hp
        exact ⟨t, by simpa [printList] using hb, hwf.1, (depthOK_iff t).1 h⟩
      · cases h
    · rintro ⟨_, t, rfl, hwf, hd⟩
      unfold parseSignature
      have := parseSeq_complete [t] (printList [t]).length ⟨hwf, trivial⟩ (Nat.le_refl _)
      simp only [printList, List.append_nil] at this
      rw [this]
      exact (depthOK_iff t).2 hd

/-- non-vacuity: concrete accepted strings of each grammar (`a.b`, `/a/b`, `:1.42`) -/
example : SpecInterface [0x61, 0x2e, 0x62] := by
  rw [← validateInterface_iff]; decide
example : SpecPath [0x2f, 0x61, 0x2f, 0x62] := by
  rw [← validatePath_iff]; decide
example : SpecBusName [0x3a, 0x31, 0x2e, 0x34, 0x32] := by
  refine Or.inr ⟨by decide, _, rfl, [[0x31], [0x34, 0x32]], by decide, by decide, ?_, by decide⟩
  intro e he
  simp at he
  rcases he with rfl | rfl
  · exact ⟨0x31, [], by decide, by decide, by simp⟩
  · exact ⟨0x34, [0x32], by decide, by decide, by decide⟩

/-- `a{s(iv)}` is a signature; the mis-nested `a{s(ss})` (F1) is not -/
example : SpecSignature [0x61, 0x7b, 0x73, 0x28, 0x69, 0x76, 0x29, 0x7d] := by
  rw [← validateSignature_iff_spec_of_shallow]
  · decide
  · rintro ⟨_, ts, hb, hwf, _, t, ht, hd⟩
    have hv : validateSignature [0x61, 0x7b, 0x73, 0x28, 0x69, 0x76, 0x29, 0x7d] = true := by decide
    have hp := parseSeq_complete ts _ hwf (Nat.le_refl _)
    rw [← hb] at hp
    have : ts = [.dict .str (.struct [.basic .i32, .variant])] := by
      have h2 : parseSeq 8 [0x61, 0x7b, 0x73, 0x28, 0x69, 0x76, 0x29, 0x7d] =
          some [.dict .str (.struct [.basic .i32, .variant])] := by rfl
      simp only [List.length_cons, List.length_nil] at hp
      rw [hp] at h2
      exact Option.some.inj h2
    subst this
    simp at ht; subst ht
    revert hd; decide
example : validateSignature [0x61, 0x7b, 0x73, 0x28, 0x73, 0x73, 0x7d, 0x29] = false := by decide

/-- `é€😀` : 2-, 3- and 4-byte forms -/
example : SpecUtf8 [0xc3, 0xa9, 0xe2, 0x82, 0xac, 0xf0, 0x9f, 0x98, 0x80] :=
  ⟨[0xe9, 0x20ac, 0x1f600], by decide, by decide⟩
/-- CESU surrogate `ED A0 80`, over-long `C0 80`, U+110000 are rejected -/
example : ¬ SpecUtf8 [0xed, 0xa0, 0x80] := by rw [← validateUtf8_iff, validateUtf8_cons]; decide
example : ¬ SpecUtf8 [0xc0, 0x80] := by rw [← validateUtf8_iff, validateUtf8_cons]; decide
example : ¬ SpecUtf8 [0xf4, 0x90, 0x80, 0x80] := by rw [← validateUtf8_iff, validateUtf8_cons]; decide

end Dbus.Props.C16
