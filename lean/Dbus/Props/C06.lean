import Dbus.Proofs.Bus.Limits
import Dbus.Props.C05
import Dbus.Proofs.PolicyOpt
/-
  C06 — security policy decisions equal the documented rule semantics.

  `Documented` below is written from doc/dbus-daemon.1.xml.in ("purely textual/by-value matches
  against the given field", last matching rule decides, nothing allowed by default, the eavesdrop
  and requested_reply modifiers, send_broadcast, destination = any queued owner, prefix by
  dot-separated words, the fd-count range, and the documented warning about interfaces).
-/
namespace Dbus.Props.C06
open Dbus Dbus.Spec Dbus.Model Dbus.Model.Bus Dbus.Proofs.Bus

namespace Documented

/-- by-value match of an attribute against a header field: no such field, no match -/
def byValue (ruleV msgV : Option Bytes) : Bool :=
  match ruleV with
  | none => true
  | some r => msgV == some r

/-- the interface attribute: by value, except that — as the manual warns — a deny rule naming an
    interface also hits messages that carry no interface at all -/
def ifaceMatches (allow : Bool) (ruleI msgI : Option Bytes) : Bool :=
  match ruleI with
  | none => true
  | some r => msgI == some r || (!allow && msgI.isNone)

def typeMatches (r : MsgRule) (v : MsgView) : Bool := r.mtype == 0 || v.mtype == r.mtype

/-- requested_reply: only looked at for replies; allow+true = only requested replies, deny+false =
    only unrequested ones -/
def replyMatches (allow : Bool) (r : MsgRule) (v : MsgView) (requested : Bool) : Bool :=
  !v.isReply ||
  (if allow then (!r.requestedReply || requested || r.eavesdrop) else (r.requestedReply || !requested))

def isBroadcast (v : MsgView) : Bool := v.dest.isNone && v.mtype == 4

def broadcastMatches (r : MsgRule) (v : MsgView) : Bool :=
  match r.broadcast with
  | .any => true
  | .yes => isBroadcast v
  | .no => !isBroadcast v

/-- destination: the recipient is a queued owner of the named name (or of a name under the prefix);
    towards the bus driver itself the destination string is compared -/
def destMatches (r : MsgRule) (v : MsgView) (recv : PeerInfo) : Bool :=
  match r.peer with
  | none => true
  | some d =>
    if r.peerPrefix then
      (if recv.present then recv.queuedFor.any (fun n => startsWithWords n d)
       else match v.dest with | some md => startsWithWords md d | none => false)
    else
      (if recv.present then recv.queuedFor.contains d else v.dest == some d)

def fdsMatch (r : MsgRule) (mx : Nat) (n : Nat) : Bool :=
  !(decide (r.minFds > 0) || decide (r.maxFds < mx)) || (decide (r.minFds ≤ n) && decide (n ≤ r.maxFds))

def sendMatches (mx : Nat) (allow : Bool) (r : MsgRule) (v : MsgView) (requested : Bool) (recv : PeerInfo) : Bool :=
  typeMatches r v && replyMatches allow r v requested && byValue r.path v.path && ifaceMatches allow r.iface v.iface &&
  byValue r.member v.member && byValue r.error v.error && broadcastMatches r v && destMatches r v recv &&
  fdsMatch r mx v.nFds

def senderMatches (r : MsgRule) (v : MsgView) (sender : PeerInfo) : Bool :=
  match r.peer with
  | none => true
  | some o => if sender.present then sender.queuedFor.contains o else v.sender == some o

/-- eavesdrop: allow rules cover eavesdropping only when they say so; deny rules that say so apply
    only to eavesdropping -/
def eavesMatches (allow : Bool) (r : MsgRule) (eavesdropping : Bool) : Bool :=
  if allow then (!eavesdropping || r.eavesdrop) else (eavesdropping || !r.eavesdrop)

def receiveMatches (mx : Nat) (allow : Bool) (r : MsgRule) (v : MsgView) (requested eavesdropping : Bool)
    (sender : PeerInfo) : Bool :=
  typeMatches r v && eavesMatches allow r eavesdropping && replyMatches allow r v requested && byValue r.path v.path &&
  ifaceMatches allow r.iface v.iface && byValue r.member v.member && byValue r.error v.error &&
  senderMatches r v sender && fdsMatch r mx v.nFds

/-- the last matching rule decides; with no matching rule the action is denied -/
def decide' (rules : List PRule) (matches' : PRule → Bool) : Bool :=
  match (rules.reverse.find? matches') with
  | some r => r.allow
  | none => false

def maySend (mx : Nat) (rules : List PRule) (v : MsgView) (requested : Bool) (recv : PeerInfo) : Bool :=
  decide' rules fun r => match r.kind with | .send mr => sendMatches mx r.allow mr v requested recv | _ => false

def mayReceive (mx : Nat) (rules : List PRule) (v : MsgView) (requested eavesdropping : Bool) (sender : PeerInfo) : Bool :=
  decide' rules fun r => match r.kind with | .receive mr => receiveMatches mx r.allow mr v requested eavesdropping sender | _ => false

def ownMatches (name : Option Bytes) (pfx : Bool) (requested : Bytes) : Bool :=
  match name with
  | none => true
  | some n => if pfx then startsWithWords requested n else requested == n

def mayOwn (rules : List PRule) (requested : Bytes) : Bool :=
  decide' rules fun r => match r.kind with | .own n p => ownMatches n p requested | _ => false

end Documented

/-! ### last-applicable-rule evaluation -/

theorem lastVerdict_eq_decide (rules : List PRule) (f : PRule → Bool) : lastVerdict rules f = Documented.decide' rules f := by
  unfold lastVerdict Documented.decide'
  have key : ∀ (l : List PRule) (acc : Bool),
      l.foldl (fun acc r => if f r then r.allow else acc) acc =
        (match l.reverse.find? f with | some r => r.allow | none => acc) := by
    intro l
    induction l with
    | nil => intro acc; rfl
    | cons x xs ih =>
      intro acc
      simp only [List.foldl_cons, List.reverse_cons, List.find?_append, List.find?_cons, List.find?_nil]
      rw [ih]
      cases hx : xs.reverse.find? f with
      | some r => simp
      | none => cases hfx : f x <;> simp
  exact key rules false

theorem lastVerdict_append (l1 l2 : List PRule) (f : PRule → Bool) :
    lastVerdict (l1 ++ l2) f = if l2.any f then lastVerdict l2 f else lastVerdict l1 f := by
  rw [lastVerdict_eq_decide, lastVerdict_eq_decide, lastVerdict_eq_decide]
  unfold Documented.decide'
  simp only [List.reverse_append, List.find?_append]
  cases h : l2.reverse.find? f with
  | some r =>
    have : l2.any f = true := by
      have := List.find?_some h
      exact List.any_eq_true.mpr ⟨r, List.mem_reverse.mp (List.mem_of_find?_eq_some h), this⟩
    simp [this]
  | none =>
    have : l2.any f = false := by
      have := List.find?_eq_none.mp h
      cases ha : l2.any f with
      | false => rfl
      | true =>
        obtain ⟨r, hr, hf⟩ := List.any_eq_true.mp ha
        exact absurd hf (this r (List.mem_reverse.mpr hr))
    simp [this]


/-! ### rule matching: the code against the documentation -/

/-- the message carries every header field that the rule's path / member / error attributes name -/
def FieldsPresent (r : MsgRule) (v : MsgView) : Prop :=
  (r.path.isSome → v.path.isSome) ∧ (r.member.isSome → v.member.isSome) ∧ (r.error.isSome → v.error.isSome)

theorem bne_beq_bytes (a b : Bytes) : (!(a != b)) = (b == a) := by
  by_cases h : a = b
  · subst h; simp
  · have h' : ¬ b = a := fun e => h e.symm
    have h1 : (a == b) = false := by simpa using h
    have h2 : (b == a) = false := by simpa using h'
    simp [bne, h1, h2]

theorem optMismatch_byValue (rv mv : Option Bytes) (h : rv.isSome → mv.isSome) :
    (!optMismatch rv mv) = Documented.byValue rv mv := by
  cases rv with
  | none => rfl
  | some r =>
    cases mv with
    | none => exact absurd (h rfl) (by simp)
    | some m =>
      simp only [optMismatch, Documented.byValue]
      rw [bne_beq_bytes]
      by_cases e : m = r
      · subst e; simp
      · simp [e]

theorem ifaceSkips_doc (allow : Bool) (ri mi : Option Bytes) : (!ifaceSkips allow ri mi) = Documented.ifaceMatches allow ri mi := by
  cases ri with
  | none => rfl
  | some r =>
    cases mi with
    | none => simp [ifaceSkips, Documented.ifaceMatches]
    | some m =>
      simp only [ifaceSkips, Documented.ifaceMatches, Option.isNone_some, Bool.and_false, Bool.or_false]
      rw [bne_beq_bytes]
      by_cases e : m = r
      · subst e; simp
      · simp [e]

theorem replySkips_doc (allow : Bool) (r : MsgRule) (v : MsgView) (req : Bool) :
    (!replySkips allow r v.isReply req) = Documented.replyMatches allow r v req := by
  unfold replySkips Documented.replyMatches
  cases v.isReply <;> cases allow <;> cases req <;> cases r.requestedReply <;> cases r.eavesdrop <;> rfl

theorem type_doc (r : MsgRule) (v : MsgView) :
    (!(decide (r.mtype ≠ 0) && v.mtype != r.mtype)) = Documented.typeMatches r v := by
  unfold Documented.typeMatches
  by_cases h0 : r.mtype = 0
  · simp [h0]
  · by_cases h1 : v.mtype = r.mtype
    · simp [h0, h1]
    · have e0 : (r.mtype == 0) = false := by simpa using h0
      have e1 : (v.mtype == r.mtype) = false := by simpa using h1
      simp [bne, h0, e0, e1]

theorem broadcast_doc (r : MsgRule) (v : MsgView) : (!broadcastSkips r v) = Documented.broadcastMatches r v := by
  unfold broadcastSkips Documented.broadcastMatches Documented.isBroadcast
  cases r.broadcast <;> simp

theorem dest_doc (r : MsgRule) (v : MsgView) (recv : PeerInfo) : (!peerSkipsSend r v recv) = Documented.destMatches r v recv := by
  unfold peerSkipsSend Documented.destMatches
  cases r.peer with
  | none => rfl
  | some d =>
    dsimp only
    cases r.peerPrefix <;> cases recv.present <;> simp [bne]
    · cases v.dest <;> simp

theorem fds_doc (r : MsgRule) (mx n : Nat) : (!fdsSkips r mx n) = Documented.fdsMatch r mx n := by
  unfold fdsSkips Documented.fdsMatch
  by_cases h1 : r.minFds > 0 <;> by_cases h2 : r.maxFds < mx <;> by_cases h3 : n < r.minFds <;> by_cases h4 : n > r.maxFds <;>
    simp [h1, h2, h3, h4] <;> omega

/-- **Send rules.** For every rule, message, reply state and recipient: the rule applies in the
    code exactly when the documentation says it matches — provided the message carries the header
    fields the rule's path / member / error attributes name (see F16 for the other case). -/
theorem send_rule_matches_as_documented (mx : Nat) (allow : Bool) (r : MsgRule) (v : MsgView) (req : Bool) (recv : PeerInfo)
    (hf : FieldsPresent r v) :
    sendApplies mx allow r v req recv = Documented.sendMatches mx allow r v req recv := by
  unfold sendApplies Documented.sendMatches
  rw [type_doc, replySkips_doc, optMismatch_byValue _ _ hf.1, ifaceSkips_doc, optMismatch_byValue _ _ hf.2.1,
    optMismatch_byValue _ _ hf.2.2, broadcast_doc, dest_doc, fds_doc]

theorem sender_doc (r : MsgRule) (v : MsgView) (sender : PeerInfo) :
    (!peerSkipsReceive r v sender) = Documented.senderMatches r v sender := by
  unfold peerSkipsReceive Documented.senderMatches
  cases r.peer with
  | none => rfl
  | some o => dsimp only; cases sender.present <;> simp [bne]

theorem eaves_doc (allow : Bool) (r : MsgRule) (e : Bool) : (!eavesSkips allow r e) = Documented.eavesMatches allow r e := by
  unfold eavesSkips Documented.eavesMatches
  cases allow <;> cases e <;> cases r.eavesdrop <;> rfl

/-- **Receive rules**, likewise. -/
theorem receive_rule_matches_as_documented (mx : Nat) (allow : Bool) (r : MsgRule) (v : MsgView) (req eav : Bool)
    (sender : PeerInfo) (hf : FieldsPresent r v) :
    receiveApplies mx allow r v req eav sender = Documented.receiveMatches mx allow r v req eav sender := by
  unfold receiveApplies Documented.receiveMatches
  rw [type_doc, eaves_doc, replySkips_doc, optMismatch_byValue _ _ hf.1, ifaceSkips_doc, optMismatch_byValue _ _ hf.2.1,
    optMismatch_byValue _ _ hf.2.2, sender_doc, fds_doc]

/-- **Own rules**: equal without condition. -/
theorem own_rule_matches_as_documented (name : Option Bytes) (pfx : Bool) (req : Bytes) :
    ownApplies name pfx req = Documented.ownMatches name pfx req := by
  unfold ownApplies Documented.ownMatches
  cases name <;> cases pfx <;> simp

/-- every send/receive rule of the list finds its fields in the message -/
def AllFieldsPresent (rules : List PRule) (v : MsgView) : Prop :=
  ∀ r ∈ rules, match r.kind with
    | .send mr => FieldsPresent mr v
    | .receive mr => FieldsPresent mr v
    | _ => True

theorem decide_congr (rules : List PRule) (f g : PRule → Bool) (h : ∀ r ∈ rules, f r = g r) :
    Documented.decide' rules f = Documented.decide' rules g := by
  unfold Documented.decide'
  have key : ∀ (l : List PRule), (∀ r ∈ l, f r = g r) → l.find? f = l.find? g := by
    intro l
    induction l with
    | nil => intro _; rfl
    | cons x xs ih =>
      intro hl
      simp only [List.find?_cons, hl x (by simp)]
      rw [ih (fun r hr => hl r (by simp [hr]))]
  rw [key rules.reverse (fun r hr => h r (List.mem_reverse.mp hr))]

/-- **Decisions.** Whether a message may be sent / received and whether a name may be owned is what
    the documented evaluation says: rules in order, the last matching one decides, nothing is
    allowed by default. -/
theorem send_decision_as_documented (mx : Nat) (rules : List PRule) (v : MsgView) (req : Bool) (recv : PeerInfo)
    (hf : AllFieldsPresent rules v) : canSend mx rules v req recv = Documented.maySend mx rules v req recv := by
  unfold canSend Documented.maySend
  rw [lastVerdict_eq_decide]
  apply decide_congr
  intro r hr
  have := hf r hr
  cases hk : r.kind with
  | send mr => rw [hk] at this; exact send_rule_matches_as_documented mx r.allow mr v req recv this
  | receive mr => rfl
  | own n p => rfl
  | other => rfl

theorem receive_decision_as_documented (mx : Nat) (rules : List PRule) (v : MsgView) (req eav : Bool) (sender : PeerInfo)
    (hf : AllFieldsPresent rules v) : canReceive mx rules v req eav sender = Documented.mayReceive mx rules v req eav sender := by
  unfold canReceive Documented.mayReceive
  rw [lastVerdict_eq_decide]
  apply decide_congr
  intro r hr
  have := hf r hr
  cases hk : r.kind with
  | send mr => rfl
  | receive mr => rw [hk] at this; exact receive_rule_matches_as_documented mx r.allow mr v req eav sender this
  | own n p => rfl
  | other => rfl

theorem own_decision_as_documented (rules : List PRule) (req : Bytes) : canOwn rules req = Documented.mayOwn rules req := by
  unfold canOwn Documented.mayOwn
  rw [lastVerdict_eq_decide]
  apply decide_congr
  intro r _
  cases r.kind with
  | own n p => exact own_rule_matches_as_documented n p req
  | send _ => rfl
  | receive _ => rfl
  | other => rfl

/-- F16, the recorded departure: a rule's path (likewise member, error) attribute also matches a
    message that has no such header field — e.g. `<deny send_path="/secret"/>` denies every method
    return, since replies carry no path. -/
theorem f16_witness :
    let r : MsgRule := { path := some [0x2f, 0x73] }
    let v : MsgView := { mtype := 2, path := none, iface := none, member := none, error := none, dest := some [0x3a, 0x31],
                         sender := none, isReply := true, nFds := 0 }
    sendApplies 16 false r v false { present := false, queuedFor := [] } = true ∧
    Documented.sendMatches 16 false r v false { present := false, queuedFor := [] } = false := by
  decide


/-! ### contexts, in order -/

/-- the rules a connection is judged by: default, then its groups', then its user's, then the
    console ones, then mandatory -/
theorem contexts_in_order (p : Policy) (uid : Nat) (gids : List Nat) (c : Bool) :
    p.clientRules uid gids c = p.default ++ gids.flatMap (lookupAll p.byGid) ++ lookupAll p.byUid uid ++
      (if c then p.consoleTrue else p.consoleFalse) ++ p.mandatory := rfl

/-- a later context overrides an earlier one whenever one of its rules matches: in particular a
    mandatory rule that matches decides, whatever the per-user, per-group and default rules say -/
theorem later_context_wins (earlier later : List PRule) (f : PRule → Bool) (h : later.any f = true) :
    lastVerdict (earlier ++ later) f = lastVerdict later f := by
  rw [lastVerdict_append, h]; rfl

/-- and is transparent when none of its rules matches -/
theorem unmatched_context_transparent (earlier later : List PRule) (f : PRule → Bool) (h : later.any f = false) :
    lastVerdict (earlier ++ later) f = lastVerdict earlier f := by
  rw [lastVerdict_append, h]; rfl

/-- nothing is allowed by default -/
theorem nothing_allowed_by_default (f : PRule → Bool) : lastVerdict [] f = false := rfl

/-! ### the gate -/

/-- the gate refuses with AccessDenied and nothing else — except that a recipient that is not reading
    (its outgoing queue is over the limit) is refused with LimitsExceeded, after the policy has allowed -/
theorem gate_denies_with_access_denied (b : Bus) (s a p : Option ConnId) (m : Msg) (req : Bool) (e : Err)
    (h : policyVerdict b s a p m req = some e) : e = .accessDenied ∨ (e = .limitsExceeded ∧ queueFull b p = true) := by
  unfold policyVerdict at h
  repeat' split at h
  all_goals first
    | (cases h; done)
    | (cases h; exact Or.inl rfl)
    | (rename_i hq; cases h; exact Or.inr ⟨rfl, hq⟩)

/-- **Send rules for the sender, receive rules for each recipient.** Between two registered
    connections the gate lets a message through exactly when the sender's rules allow sending it
    and the proposed recipient's rules allow receiving it. -/
theorem gate_checks_sender_and_recipient (b : Bus) (s r : ConnId) (a : Option ConnId) (m : Msg) (req : Bool)
    (srules rrules : List PRule) (hs : rulesOf b (some s) = some srules) (hr : rulesOf b (some r) = some rrules)
    (hact : b.isActive s = true) (hq : queueFull b (some r) = false) :
    policyVerdict b (some s) a (some r) m req = none ↔
      (canSend b.limits.maxFdsDefault srules (msgView m) req (b.peerInfo (some r)) = true ∧
       canReceive b.limits.maxFdsDefault rrules (msgView m) req (decide (a ≠ some r) && (msgView m).dest.isSome)
         (b.peerInfo (some s)) = true) := by
  unfold policyVerdict sendAllowed recvAllowed
  simp only [senderInactive, hact, Bool.not_true, Bool.false_eq_true, if_false, hs, hr, hq]
  cases h1 : canSend b.limits.maxFdsDefault srules (msgView m) req (b.peerInfo (some r)) <;>
    cases h2 : canReceive b.limits.maxFdsDefault rrules (msgView m) req (decide (a ≠ some r) && (msgView m).dest.isSome)
      (b.peerInfo (some s)) <;> simp

/-- **A denied RequestName changes no ownership.** -/
theorem denied_request_changes_nothing (t : Tx) (c : ConnId) (n : Bytes) (flags : Nat)
    (hv : validateBusName n = true) (h3 : n.head? ≠ some 0x3a) (hb : n ≠ BUS_NAME)
    (h : canOwn (connPolicy t.bus c) n = false) : acquire t c n flags = (t, .error .accessDenied) := by
  unfold acquire
  simp [hv, h3, hb, h]

/-- **A denied message is delivered to no one** (restated from C05): when the gate refuses the
    addressed delivery nothing is delivered at all, eavesdroppers included, and the route ends in the
    gate's error. -/
theorem denied_message_reaches_no_one (t : Tx) (c a : ConnId) (m : Msg) (d : Bytes) (p : List Pending) (e : Err)
    (hd : m.dest = some d) (ha : t.bus.primary? d = some a)
    (hpol : checkPolicy t.bus (some c) (some a) (some a) m = (p, some e)) :
    (route t c m).2 = some e ∧ (route t c m).1.out = t.out ∧ (route t c m).1.bus = (t.setPending p).bus :=
  Dbus.Props.C05.refused_no_delivery t c a m d p e hd ha hpol

/-! ### the configuration is reloaded -/

theorem find?_map_id (l : List Conn) (g : Conn → Conn) (hid : ∀ x, (g x).id = x.id) (c : ConnId) :
    (l.map g).find? (·.id == c) = (l.find? (·.id == c)).map g := by
  induction l with
  | nil => rfl
  | cons x xs ih =>
    simp only [List.map_cons, List.find?_cons, hid x]
    cases (x.id == c) <;> simp [ih]

/-- **After a reload every registered connection is judged by the new policy**: its rule list is the one
    the new configuration gives its uid and groups — whatever it was allowed before. -/
theorem reloaded_policy_governs (b : Bus) (p : Policy) (c : ConnId) (x : Conn) (hx : b.conn? c = some x) (hn : x.name.isSome = true) :
    connPolicy (reloadPolicy b p) c = p.clientPolicy b.limits.maxFdsDefault x.uid x.gids false := by
  unfold connPolicy Bus.conn? reloadPolicy
  dsimp only
  rw [find?_map_id _ _ (fun y => by split <;> rfl)]
  unfold Bus.conn? at hx
  rw [hx]
  simp [hn]

/-- **A RequestName the new policy denies changes nothing — also for a connection that already owns the
    name or waits for it.** The own check comes before anything else is looked at: after a reload
    under which `c` may no longer own `n`, its request is refused with AccessDenied and queue, flags and
    primary owner stay as they are. -/
theorem own_denied_after_reload (t : Tx) (p : Policy) (c : ConnId) (x : Conn) (n : Bytes) (flags : Nat)
    (hx : t.bus.conn? c = some x) (hn : x.name.isSome = true)
    (hden : canOwn (p.clientRules x.uid x.gids false) n = false)
    (h1 : validateBusName n = true) (h2 : (n.head? == some 0x3a) = false) (h3 : (n == BUS_NAME) = false) :
    acquire { t with bus := reloadPolicy t.bus p } c n flags = ({ t with bus := reloadPolicy t.bus p }, .error .accessDenied) := by
  unfold acquire
  have hp := reloaded_policy_governs t.bus p c x hx hn
  have hden' : canOwn (p.clientPolicy t.bus.limits.maxFdsDefault x.uid x.gids false) n = false := by
    unfold Policy.clientPolicy; rw [Dbus.Proofs.PolicyOpt.canOwn_optimize]; exact hden
  simp only [h1, h2, h3, hp, hden', Bool.not_true, Bool.false_eq_true, if_false, Bool.not_false, if_true]

/-! ### the optimizer

  `bus_policy_create_client_policy` ends with `bus_client_policy_optimize`: a rule that decides every
  message (or name) of its type makes the daemon drop the rules of that type before it. The model's
  connections hold the optimized list too. The decisions are those of the documented evaluation over
  the full list — for every rule list, message, request state and peer. (F17 was the optimizer taking
  rules for catch-alls that still skipped some messages; the theorems are about the repaired test.) -/

theorem optimize_changes_no_send_decision (mx : Nat) (rs : List PRule) (v : MsgView) (req : Bool) (recv : PeerInfo) :
    canSend mx (optimize mx rs) v req recv = canSend mx rs v req recv :=
  Dbus.Proofs.PolicyOpt.canSend_optimize mx rs v req recv

theorem optimize_changes_no_receive_decision (mx : Nat) (rs : List PRule) (v : MsgView) (req eav : Bool) (snd : PeerInfo) :
    canReceive mx (optimize mx rs) v req eav snd = canReceive mx rs v req eav snd :=
  Dbus.Proofs.PolicyOpt.canReceive_optimize mx rs v req eav snd

theorem optimize_changes_no_own_decision (mx : Nat) (rs : List PRule) (name : Bytes) :
    canOwn (optimize mx rs) name = canOwn rs name :=
  Dbus.Proofs.PolicyOpt.canOwn_optimize mx rs name

/-- the connection's own list (optimized) and the configuration's full list (contexts in order) decide alike -/
theorem client_policy_decides_as_full_list (p : Policy) (mx uid : Nat) (gids : List Nat) (con : Bool) (v : MsgView) (req eav : Bool)
    (peer : PeerInfo) (name : Bytes) :
    canSend mx (p.clientPolicy mx uid gids con) v req peer = canSend mx (p.clientRules uid gids con) v req peer ∧
    canReceive mx (p.clientPolicy mx uid gids con) v req eav peer = canReceive mx (p.clientRules uid gids con) v req eav peer ∧
    canOwn (p.clientPolicy mx uid gids con) name = canOwn (p.clientRules uid gids con) name :=
  ⟨optimize_changes_no_send_decision _ _ _ _ _, optimize_changes_no_receive_decision _ _ _ _ _ _, optimize_changes_no_own_decision _ _ _⟩

/-- the optimizer does drop rules (non-vacuity): an allow for one interface before a deny of everything, requested replies included, goes;
    F17's witness - a deny that only covers broadcasts - keeps the rule before it -/
example : (optimize 16 [{ allow := true, kind := .send { iface := some [0x61] } }, { allow := false, kind := .send { requestedReply := true } },
                        { allow := true, kind := .own none false }]).length = 2 ∧
    (optimize 16 [{ allow := true, kind := .send { peer := some [0x61] } }, { allow := false, kind := .send { broadcast := .yes } }]).length = 2 := by
  decide

end Dbus.Props.C06
