import Dbus.Proofs.Bus.Limits
import Dbus.Proofs.Bus.Names
import Dbus.Props.C03
import Dbus.Proofs.Bus.GenericA
import Dbus.Props.C07
/-
  C13 — configured resource limits are never exceeded.
-/
namespace Dbus.Props.C13
open Dbus Dbus.Spec Dbus.Model Dbus.Model.Bus Dbus.Proofs.Bus

/-- **At every moment of every history.**  In every state reachable by any sequence of connects,
    messages (valid or not) and disconnects, under any configured limits: every connection has at
    most `max_match_rules_per_connection` rules and sits in at most `max_names_per_connection`
    owner queues (its unique name counts; with a limit of 0 the unique name is still given), no
    connection has more than `max_replies_per_connection` calls awaiting a reply, at most
    `max_completed_connections` connections are registered, and at most `max_connections_per_user`
    of them belong to any one user. -/
theorem limits_never_exceeded (tbl : List IfaceRow) (l : Limits) (p : Policy) (evs : List Ev) :
    let b := (run tbl { limits := l, policy := p } evs).1
    (∀ x ∈ b.conns, x.rules.length ≤ b.limits.maxRules ∧ x.owned.length ≤ max 1 b.limits.maxNames) ∧
    (∀ c, callsOf b.pending c ≤ b.limits.maxReplies) ∧
    nCompleted b ≤ b.limits.maxCompleted ∧
    (∀ uid, nCompletedFor b uid ≤ b.limits.maxPerUser) := by
  intro b
  have hi : LimitsInv b := limitsInv_run tbl l p evs
  exact ⟨fun x hx => ⟨(hi.conns x hx).1, (hi.conns x hx).2.1⟩, hi.pending, hi.completed, hi.per_user⟩

/-- **… also with service activation and with time.**  The same bounds hold in every state the bus can
    reach when messages are held for services being started, programs end or fail, start timeouts
    and reply timeouts run out (`runT`: the activation layer and the clock layer on top of the core):
    the layers change the core's state only through the primitives the induction covers. -/
theorem limits_never_exceeded_with_activation_and_time (tbl : List IfaceRow) (l : Limits) (p : Policy) (t0 : TBus)
    (h0 : t0.a.core = { limits := l, policy := p }) (evs : List TEv) :
    let b := (runT tbl t0 evs).1.a.core
    (∀ x ∈ b.conns, x.rules.length ≤ b.limits.maxRules ∧ x.owned.length ≤ max 1 b.limits.maxNames) ∧
    (∀ c, callsOf b.pending c ≤ b.limits.maxReplies) ∧
    nCompleted b ≤ b.limits.maxCompleted ∧
    (∀ uid, nCompletedFor b uid ≤ b.limits.maxPerUser) := by
  intro b
  have hi : LimitsInv b := invariant_of_leaves_T limits_leaves tbl evs t0 (by
    rw [h0]
    exact { ids := List.nodup_nil
            conns := fun x hx => by cases hx
            pending := fun _ => Nat.zero_le _
            completed := Nat.zero_le _
            per_user := fun _ => Nat.zero_le _ })
  exact ⟨fun x hx => ⟨(hi.conns x hx).1, (hi.conns x hx).2.1⟩, hi.pending, hi.completed, hi.per_user⟩

/-- the limits themselves are never changed by a step -/
theorem limits_constant (tbl : List IfaceRow) (b : Bus) (ev : Ev) : (step tbl b ev).1.limits = b.limits := by
  have L : Leaves (fun b b' : Bus => b'.limits = b.limits) :=
    { refl := fun _ => rfl
      trans := fun _ _ _ h1 h2 => h2.trans h1
      gate := fun _ _ _ _ _ => rfl
      forget := fun _ _ => rfl
      expire := fun _ => rfl
      expireSome := fun _ _ => rfl
      acquire := fun t c n f _ => (step_acquire t c n f).bus.2.2.2.1
      release := fun t c n => (step_release t c n).bus.2.2.2.1
      removeOwner := fun t n c => (step_removeOwner t n c).bus.2.2.2.1
      helloOk := fun t c m _ _ _ => by
        have h := (mintAux_fields (t.bus.services.length + 1) t.bus).2.1
        unfold helloOk ensureService
        rw [applyQueue_bus, reply_bus]
        have := (setOwners_frame (activate (mint t.bus).1 c (mint t.bus).2) (mint t.bus).2 (qEnsure c 0).1).2.2.1
        exact this.trans h
      addRule := fun _ _ _ _ _ => rfl
      removeRule := fun _ _ _ _ _ => rfl
      gcRules := fun b _ x _ => by unfold gcRules; split; · rfl
                                   split <;> rfl
      installMonitor := fun _ _ _ => rfl
      joinMonitors := fun b c x rules => by
        show (gcRules b _).limits = _
        unfold gcRules; split; · rfl
        split <;> rfl
      clearRules := fun _ _ => rfl
      removeConn := fun _ _ => rfl
      connect := fun _ _ _ _ _ _ => rfl
      setFull := fun _ _ => rfl
      setPolicy := fun _ _ => rfl }
  exact lv_step L tbl b ev

/-! ### the request that would exceed a limit is refused and changes nothing -/

theorem names_limit_refuses (t : Tx) (c : ConnId) (n : Bytes) (flags : Nat)
    (h : nOwned t.bus c ≥ t.bus.limits.maxNames) :
    ∃ e, acquire t c n flags = (t, .error e) := by
  unfold acquire
  repeat' split
  all_goals first
    | exact ⟨_, rfl⟩
    | (exfalso; omega)

theorem names_limit_error (t : Tx) (c : ConnId) (n : Bytes) (flags : Nat)
    (hv : validateBusName n = true) (h3 : n.head? ≠ some 0x3a) (hb : n ≠ BUS_NAME)
    (hp : canOwn (connPolicy t.bus c) n = true) (h : nOwned t.bus c ≥ t.bus.limits.maxNames) :
    acquire t c n flags = (t, .error .limitsExceeded) := by
  unfold acquire
  simp [hv, h3, hb, hp, h]

theorem rules_limit_refuses (t : Tx) (c : ConnId) (m : Msg) (h : nRules t.bus c ≥ t.bus.limits.maxRules) :
    runMethod t c m .addMatch = (t, some .limitsExceeded) := by
  simp [runMethod, h]

theorem connections_limit_refuses (t : Tx) (c : ConnId) (m : Msg) (hin : t.bus.isActive c = false)
    (h : nCompleted t.bus ≥ t.bus.limits.maxCompleted) : hello t c m = (t, some .limitsExceeded) := by
  unfold hello; simp [hin, h]

theorem per_user_limit_refuses (t : Tx) (c : ConnId) (m : Msg) (hin : t.bus.isActive c = false)
    (h : nCompletedFor t.bus (uidOf t.bus c) ≥ t.bus.limits.maxPerUser) :
    ∃ e, hello t c m = (t, some e) := by
  unfold hello
  simp only [hin, Bool.false_eq_true, if_false]
  split
  · exact ⟨_, rfl⟩
  · simp [h]

theorem replies_limit_refuses (mx : Nat) (pend : List Pending) (caller callee : ConnId) (call : Msg)
    (hnr : call.noReply = false)
    (hnew : pend.contains { caller := caller, callee := callee, serial := call.serial } = false)
    (h : callsOf pend caller ≥ mx) :
    expectReply mx pend caller callee call = (pend, some .limitsExceeded) := by
  have hn' : ¬ ({ caller := caller, callee := callee, serial := call.serial } : Pending) ∈ pend := by simpa using hnew
  unfold expectReply callsOf at *
  simp [hnr, hn', h]

/-! ### below the limit nothing is refused on account of the limit -/

theorem below_names_limit_proceeds (t : Tx) (c : ConnId) (n : Bytes) (flags : Nat)
    (hv : validateBusName n = true) (h3 : n.head? ≠ some 0x3a) (hb : n ≠ BUS_NAME)
    (hp : canOwn (connPolicy t.bus c) n = true) (h : nOwned t.bus c < t.bus.limits.maxNames) :
    (acquire t c n flags).2 = .ok (qAcquire (ownersOf t.bus n) c flags).2.1 := by
  unfold acquire
  have : ¬ (nOwned t.bus c ≥ t.bus.limits.maxNames) := by omega
  simp [hv, h3, hb, hp, this]

theorem below_replies_limit_records (mx : Nat) (pend : List Pending) (caller callee : ConnId) (call : Msg)
    (hnr : call.noReply = false)
    (hnew : pend.contains { caller := caller, callee := callee, serial := call.serial } = false)
    (h : callsOf pend caller < mx) :
    expectReply mx pend caller callee call = ({ caller := caller, callee := callee, serial := call.serial } :: pend, none) := by
  have hn' : ¬ ({ caller := caller, callee := callee, serial := call.serial } : Pending) ∈ pend := by simpa using hnew
  unfold expectReply callsOf at *
  have : ¬ ((pend.filter (·.caller == caller)).length ≥ mx) := by omega
  simp [hnr, hn', this]

/-! ### capacity freed by a release, a reply or a departure becomes usable again -/

/-- a successful RemoveMatch leaves exactly one rule fewer: at the rules limit, the next AddMatch has room -/
theorem removed_rule_frees_room (rs rs' : List MatchRule) (r : MatchRule) (h : removeRule rs r = some rs') :
    rs'.length + 1 = rs.length := by
  obtain ⟨pre, x, post, hs, _, _, hr⟩ := Dbus.Props.C07.remove_removes_one rs rs' r h
  subst hs hr
  simp; omega

/-- below the rules limit AddMatch is never refused on account of the limit (only an over-long text is) -/
theorem below_rules_limit_not_refused (t : Tx) (c : ConnId) (m : Msg) (h : nRules t.bus c < t.bus.limits.maxRules)
    (he : (runMethod t c m .addMatch).2 = some .limitsExceeded) :
    (match parseRule (arg0 m) with | .tooLong => true | _ => false) = true := by
  have hn : ¬ (nRules t.bus c ≥ t.bus.limits.maxRules) := by omega
  simp only [runMethod, hn, if_false] at he
  cases hp : parseRule (arg0 m) with
  | tooLong => rfl
  | invalid => rw [hp] at he; simp at he
  | ok r =>
    rw [hp] at he
    simp only at he
    split at he <;> simp at he

/-- a call that has been answered (its slot erased) no longer counts against its caller -/
theorem answered_call_frees_slot : ∀ (pend : List Pending) (p : Pending), p ∈ pend →
    callsOf (pend.erase p) p.caller + 1 = callsOf pend p.caller
  | [], p, h => by simp at h
  | q :: pend, p, h => by
    unfold callsOf
    by_cases hq : q = p
    · subst hq
      simp [List.filter_cons]
    · have hm : p ∈ pend := by
        rcases List.mem_cons.1 h with h | h
        · exact absurd h.symm hq
        · exact h
      have ih := answered_call_frees_slot pend p hm
      unfold callsOf at ih
      have hne : ¬ (q == p) = true := by simpa using hq
      rw [List.erase_cons_tail hne]
      by_cases hc : (q.caller == p.caller) = true
      · simp only [List.filter_cons, hc, if_true, List.length_cons]; omega
      · simp only [List.filter_cons, hc, Bool.false_eq_true, if_false]; exact ih

/-- a registered connection that leaves makes room for another: one registered connection fewer -/
theorem departure_frees_connection (b : Bus) (c : ConnId) (x : Conn) (hids : (b.conns.map (·.id)).Nodup)
    (hx : x ∈ b.conns) (hid : x.id = c) (hreg : x.name.isSome = true) :
    nCompleted (removeConn c b) + 1 = nCompleted b := by
  unfold nCompleted removeConn
  show ((b.conns.filter (·.id != c)).filter (·.name.isSome)).length + 1 = (b.conns.filter (·.name.isSome)).length
  generalize b.conns = cs at hids hx
  induction cs with
  | nil => simp at hx
  | cons y ys ih =>
    simp only [List.map_cons, List.nodup_cons] at hids
    rcases List.mem_cons.1 hx with rfl | hx'
    · -- x is the head: nobody else has its id
      have hrest : ys.filter (·.id != c) = ys := by
        apply List.filter_eq_self.2
        intro z hz
        have : z.id ≠ x.id := fun e => hids.1 (e ▸ List.mem_map_of_mem hz)
        simpa [hid] using this
      simp [List.filter_cons, hid, hreg, hrest]
    · have hyc : y.id ≠ c := by
        intro e
        exact hids.1 (by rw [e, ← hid]; exact List.mem_map_of_mem hx')
      have := ih hids.2 hx'
      by_cases hy : y.name.isSome = true
      · simp [List.filter_cons, hyc, hy] at this ⊢; omega
      · simp [List.filter_cons, hyc, hy] at this ⊢; exact this

/-! ### an over-long message costs only its sender the connection -/

/-- what the loader rejects (C01: `message_size_limit`) reaches the bus as "invalid input from c":
    connection c goes, every other connection stays exactly as it was named -/
theorem oversized_only_sender_dropped (tbl : List IfaceRow) (b : Bus) (c : ConnId) :
    ∀ p ∈ names b, p.1 ≠ c → p ∈ names (step tbl b (.invalid c)).1 := by
  intro p hp hne
  simp only [step]
  split
  · exact hp
  · show p ∈ names (disconnect b c).1
    have := view_disconnect b c
    cases this with
    | same a1 _ _ => exact a1 ▸ hp
    | activated nm M m a1 _ _ _ a5 _ =>
      rw [a5]
      refine List.mem_map.mpr ⟨p, hp, ?_⟩
      unfold setName; simp [hne]
    | removed a1 _ _ =>
      rw [a1]
      exact List.mem_filter.mpr ⟨hp, by simpa [bne_iff_ne] using hne⟩

/-- non-vacuity: a concrete reachable state at a limit — with room for one registered connection,
    the second Hello is refused -/
example :
    nCompleted (run Dbus.Props.C03.helloTable { limits := { maxCompleted := 1 } }
      [.connect 1 0 [] false, .msg 1 Dbus.Props.C03.helloMsg, .connect 2 0 [] false, .msg 2 Dbus.Props.C03.helloMsg]).1 = 1 ∧
    (run Dbus.Props.C03.helloTable { limits := { maxCompleted := 1 } }
      [.connect 1 0 [] false, .msg 1 Dbus.Props.C03.helloMsg, .connect 2 0 [] false, .msg 2 Dbus.Props.C03.helloMsg]).1.conns.length = 2 := by
  decide +kernel

end Dbus.Props.C13
