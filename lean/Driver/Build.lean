import Dbus.Model.Build
/- driver: interpreter of message-construction programs (C02). The program language mirrors
   the public construction API; the result is the abstract message, serialised by `encodeMsg`. -/
open Dbus Dbus.Spec Dbus.Model

inductive Child
  | val (v : Val)
  | entry (k v : Val)

structure BFrame where
  kind : String            -- "a" "r" "v" "e"
  ty : Option Ty           -- array/dict type, or the variant's contained type
  kids : List Child := []

structure BState where
  msg : Msg
  stack : List BFrame := []
  failed : Bool := false

def basicOfCode (c : String) : Option BTy :=
  match c.toList with
  | [ch] => allBasic.find? (fun b => b.code.toNat == ch.toNat)
  | _ => none

def typeOfArraySig (sg : String) : Option Ty :=
  match parseSignature (("a" ++ sg).toUTF8.toList) with
  | some [t] => some t
  | _ => none

-- `setHdr` and `pushTop` are the library's (Dbus.Model.Build): the theorems of Props/C02 are about them

def addChild (st : BState) (c : Child) : BState :=
  match st.stack with
  | [] =>
    match c with
    | .val v => { st with msg := pushTop st.msg v }
    | .entry _ _ => { st with failed := true }
  | f :: rest => { st with stack := { f with kids := f.kids ++ [c] } :: rest }

def closeFrame (f : BFrame) : Option Child :=
  let vals := f.kids.filterMap fun c => match c with | .val v => some v | _ => none
  let ents := f.kids.filterMap fun c => match c with | .entry k v => some (k, v) | _ => none
  match f.kind, f.ty with
  | "a", some (.array et) => some (.val (.array et vals))
  | "a", some (.dict k vt) => some (.val (.dict k vt ents))
  | "r", _ => some (.val (.struct vals))
  | "v", some t => match vals with
    | [v] => some (.val (.variant t v))
    | _ => none
  | "e", _ => match vals with
    | [k, v] => some (.entry k v)
    | _ => none
  | _, _ => none

def buildOp (st : BState) (op : String) : BState :=
  if st.failed then st else
  let fail := { st with failed := true }
  match op.splitOn ":" with
  | ["new", t] => match t.toNat? with
    | some n => { st with msg := { st.msg with mtype := n } }
    | none => fail
  | ["serial", n] => match n.toNat? with
    | some n => { st with msg := { st.msg with serial := n } }
    | none => fail
  | ["flag", bit, v] => match bit.toNat?, v.toNat? with
    | some b, some on =>
      let cur := st.msg.flags
      let has := (cur / b) % 2 = 1
      let nf := if on = 1 then (if has then cur else cur + b) else (if has then cur - b else cur)
      { st with msg := { st.msg with flags := nf } }
    | _, _ => fail
  | ["hdr", c, t, v] =>
    match c.toNat?, t with
    | some code, "u" => match v.toNat? with
      | some n => { st with msg := setHdr st.msg code .u32 (.fixed .u32 n) }
      | none => fail
    | some code, _ => match basicOfCode t, ofHex v with
      | some b, some s => { st with msg := setHdr st.msg code b (.str b s) }
      | _, _ => fail
    | _, _ => fail
  | ["clr", c] => match c.toNat? with
    | some code => { st with msg := applyEdit st.msg (.delete code) }
    | none => fail
  | ["b", c, v] =>
    match basicOfCode c with
    | some b =>
      if b.isFixed then match v.toNat? with
        | some n => addChild st (.val (.fixed b n))
        | none => fail
      else match ofHex v with
        | some s => addChild st (.val (.str b s))
        | none => fail
    | none => fail
  | ["fa", c, vs] =>
    match basicOfCode c with
    | some b =>
      -- blocks appended one after the other (`;` between them: several dbus_message_iter_append_fixed_array calls, a lone value with a
      -- `b` in front: dbus_message_iter_append_basic) make one array of all the values in the order they were appended
      let flat := ((vs.replace ";" ",").replace "b" "")
      let nums := if vs = "" then some [] else ((flat.splitOn ",").filter (· ≠ "")).mapM String.toNat?
      match nums with
      | some ns => addChild st (.val (.array (.basic b) (ns.map (Val.fixed b))))
      | none => fail
    | none => fail
  | ["open", "a", sg] => match typeOfArraySig sg with
    | some t => { st with stack := { kind := "a", ty := some t } :: st.stack }
    | none => fail
  | ["open", "v", sg] => match parseSignature sg.toUTF8.toList with
    | some [t] => { st with stack := { kind := "v", ty := some t } :: st.stack }
    | _ => fail
  | ["open", "r"] => { st with stack := { kind := "r", ty := none } :: st.stack }
  | ["open", "e"] => { st with stack := { kind := "e", ty := none } :: st.stack }
  | ["close"] => match st.stack with
    | f :: rest => match closeFrame f with
      | some c => addChild { st with stack := rest } c
      | none => fail
    | [] => fail
  | _ => fail

def emptyMsg : Msg :=
  { endian := .little, mtype := 1, flags := 0, version := 1, serial := 0, fields := [], bodyTypes := [], body := [] }

def buildCmd (ops : List String) : String :=
  let st := ops.foldl buildOp { msg := emptyMsg }
  if st.failed ∨ !st.stack.isEmpty then "bad-program"
  else
    let le := encodeMsg st.msg
    let copy := encodeMsg { st.msg with serial := 0 }
    s!"{toHex le} rt=1 copy={toHex copy}"
