import Dbus.Model.Bus.Table
import Dbus.Model.Bus.Raw
import Dbus.Model.Bus.Fds
import Dbus.Model.Bus.Oom
import Driver.Wire
/- driver commands for the message-bus model -/
open Dbus Dbus.Spec Dbus.Model Dbus.Model.Bus

structure BusState where
  bus : Bus := {}
  maxMsg : Nat := MAX_MESSAGE_LENGTH
  loaders : List (Nat × Loader) := []
  pending : List (Nat × List Nat) := []
  closed : List Nat := []
  maxMsgFds : Nat := 16

def showOut : Out → String
  | .deliver to m => s!"D {to} {showMsgX m 0}"
  | .opaque to rs => s!"O {to} {rs}"
  | .close c => s!"C {c}"

def showOuts (os : List Out) : String :=
  if os.isEmpty then "-" else " | ".intercalate (os.map showOut)

/-- ordinary outputs, then the copies for monitors -/
def showTx (t : Tx) : String := showOuts (t.out ++ t.mon)

def kvNat (toks : List String) (key : String) (dflt : Nat) : Nat :=
  match toks.findSome? (fun t => match t.splitOn "=" with
      | [k, v] => if k = key then v.toNat? else none
      | _ => none) with
  | some n => n
  | none => dflt

def showOwners (b : Bus) (os : List Owner) : String :=
  ",".intercalate (os.map fun o => s!"{o.conn}{if o.allowRepl then "a" else ""}{if o.noQueue then "n" else ""}")

def showState (b : Bus) : String :=
  let svcs := b.services.map fun s => s!"{asciiOf s.name}=[{showOwners b s.owners}]"
  let conns := b.conns.map fun c => s!"{c.id}:{match c.name with | some n => asciiOf n | none => "-"}:owned={c.owned.length}:rules={c.rules.length}"
  let pend := b.pending.map fun p => s!"{p.caller}>{p.callee}#{p.serial}"
  s!"conns={" ".intercalate conns} services={" ".intercalate svcs} pending={" ".intercalate pend}"

def natList (s : String) : List Nat :=
  if s = "-" then [] else (s.splitOn ",").filterMap (·.toNat?)

def BusState.fdnet (st : BusState) : FdNet :=
  { net := { bus := st.bus, loaders := st.loaders, maxMsg := st.maxMsg }, pending := st.pending, closed := st.closed,
    maxMsgFds := st.maxMsgFds }

def BusState.ofFdnet (st : BusState) (n : FdNet) : BusState :=
  { st with bus := n.net.bus, loaders := n.net.loaders, pending := n.pending, closed := n.closed }

/-- loaders (and the descriptors pending in them) of connections that have gone are finalized -/
def BusState.swept (st : BusState) : BusState := st.ofFdnet st.fdnet.sweep

def showFdOut (toks : List Nat) : Out → String
  | .deliver to m =>
    let base := s!"D {to} {showMsgX m 0}"
    if m.nFds > 0 then base ++ " fdtok=" ++ ",".intercalate (toks.map toString) else base
  | o => showOut o

def showFdTx (p : FdTx) : String :=
  let os := p.1.out ++ p.1.mon
  if os.isEmpty then "-" else " | ".intercalate (os.map (showFdOut p.2))

def busCmd0 (st : BusState) (toks : List String) : BusState × String :=
  match toks with
  | "reset" :: rest =>
    let l : Limits := { maxNames := kvNat rest "names" 512, maxRules := kvNat rest "rules" 512,
                        maxCompleted := kvNat rest "completed" 2048, maxPerUser := kvNat rest "peruser" 256,
                        maxReplies := kvNat rest "replies" 128 }
    ({ bus := { limits := l }, maxMsg := kvNat rest "maxmsg" MAX_MESSAGE_LENGTH, maxMsgFds := kvNat rest "maxfds" 16 }, "ok")
  | ["connect", c, uid, gids, fd] =>
    match c.toNat?, uid.toNat? with
    | some c, some uid =>
      let t := step driverTable st.bus (.connect c uid (natList gids) (fd = "1"))
      ({ st with bus := t.bus }, showTx t)
    | _, _ => (st, "bad-op")
  | ["msg", c, hex] =>
    match c.toNat?, ofHex hex with
    | some c, some bs =>
      let fds := 16
      match loadOne true st.maxMsg fds bs with
      | .ok m n =>
        if n = bs.length then
          let t := step driverTable st.bus (.msg c m)
          ({ st with bus := t.bus }, showTx t)
        else (st, "bad-op")
      | .corrupt =>
        let t := step driverTable st.bus (.invalid c)
        ({ st with bus := t.bus }, showTx t)
      | .incomplete => (st, "bad-op")
    | _, _ => (st, "bad-op")
  | ["raw", c, hex] =>
    match c.toNat?, ofHex hex with
    | some c, some bs =>
      let n : Net := { bus := st.bus, loaders := st.loaders, maxMsg := st.maxMsg }
      let (n', txs) := netStep driverTable n (.write c bs)
      ({ st with bus := n'.bus, loaders := n'.loaders },
        if txs.isEmpty then "-" else
          let parts := (txs.map showTx).filter (· ≠ "-")
          if parts.isEmpty then "-" else " | ".intercalate parts)
    | _, _ => (st, "bad-op")
  | ["fdwrite", c, hex, tk] =>
    match c.toNat?, ofHex hex with
    | some c, some bs =>
      let (n', txs) := fdStep driverTable st.fdnet (.write c bs (natList tk))
      let parts := (txs.map showFdTx).filter (· ≠ "-")
      (st.ofFdnet n', if parts.isEmpty then "-" else " | ".intercalate parts)
    | _, _ => (st, "bad-op")
  | ["fdtimeout"] =>
    let (n', txs) := fdStep driverTable st.fdnet .pendingTimeout
    let parts := (txs.map showFdTx).filter (· ≠ "-")
    (st.ofFdnet n', if parts.isEmpty then "-" else " | ".intercalate parts)
  | ["fdstate"] =>
    let pend := st.pending.filter (fun p => !p.2.isEmpty)
    let ps := pend.map fun p => s!"{p.1}:{",".intercalate (p.2.map toString)}"
    (st, s!"pending={if ps.isEmpty then "-" else " ".intercalate ps} open={(pend.map (·.2.length)).sum} closed={st.closed.length}")
  | ["nop"] => (st, "-")
  | ["oom", c, hex] =>
    -- the message is handled by a bus that runs out of memory: the contract of C14
    match c.toNat?, ofHex hex with
    | some c, some bs =>
      match loadOne true st.maxMsg 16 bs with
      | .ok m n => if n = bs.length then (st, showTx (stepOom st.bus c m)) else (st, "bad-op")
      | _ => (st, "bad-op")
    | _, _ => (st, "bad-op")
  | ["close", c] =>
    match c.toNat? with
    | some c =>
      let t := step driverTable st.bus (.close c)
      ({ st with bus := t.bus }, showTx t)
    | none => (st, "bad-op")
  | "policy" :: ctx :: verdict :: attrs =>
    let as : List (String × Bytes) := attrs.filterMap fun t =>
      match t.splitOn "=" with
      | [k, v] => (ofHex v).map fun b => (k, b)
      | _ => none
    if as.length ≠ attrs.length ∨ (verdict ≠ "allow" ∧ verdict ≠ "deny") then (st, "bad-op") else
    match ruleOfAttrs st.bus.limits.maxFdsDefault (verdict = "allow") as with
    | none => (st, "rejected")
    | some r =>
      let p := st.bus.policy
      let add (tbl : List (Nat × List PRule)) (k : Nat) : List (Nat × List PRule) := tbl ++ [(k, [r])]
      let p' : Option Policy :=
        match ctx.splitOn ":" with
        | ["default"] => some { p with default := p.default ++ [r] }
        | ["mandatory"] => some { p with mandatory := p.mandatory ++ [r] }
        | ["user", u] => u.toNat?.map fun u => { p with byUid := add p.byUid u }
        | ["group", g] => g.toNat?.map fun g => { p with byGid := add p.byGid g }
        | ["console", "true"] => some { p with consoleTrue := p.consoleTrue ++ [r] }
        | ["console", "false"] => some { p with consoleFalse := p.consoleFalse ++ [r] }
        | _ => none
      match p' with
      | some p' => ({ st with bus := { st.bus with policy := p' } }, "ok")
      | none => (st, "bad-op")
  | ["reload-begin"] =>
    -- the rules that follow (`policy …` lines) form the new configuration; nothing happens until `reload`
    ({ st with bus := { st.bus with policy := {} } }, "ok")
  | ["reload"] =>
    let t := step driverTable st.bus (.reload st.bus.policy)
    ({ st with bus := t.bus }, showTx t)
  | ["stall", c, on] =>
    match c.toNat? with
    | some c =>
      let t := step driverTable st.bus (.stall c (on = "1"))
      ({ st with bus := t.bus }, showTx t)
    | none => (st, "bad-op")
  | ["timeout"] =>
    let t := step driverTable st.bus .timeout
    ({ st with bus := t.bus }, showTx t)
  | ["state"] => (st, showState st.bus)
  | _ => (st, "bad-op")

def busCmd (st : BusState) (toks : List String) : BusState × String :=
  let (st', ans) := busCmd0 st toks
  (st'.swept, ans)
