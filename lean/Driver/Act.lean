import Dbus.Model.Bus.Timed
import Driver.Bus
/- driver commands for the activation layer of the bus model (`act …`) -/
open Dbus Dbus.Spec Dbus.Model Dbus.Model.Bus

structure ActState where
  bs : BusState := {}
  files : List SvcFile := []
  acts : List PendingAct := []
  maxPending : Nat := 512
  nspawn : Nat := 0
  now : Nat := 0
  replyTimeout : Option Nat := none
  startTimeout : Nat := 25000
  slotBorn : List (Pending × Nat) := []
  actBorn : List (Bytes × Nat) := []

def ActState.abus (st : ActState) : ABus :=
  { core := st.bs.bus, files := st.files, acts := st.acts, maxPending := st.maxPending, nspawn := st.nspawn }

def showATx (x : ATx) : String :=
  let parts := (x.t.out ++ x.t.mon).map showOut ++ x.spawned.map (fun n => s!"S {toHex n.1} {match n.2 with | some k => toString k | none => "x"}") ++
    x.killed.map (fun n => s!"K {toHex n.1} {match n.2 with | some k => toString k | none => "x"}")
  if parts.isEmpty then "-" else " | ".intercalate parts

def ActState.tbus (st : ActState) : TBus :=
  { a := st.abus, now := st.now, replyTimeout := st.replyTimeout, startTimeout := st.startTimeout,
    slotBorn := st.slotBorn, actBorn := st.actBorn }

def ActState.ofT (st : ActState) (t : TBus) : ActState :=
  { st with bs := { st.bs with bus := t.a.core }, acts := t.a.acts, nspawn := t.a.nspawn, now := t.now,
            slotBorn := t.slotBorn, actBorn := t.actBorn }

/-- the state after a transaction of the activation layer: the time stamps follow (`TBus.next`) -/
def ActState.after (st : ActState) (x : ATx) : ActState := st.ofT (st.tbus.next x)

/-- after a command that went to the core directly -/
def ActState.restamped (st : ActState) : ActState :=
  { st with slotBorn := stampSlots st.now st.slotBorn st.bs.bus.pending, actBorn := stampActs st.now st.actBorn st.acts }

def showATxs (xs : List ATx) : String :=
  let parts := (xs.map showATx).filter (· ≠ "-")
  if parts.isEmpty then "-" else " | ".intercalate parts

def hexOrEmpty (s : String) : Option Bytes := if s = "-" then some [] else ofHex s

def showActs (acts : List PendingAct) : String :=
  if acts.isEmpty then "-" else
  " ".intercalate (acts.map fun pa =>
    s!"{asciiOf pa.name}=[{",".intercalate (pa.entries.map fun e => s!"{e.conn}{if e.auto then "a" else "s"}#{e.msg.serial}")}]")

def actCmd (st : ActState) (toks : List String) : ActState × String :=
  match toks with
  | "reset" :: rest =>
    let (bs, ans) := busCmd0 {} ("reset" :: rest)
    ({ bs := bs, maxPending := kvNat rest "pending" 512,
       replyTimeout := (if kvNat rest "replytimeout" 0 = 0 then none else some (kvNat rest "replytimeout" 0)),
       startTimeout := kvNat rest "starttimeout" 25000 }, ans)
  | ["file", name, exec, parses, runs] =>
    match hexOrEmpty name, hexOrEmpty exec with
    | some n, some e =>
      -- the first file naming a service wins (`Service %s already exists in activation entry list`)
      if st.files.any (·.name == n) then (st, "ok")
      else ({ st with files := st.files ++ [{ name := n, exec := e, parses := parses = "1", runs := runs = "1" }] }, "ok")
    | _, _ => (st, "bad-op")
  | ["file", name, exec, parses, runs, refuse] =>
    -- a file the bus refuses to start (error name `refuse`) before anything is parsed: <servicehelper> and no User=
    match hexOrEmpty name, hexOrEmpty exec, ofHex refuse with
    | some n, some e, some r =>
      if st.files.any (·.name == n) then (st, "ok")
      else ({ st with files := st.files ++ [{ name := n, exec := e, parses := parses = "1", runs := runs = "1", refuse := some r }] }, "ok")
    | _, _, _ => (st, "bad-op")
  | ["msg", c, hex] =>
    match c.toNat?, ofHex hex with
    | some c, some bs =>
      match loadOne true st.bs.maxMsg 16 bs with
      | .ok m n =>
        if n = bs.length then
          let x := stepA driverTable st.abus (.core (.msg c m))
          (st.after x, showATx x)
        else (st, "bad-op")
      | .corrupt =>
        let x := stepA driverTable st.abus (.core (.invalid c))
        (st.after x, showATx x)
      | .incomplete => (st, "bad-op")
    | _, _ => (st, "bad-op")
  | ["exited", child, err] =>
    match child.toNat?, (if err = "0" then some none else (ofHex err).map some) with
    | some k, some e =>
      let x := stepA driverTable st.abus (.childExited k e)
      (st.after x, showATx x)
    | _, _ => (st, "bad-op")
  | ["execfailed", name] =>
    match hexOrEmpty name with
    | some n =>
      let x := stepA driverTable st.abus (.execFailed n)
      (st.after x, showATx x)
    | none => (st, "bad-op")
  | ["acttimeout", name] =>
    match hexOrEmpty name with
    | some n =>
      let x := stepA driverTable st.abus (.actTimeout n)
      (st.after x, showATx x)
    | none => (st, "bad-op")
  | ["acttimeout-all"] =>
    -- every pending activation has passed its deadline: they expire in creation order
    let (st', outs) := st.acts.foldl (fun (acc : ActState × List String) pa =>
      let x := stepA driverTable acc.1.abus (.actTimeout pa.name)
      (acc.1.after x, acc.2 ++ [showATx x])) (st, [])
    let parts := outs.filter (· ≠ "-")
    (st', if parts.isEmpty then "-" else " | ".intercalate parts)
  | ["advance", dt] =>
    match dt.toNat? with
    | some dt =>
      let r := stepT driverTable st.tbus (.advance dt)
      (st.ofT r.1, showATxs r.2)
    | none => (st, "bad-op")
  | ["acts"] => (st, showActs st.acts)
  | ["clock"] =>
    (st, s!"now={st.now} slots={" ".intercalate (st.slotBorn.map fun e => s!"{e.1.caller}>{e.1.callee}#{e.1.serial}@{e.2}")} acts={" ".intercalate (st.actBorn.map fun e => s!"{asciiOf e.1}@{e.2}")}")
  | _ =>
    -- connect, close, policy, timeout, state: the core's
    let (bs, ans) := busCmd0 st.bs toks
    (({ st with bs := bs } : ActState).restamped, ans)
