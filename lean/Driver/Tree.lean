import Dbus.Model.ObjectTree
/- driver commands for the object-tree model (C20) -/
open Dbus Dbus.Spec.Tree Dbus.Model.Tree

structure TreeState where
  node : Node := Node.empty
  regs : Regs := []

def parsePath (s : String) : Option Path :=
  if s = "/" then some [] else
  match s.splitOn "/" with
  | "" :: els => if els.any (· = "") then none else some (els.map (fun e => e.toUTF8.toList))
  | _ => none

def showName (b : Bytes) : String := String.ofList (b.map (fun c => Char.ofNat c.toNat))

def showIds (l : List Nat) : String := if l.isEmpty then "-" else ",".intercalate (l.map toString)

def insertSorted (x : Bytes) : List Bytes → List Bytes
  | [] => [x]
  | y :: ys => if x = y then y :: ys else if bytesLt x y then x :: y :: ys else y :: insertSorted x ys

def sortDedup (l : List Bytes) : List Bytes := l.foldl (fun acc x => insertSorted x acc) []

def showOutcome : Outcome → String
  | .handledBy id => s!"handled:{id}"
  | .unknownMethod => "UnknownMethod"
  | .unknownObject => "UnknownObject"

def treeCmd (st : TreeState) (toks : List String) : TreeState × String :=
  match toks with
  | ["reset"] => ({}, "ok ; ok")
  | ["reg", p, fb, id] =>
    match parsePath p, id.toNat? with
    | some path, some n =>
      let r : Reg := (fb = "1", n)
      let (node', m) := match registerN st.node path r with
        | some n' => (n', "ok")
        | none => (st.node, "inuse")
      let (regs', s) := match st.regs.register path r with
        | some r' => (r', "ok")
        | none => (st.regs, "inuse")
      ({ node := node', regs := regs' }, s!"{m} ; {s}")
    | _, _ => (st, "bad-op")
  | ["unreg", p] =>
    match parsePath p with
    | some path =>
      let node' := (unregisterN st.node path).getD st.node
      ({ node := node', regs := st.regs.unregister path }, "ok ; ok")
    | none => (st, "bad-op")
  | ["call", p, tk] =>
    match parsePath p with
    | some path =>
      let takers := if tk = "-" then [] else (tk.splitOn ",").filterMap String.toNat?
      let (inv, out) := dispatch st.node path takers
      -- specification: handlers from the registration map, found from the registration set
      let (sinv, sr) := invokeUntil takers (st.regs.toMap.handlers path)
      let sout := match sr with
        | some id => Outcome.handledBy id
        | none => if st.regs.found path then .unknownMethod else .unknownObject
      (st, s!"inv={showIds inv} out={showOutcome out} ; inv={showIds sinv} out={showOutcome sout}")
    | none => (st, "bad-op")
  | ["list", p] =>
    match parsePath p with
    | some path =>
      let m := listChildren st.node path
      let s := sortDedup (st.regs.childNames path)
      let sh := fun (l : List Bytes) => if l.isEmpty then "-" else ",".intercalate (l.map showName)
      (st, s!"c={sh m} ; c={sh s}")
    | none => (st, "bad-op")
  | ["data", p] =>
    match parsePath p with
    | some path =>
      let sh := fun (o : Option Reg) => match o with | some r => toString r.2 | none => "-"
      (st, s!"d={sh (lookup st.node path)} ; d={sh (st.regs.toMap path)}")
    | none => (st, "bad-op")
  | _ => (st, "bad-op")
