import Dbus.Model.Bus.Accept
/- driver commands for the incomplete-connection bookkeeping (C10) -/
open Dbus.Model.Accept

def showAcc (a : Acc) : String :=
  let l (xs : List Nat) := if xs.isEmpty then "-" else ",".intercalate (xs.map toString)
  s!"inc={l a.incomplete} back={l a.backlog} en={if a.enabled then 1 else 0}"

def accCmd (a : Acc) (toks : List String) : Acc × String :=
  match toks with
  | ["reset", m] => match m.toNat? with
    | some m => ({ max := m }, "ok")
    | none => (a, "bad-op")
  | [k, i] => match i.toNat? with
    | some i =>
      let ev? : Option Ev := if k = "arrive" then some (.arrive i) else if k = "complete" then some (.complete i)
        else if k = "gone" then some (.gone i) else none
      match ev? with
      | some ev => let a' := a.step ev; (a', showAcc a')
      | none => (a, "bad-op")
    | none => (a, "bad-op")
  | _ => (a, "bad-op")
