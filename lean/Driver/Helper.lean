import Dbus.Model.Helper
import Driver.Wire
/- driver commands for the activation-helper model (`helper …`) -/
open Dbus Dbus.Model Dbus.Model.Helper

def hexList (l : List Bytes) : String :=
  if l.isEmpty then "-" else ",".intercalate (l.map fun b => if b.isEmpty then "e" else toHex b)

def showDFile (f : DFile) : String :=
  if f.isEmpty then "ok -" else
  "ok " ++ ";".intercalate (f.map fun s =>
    "S:" ++ (if s.name.isEmpty then "e" else toHex s.name) ++
      String.join (s.lines.map fun l => ";K:" ++ toHex l.key ++ "=" ++ (if l.value.isEmpty then "e" else toHex l.value)))

def hexArg (s : String) : Option Bytes := if s = "-" ∨ s = "e" then some [] else ofHex s

def helperCmd (toks : List String) : String :=
  match toks with
  | ["shell", hex] =>
    match hexArg hex with
    | some bs =>
      match parseArgv bs with
      | .ok argv => "ok " ++ hexList argv
      | .invalidArgs => "invalid"
      | .noMemory => "nomem"
    | none => "bad-op"
  | ["desktop", hex] =>
    match hexArg hex with
    | some bs =>
      match loadDesktop bs with
      | some f => showDFile f
      | none => "fail"
    | none => "bad-op"
  | "run" :: name :: dirs =>
    let ds : List (Option (Option Bytes)) := dirs.map fun d => if d = "none" then some none else (hexArg d).map some
    match hexArg name with
    | some n =>
      if ds.any (·.isNone) then "bad-op" else
      match run n (ds.filterMap id) with
      | .exec argv => "exec " ++ hexList argv
      | .exit c => s!"exit {c}"
    | none => "bad-op"
  | _ => "bad-op"
