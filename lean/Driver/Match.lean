import Dbus.Model.Bus.Match
/- driver commands for the match-rule model (C07) -/
open Dbus Dbus.Spec Dbus.Model Dbus.Model.Bus

def optHex (o : Option Bytes) : String :=
  match o with
  | none => "-"
  | some b => if b.isEmpty then "empty" else toHex b

def insertArg (x : Nat × ArgKind × Bytes) : List (Nat × ArgKind × Bytes) → List (Nat × ArgKind × Bytes)
  | [] => [x]
  | y :: ys => if x.1 < y.1 then x :: y :: ys else y :: insertArg x ys

def showRule (r : MatchRule) : String :=
  let args := (r.args.foldl (fun acc x => insertArg x acc) []).map fun (i, k, v) =>
    let ks := match k with | .plain => "s" | .path => "p" | .ns => "n"
    s!"{i}:{ks}:{if v.isEmpty then "empty" else toHex v}"
  let t := match r.mtype with | some n => toString n | none => "-"
  s!"t={t} s={optHex r.sender} i={optHex r.iface} m={optHex r.member} p={optHex r.path} pn={if r.pathNs then 1 else 0} " ++
  s!"d={optHex r.dest} e={if r.eavesdrop then 1 else 0} args={if args.isEmpty then "-" else ",".intercalate args}"

def argView (v : Val) : Option (Bool × Bytes) :=
  match v with
  | .str .str s => some (false, s)
  | .str .path s => some (true, s)
  | _ => none

def strField (fs : List Field) (code : Nat) : Option Bytes :=
  match getField fs code with
  | some (.str _ s) => some s
  | _ => none

/-- the matcher's view of a message sent by the bus itself to nobody in particular -/
def ctxOfMsg (m : Msg) : MatchCtx :=
  { mtype := m.mtype, iface := strField m.fields 2, member := strField m.fields 3, path := strField m.fields 1,
    dest := strField m.fields 6, senderIsBus := true, senderOwns := fun _ => false, hasRecipient := false,
    recipientOwns := fun _ => false, args := m.body.map argView }

def matchCmd (toks : List String) : String :=
  match toks with
  | ["parse", hex] =>
    match ofHex hex with
    | some t => match parseRule t with
      | .ok r => s!"ok {showRule r}"
      | .invalid => "invalid"
      | .tooLong => "toolong"
    | none => "bad-op"
  | ["oomparse", hex] =>
    match ofHex hex with
    | some t => match parseRule t with
      | .ok r => s!"ok {showRule r}"
      | .invalid => "invalid"
      | .tooLong => "toolong"
    | none => "bad-op"
  | ["test", rhex, mhex] =>
    match ofHex rhex, ofHex mhex with
    | some t, some mb =>
      match parseRule t, loadOne true MAX_MESSAGE_LENGTH 0 mb with
      | .ok r, .ok m _ =>
        if ruleMatches r (ctxOfMsg m) then "1" else "0"
      | .ok _, _ => "bad-message"
      | _, _ => "invalid"
    | _, _ => "bad-op"
  | ["equal", a, b] =>
    match ofHex a, ofHex b with
    | some x, some y =>
      match parseRule x, parseRule y with
      | .ok r1, .ok r2 => if ruleEqual r1 r2 then "1" else "0"
      | _, _ => "invalid"
    | _, _ => "bad-op"
  | _ => "bad-op"
