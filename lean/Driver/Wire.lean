import Dbus.Model.Message
import Dbus.Model.Loader
import Dbus.Model.Encode
import Driver.Build
/- driver commands for the wire-format models (C01, C02, C11, C12) -/
open Dbus Dbus.Spec Dbus.Model

def asciiOf (b : Bytes) : String := String.ofList (b.map (fun c => Char.ofNat c.toNat))

def hexOrDash (b : Bytes) : String := toHex b |> fun s => if s.isEmpty then "-" else s

mutual
partial def showVal : Val → String
  | .fixed b n => if b = .fd then "h:*" else s!"{asciiOf [b.code]}:{n}"
  | .str b s => s!"{asciiOf [b.code]}:{hexOrDash s}"
  | .variant t v => s!"V[{asciiOf t.print}|{showVal v}]"
  | .array et vs => s!"A[{asciiOf et.print}|{",".intercalate (vs.map showVal)}]"
  | .struct vs => s!"S[{",".intercalate (vs.map showVal)}]"
  | .dict k vt es =>
    let ent := es.map fun (a, b) => s!"E[{showVal a},{showVal b}]"
    s!"A[\{{asciiOf [k.code]}{asciiOf vt.print}}|{",".intercalate ent}]"
end

def showStrField (fs : List Field) (code : Nat) : String :=
  match getField fs code with
  | some (.str _ s) => hexOrDash s |> fun x => if s.isEmpty then "empty" else x
  | _ => "-"

def showNatField (fs : List Field) (code : Nat) : String :=
  match getField fs code with
  | some (.fixed _ n) => toString n
  | _ => "-"

def showMsg (m : Msg) (consumed : Nat) : String :=
  let e := if m.endian = .little then "l" else "B"
  s!"ok n={consumed} e={e} t={m.mtype} f={m.flags % 8} ser={m.serial} " ++
  s!"path={showStrField m.fields 1} iface={showStrField m.fields 2} member={showStrField m.fields 3} " ++
  s!"err={showStrField m.fields 4} rs={showNatField m.fields 5} dest={showStrField m.fields 6} " ++
  s!"sender={showStrField m.fields 7} sig={showStrField m.fields 8} fds={showNatField m.fields 9} " ++
  s!"ci={showStrField m.fields 10} body={",".intercalate (m.body.map showVal)}"

/-- `showMsg` plus the codes of unknown header fields, in wire order (the bus must not forward any) -/
def showMsgX (m : Msg) (consumed : Nat) : String :=
  let uk := (m.fields.filter (fun f => decide (f.code > FIELD_LAST))).map (fun f => toString f.code)
  showMsg m consumed ++ s!" uk={if uk.isEmpty then "-" else ",".intercalate uk}"

def showLoad : LoadResult → String
  | .incomplete => "incomplete"
  | .corrupt => "corrupt"
  | .ok m n => showMsg m n

/-- `dbus_message_demarshal`: the whole buffer goes through the loader; corruption anywhere
    fails the call, otherwise the first message is returned -/
partial def loadAll (maxLen fds : Nat) (bs : Bytes) (acc : List (Msg × Nat)) : List (Msg × Nat) × Bool :=
  match loadOne true maxLen fds bs with
  | .ok m n => loadAll maxLen (fds - unixFdsOf m.fields) (bs.drop n) (acc ++ [(m, n)])
  | .corrupt => (acc, true)
  | .incomplete => (acc, false)

def wireCmd (toks : List String) : String :=
  match toks with
  | ["demarshalx", hex] =>
    match ofHex hex with
    | some bs =>
      match loadOne true MAX_MESSAGE_LENGTH 64 bs with
      | .ok m n => showMsgX m n
      | .corrupt => "corrupt"
      | .incomplete => "incomplete"
    | none => "bad-op"
  | ["demarshal", hex] =>
    match ofHex hex with
    | some bs =>
      let (msgs, corrupt) := loadAll MAX_MESSAGE_LENGTH 0 bs []
      if corrupt then "corrupt"
      else match msgs with
        | (m, n) :: _ => showMsg m n
        | [] => "none"
    | none => "bad-op"
  | ["load", hex, maxLen, fds] =>
    match ofHex hex, maxLen.toNat?, fds.toNat? with
    | some bs, some mx, some fd => showLoad (loadOne true mx fd bs)
    | _, _, _ => "bad-op"
  | "build" :: ops => buildCmd ops
  | "oombuild" :: ops => buildCmd ops
  | ["swap", hex] =>
    -- what the library does when it reads a message in the other byte order: convert to native
    match ofHex hex with
    | some bs =>
      match loadOne true MAX_MESSAGE_LENGTH 0 bs with
      | .ok m _ => toHex (encodeMsg { m with endian := .little })
      | .corrupt => "corrupt"
      | .incomplete => "incomplete"
    | none => "bad-op"
  | ["tobig", hex] =>
    match ofHex hex with
    | some bs =>
      match loadOne true MAX_MESSAGE_LENGTH 0 bs with
      | .ok m _ => toHex (encodeMsg { m with endian := .big })
      | _ => "unloadable"
    | none => "bad-op"
  | ["reencode", hex] =>
    -- decode then encode: must reproduce the input bytes of the message (canonicity, executable)
    match ofHex hex with
    | some bs =>
      match loadOne true MAX_MESSAGE_LENGTH 0 bs with
      | .ok m _ => toHex (encodeMsg m)
      | .corrupt => "corrupt"
      | .incomplete => "incomplete"
    | none => "bad-op"
  | "edit" :: hex :: ops =>
    -- ops: set:<code>:<tycode>:<hexval|number>  del:<code>  unk  serial:<n>
    match ofHex hex with
    | some bs =>
      match loadOne true MAX_MESSAGE_LENGTH 0 bs with
      | .ok m0 _ =>
        let parseOp (o : String) : Option EditOp :=
          match o.splitOn ":" with
          | ["set", c, "u", v] => do
            let c ← c.toNat?; let v ← v.toNat?
            pure (.set { code := c, ty := .basic .u32, val := .fixed .u32 v })
          | ["set", c, t, v] => do
            let c ← c.toNat?; let v ← ofHex v
            let b ← (if t = "s" then some BTy.str else if t = "o" then some BTy.path else if t = "g" then some BTy.sig else none)
            pure (.set { code := c, ty := .basic b, val := .str b v })
          | ["del", c] => do let c ← c.toNat?; pure (.delete c)
          | ["unk"] => some .removeUnknown
          | ["serial", n] => do let n ← n.toNat?; pure (.setSerial n)
          | _ => none
        -- `rd`: the application reads the body, which converts a message in the other byte order to native order (not an edit)
        let parseStep (o : String) : Option (Msg → Msg) :=
          if o = "rd" then some (fun m => { m with endian := .little }) else (parseOp o).map (fun op m => applyEdit m op)
        match ops.mapM parseStep with
        | some eops =>
          let (_, outs) := eops.foldl (fun (acc : Msg × List String) f =>
            let m' := f acc.1
            (m', acc.2 ++ [toHex (encodeMsg m')])) (m0, [])
          " ".intercalate outs
        | none => "bad-op"
      | _ => "unloadable"
    | none => "bad-op"
  | "oomedit" :: hex :: ops =>       -- same answers: a failed attempt changes nothing, the op is then let through
    -- ops: set:<code>:<tycode>:<hexval|number>  del:<code>  unk  serial:<n>
    match ofHex hex with
    | some bs =>
      match loadOne true MAX_MESSAGE_LENGTH 0 bs with
      | .ok m0 _ =>
        let parseOp (o : String) : Option EditOp :=
          match o.splitOn ":" with
          | ["set", c, "u", v] => do
            let c ← c.toNat?; let v ← v.toNat?
            pure (.set { code := c, ty := .basic .u32, val := .fixed .u32 v })
          | ["set", c, t, v] => do
            let c ← c.toNat?; let v ← ofHex v
            let b ← (if t = "s" then some BTy.str else if t = "o" then some BTy.path else if t = "g" then some BTy.sig else none)
            pure (.set { code := c, ty := .basic b, val := .str b v })
          | ["del", c] => do let c ← c.toNat?; pure (.delete c)
          | ["unk"] => some .removeUnknown
          | ["serial", n] => do let n ← n.toNat?; pure (.setSerial n)
          | _ => none
        -- `rd`: the application reads the body, which converts a message in the other byte order to native order (not an edit)
        let parseStep (o : String) : Option (Msg → Msg) :=
          if o = "rd" then some (fun m => { m with endian := .little }) else (parseOp o).map (fun op m => applyEdit m op)
        match ops.mapM parseStep with
        | some eops =>
          let (_, outs) := eops.foldl (fun (acc : Msg × List String) f =>
            let m' := f acc.1
            (m', acc.2 ++ [toHex (encodeMsg m')])) (m0, [])
          " ".intercalate outs
        | none => "bad-op"
      | _ => "unloadable"
    | none => "bad-op"
  | "chunks" :: maxLen :: hexes =>
    match maxLen.toNat?, hexes.mapM ofHex with
    | some mx, some chunks =>
      let l := chunks.foldl (Loader.feed mx) ({} : Loader)
      -- the dump reports the bytes each message occupied; recompute from the encoding order
      let dumps := l.msgs.map fun m => showMsg m 0
      s!"msgs={l.msgs.length} corrupt={if l.corrupted then 1 else 0}" ++ String.join (dumps.map (" | " ++ ·))
    | _, _ => "bad-op"
  | _ => "bad-op"
