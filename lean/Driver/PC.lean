import Dbus.Model.PendingCalls
/- driver commands for the pending-call model (C17) -/
open Dbus Dbus.Model.PC

def showOutcomePC : Option Outcome → String
  | none => "-"
  | some (.byReply t) => s!"r{t}"
  | some .byTimeoutError => "T"
  | some .byDisconnectedError => "X"

def showQ (m : QMsg) : String :=
  match m.kind with
  | .reply t => s!"r{t}"
  | .timeoutError => s!"T{m.rs}"
  | .disconnected => "D"

def pcStatus (st : State) : String :=
  let cs := st.calls.mapIdx fun i c =>
    s!"c{i}:ser={c.serial},done={showOutcomePC c.completed},n={c.notified},arm={if c.timeoutArmed then 1 else 0}"
  let f := if st.toFilters.isEmpty then "-" else ",".intercalate (st.toFilters.map showQ)
  s!"{" ".intercalate cs} filters={f} conn={if st.connected then 1 else 0}"

/-- specification view of the same history: every call that was not cancelled has completed
    exactly once when the history is settled -/
def pcSpecStatus (st : State) : String :=
  let cs := st.calls.mapIdx fun i c =>
    let done := if c.cancelled then 0 else 1
    s!"c{i}:completions={done},notified={if c.cancelled then 0 else if c.notify then 1 else 0}"
  " ".intercalate cs

def pcImplCounts (st : State) : String :=
  let cs := st.calls.mapIdx fun i c =>
    s!"c{i}:completions={if c.completed.isSome then 1 else 0},notified={c.notified}"
  " ".intercalate cs

def pcCmd (st : State) (toks : List String) : State × String :=
  match toks with
  | ["reset"] => ({}, "ok")
  | ["send", fin, ntf] =>
    let (st', r) := send st (fin = "1") (ntf = "1")
    (st', match r with | some s => s!"serial={s}" | none => "no-pending")
  | ["dispatch-block", i] =>
    match i.toNat? with
    | some i => let (st', waited) := dispatchBlock st i; (st', if waited then "ok" else "ok-nofilter")
    | none => (st, "bad-op")
  | ["failsend"] =>
    let (st', r) := sendFail st
    (st', match r with | some s => s!"failed serial={s}" | none => "no-pending")
  | ["retry", fin, ntf] =>
    let (st', r) := retry st (fin = "1") (ntf = "1")
    (st', match r with | some s => s!"serial={s}" | none => "bad-op")
  | ["sendser", ser, fin, ntf] =>
    match ser.toNat? with
    | some sr =>
      let (st', r) := sendPreset st sr (fin = "1") (ntf = "1")
      (st', match r with | some s => s!"serial={s}" | none => "no-pending")
    | none => (st, "bad-op")
  | ["peer", i, tag] =>
    match i.toNat?, tag.toNat? with
    | some i, some t =>
      match st.calls[i]? with
      | some c => ({ st with wire := st.wire ++ [{ rs := c.serial, kind := .reply t }] }, "ok")
      | none => (st, "bad-op")
    | _, _ => (st, "bad-op")
  | ["peer-signal", i, tag] =>
    -- a signal carrying the call's serial in REPLY_SERIAL: paired with the call like a reply (the pairing looks at that field only)
    match i.toNat?, tag.toNat? with
    | some i, some t =>
      match st.calls[i]? with
      | some c => ({ st with wire := st.wire ++ [{ rs := c.serial, kind := .reply t }] }, "ok")
      | none => (st, "bad-op")
    | _, _ => (st, "bad-op")
  | ["peer-stray", rs, tag] =>
    match rs.toNat?, tag.toNat? with
    | some r, some t => ({ st with wire := st.wire ++ [{ rs := r, kind := .reply t }] }, "ok")
    | _, _ => (st, "bad-op")
  | ["pump"] => (pump st, "ok")
  | ["dispatch"] => (dispatch st, "ok")
  | ["fire", i] =>
    match i.toNat? with
    | some i => let (st', b) := fire st i; (st', if b then "fired" else "no-timeout")
    | none => (st, "bad-op")
  | ["cancel", i] =>
    match i.toNat? with
    | some i => (cancel st i, "ok")
    | none => (st, "bad-op")
  | ["block", i] =>
    match i.toNat? with
    | some i => match block st i with
      | some st' => (st', "ok")
      | none => (st, "would-block")
    | none => (st, "bad-op")
  | ["close-peer"] => ({ st with peerClosed := true }, "ok")
  | ["setserial", n] =>
    match n.toNat? with
    | some n => ({ st with nextSerial := n }, "ok")
    | none => (st, "bad-op")
  | ["status"] => (st, pcStatus st)
  | ["final"] => (st, s!"{pcImplCounts st} ; {pcSpecStatus st}")
  | _ => (st, "bad-op")
