import Dbus.Basic
import Dbus.Model.Syntax
import Dbus.Model.Utf8
import Dbus.Model.Signature
import Driver.Tree
import Driver.Wire
import Driver.PC
import Driver.Match
import Driver.Bus
import Driver.Auth
import Driver.Acc
import Driver.Act
import Driver.Helper
/-
  Line-protocol driver over Dbus.Model (compiled; imports no proofs and no Mathlib).

  One request per input line, one answer line per request, except in the bulk "check" commands
  (`syn`, `sig` with a trailing implementation verdict), which answer only on a difference
  and are summarised by the final `DONE` line.
-/
open Dbus Dbus.Model

def bit (b : Bool) : Char := if b then '1' else '0'

/-- member interface error busname namespace path utf8 -/
def synModel (s : Bytes) : String :=
  String.ofList [bit (validateMember s), bit (validateInterface s), bit (validateErrorName s),
    bit (validateBusName s), bit (validateBusNamespace s), bit (validatePath s), bit (validateUtf8 s)]

/-- the same with the strict specification for bus names (K1 separated) -/
def synSpec (s : Bytes) : String :=
  String.ofList [bit (validateMember s), bit (validateInterface s), bit (validateErrorName s),
    bit (specBusName s), bit (validateBusNamespace s), bit (validatePath s), bit (validateUtf8 s)]

def sigModel (s : Bytes) : String := String.ofList [bit (validateSignature s), bit (validateSingle s)]
def sigSpec (s : Bytes) : String := String.ofList [bit (specSignature s), bit (specSingle s)]

structure Stats where
  lines : Nat := 0
  mismatches : Nat := 0
  known : Nat := 0
  bad : Nat := 0
  nontrivial : Nat := 0
  tree : TreeState := {}
  pc : Dbus.Model.PC.State := {}
  bus : BusState := {}
  auth : AuthState := {}
  acc : Dbus.Model.Accept.Acc := { max := 1 }
  act : ActState := {}

def handle (st : Stats) (line : String) : Stats × Option String :=
  let toks := (line.trimAscii.toString.splitOn " ").filter (· ≠ "")
  let st := { st with lines := st.lines + 1 }
  match toks with
  | "tree" :: rest =>
    let (t, ans) := treeCmd st.tree rest
    ({ st with tree := t, bad := if ans = "bad-op" then st.bad + 1 else st.bad }, some ans)
  | "bus" :: rest =>
    let (b, ans) := busCmd st.bus rest
    ({ st with bus := b, bad := if ans = "bad-op" then st.bad + 1 else st.bad }, some ans)
  | "auth" :: rest =>
    let (b, ans) := authCmd st.auth rest
    ({ st with auth := b, bad := if ans = "bad-op" then st.bad + 1 else st.bad }, some ans)
  | "act" :: rest =>
    let (b, ans) := actCmd st.act rest
    ({ st with act := b, bad := if ans = "bad-op" then st.bad + 1 else st.bad }, some ans)
  | "acc" :: rest =>
    let (b, ans) := accCmd st.acc rest
    ({ st with acc := b, bad := if ans = "bad-op" then st.bad + 1 else st.bad }, some ans)
  | "pc" :: rest =>
    let (p, ans) := pcCmd st.pc rest
    ({ st with pc := p, bad := if ans = "bad-op" then st.bad + 1 else st.bad }, some ans)
  | "helper" :: rest =>
    let ans := helperCmd rest
    ({ st with bad := if ans = "bad-op" then st.bad + 1 else st.bad }, some ans)
  | "match" :: rest =>
    let ans := matchCmd rest
    ({ st with bad := if ans = "bad-op" then st.bad + 1 else st.bad }, some ans)
  | "wire" :: rest =>
    let ans := wireCmd rest
    ({ st with bad := if ans = "bad-op" then st.bad + 1 else st.bad }, some ans)
  | ["syn", hex] =>
    match ofHex hex with
    | some s => (st, some s!"{synModel s} {synSpec s}")
    | none => ({ st with bad := st.bad + 1 }, some "bad-op")
  | ["sig", hex] =>
    match ofHex hex with
    | some s => (st, some s!"{sigModel s} {sigSpec s}")
    | none => ({ st with bad := st.bad + 1 }, some "bad-op")
  | [cmd, hex, impl] =>
    if cmd = "syn" ∨ cmd = "sig" then
      match ofHex hex with
      | some s =>
        let m := if cmd = "syn" then synModel s else sigModel s
        let sp := if cmd = "syn" then synSpec s else sigSpec s
        let st := if impl.toList.contains '1' then { st with nontrivial := st.nontrivial + 1 } else st
        if st.lines = 10 ∨ st.lines = 1000 ∨ st.lines = 100000 then
          (st, some s!"SAMPLE {cmd} {hex} {impl}")
        else if impl = m then
          if m = sp then (st, none)
          else ({ st with known := st.known + 1 }, some s!"KNOWN {cmd} {hex} impl={impl} model={m} spec={sp}")
        else
          ({ st with mismatches := st.mismatches + 1 },
            some s!"MISMATCH {cmd} {hex} impl={impl} model={m} spec={sp}")
      | none => ({ st with bad := st.bad + 1 }, some "bad-op")
    else ({ st with bad := st.bad + 1 }, some "bad-op")
  | [] => (st, none)
  | _ => ({ st with bad := st.bad + 1 }, some "bad-op")

partial def loop (h : IO.FS.Stream) (out : IO.FS.Stream) (st : Stats) : IO Stats := do
  let line ← h.getLine
  if line.isEmpty then return st
  let (st', ans) := handle st line
  match ans with
  | some a => out.putStrLn a
  | none => pure ()
  loop h out st'

def main : IO Unit := do
  let stdin ← IO.getStdin
  let stdout ← IO.getStdout
  let st ← loop stdin stdout {}
  stdout.putStrLn s!"DONE lines={st.lines} mismatches={st.mismatches} known={st.known} bad={st.bad} nontrivial={st.nontrivial}"
