import Dbus.Model.Auth
/- driver commands for the authentication model (C08) -/
open Dbus Dbus.Model.Auth

structure AuthState where
  env : Env := { allowed := none, sock := {}, guid := [], fdPossible := false, selfUid := 0, context := [],
                 parseNumber := parseNumber, lookupUser := fun _ => none, cookies := [] }
  s : S := {}
  allowAnonymous : Bool := false

def optNat (s : String) : Option (Option Nat) :=
  if s = "-" then some none else s.toNat?.map some

def showOptNat : Option Nat → String
  | none => "-"
  | some n => toString n

def showCreds (c : Creds) : String :=
  let g := match c.gids with
    | none => "-"
    | some l => ",".intercalate (l.map toString)
  let lb := match c.label with
    | none => "-"
    | some l => if l = [] then "empty" else toHex l
  s!"{showOptNat c.uid}/{showOptNat c.pid}/{g}/{lb}"

def showPhase : Phase → String
  | .waitingForAuth => "WaitingForAuth"
  | .waitingForData => "WaitingForData"
  | .waitingForBegin => "WaitingForBegin"
  | .authenticated => "Authenticated"
  | .needDisconnect => "NeedDisconnect"

def showMech : Option Mech → String
  | none => "-"
  | some m => String.ofList (m.name.map fun b => Char.ofNat b.toNat)

def hx (b : Bytes) : String := if b = [] then "-" else toHex b

def showAuth (a : AuthState) (new : Bytes) : String :=
  let s := a.s
  s!"st={showPhase s.phase} fail={s.failures} mech={showMech s.mech} id={showCreds s.authorized} des={showCreds s.desired} " ++
  s!"ident={hx s.identity} cookie={showOptNat s.cookieId} fd={if s.fdNeg then 1 else 0} in={s.incoming.length} " ++
  s!"outlen={s.outgoing.length} new={hx new}"

def kv (t : String) : Option (String × String) :=
  match t.splitOn "=" with
  | [k, v] => some (k, v)
  | _ => none

def parseList (v : String) : List String := if v = "-" then [] else v.splitOn ","

def parsePairs (v : String) : Option (List (String × String)) :=
  (parseList v).mapM fun it => match it.splitOn ":" with
    | [a, b] => some (a, b)
    | _ => none

def authSet (a : AuthState) (k v : String) : Option AuthState :=
  let e := a.env
  match k with
  | "uid" => (optNat v).map fun x => { a with env := { e with sock := { e.sock with uid := x } } }
  | "pid" => (optNat v).map fun x => { a with env := { e with sock := { e.sock with pid := x } } }
  | "gids" => if v = "-" then some a else
      ((v.splitOn ",").mapM String.toNat?).map fun l => { a with env := { e with sock := { e.sock with gids := some l } } }
  | "label" => if v = "-" then some a else (ofHex v).map fun l => { a with env := { e with sock := { e.sock with label := some l } } }
  | "mechs" => if v = "*" then some a else
      ((parseList v).mapM ofHex).map fun l => { a with env := { e with allowed := some l } }
  | "fd" => some { a with env := { e with fdPossible := v = "1" } }
  | "anon" => some { a with allowAnonymous := v = "1" }
  | "self" => v.toNat?.map fun n => { a with env := { e with selfUid := n } }
  | "guid" => (ofHex v).map fun g => { a with env := { e with guid := g } }
  | "context" => (ofHex v).map fun g => { a with env := { e with context := g } }
  | "users" => do
      let ps ← parsePairs v
      let tab ← ps.mapM fun (n, u) => do pure ((← ofHex n), (← u.toNat?))
      pure { a with env := { e with lookupUser := fun name => tab.lookup name } }
  | "cookies" => do
      let ps ← parsePairs v
      let tab ← ps.mapM fun (i, c) => do pure ((← i.toNat?), (← ofHex c))
      pure { a with env := { e with cookies := tab } }
  | _ => none

def parseChoice (t : String) : Option Choice :=
  match t.splitOn ":" with
  | [k, id, ch] => do
    let c ← optNat id
    let b ← ofHex ch
    pure { keyring := k = "1", cookie := c, challenge := b }
  | _ => none

def authCmd (a : AuthState) (toks : List String) : AuthState × String :=
  match toks with
  | "reset" :: kvs =>
    let r := kvs.foldl (fun acc t => acc.bind fun a => (kv t).bind fun (k, v) => authSet a k v) (some ({} : AuthState))
    match r with
    | some a => (a, "ok")
    | none => (a, "bad-op")
  | "feed" :: hex :: chs =>
    match ofHex hex, chs.mapM parseChoice with
    | some bs, some cs =>
      let s0 := { a.s with tape := a.s.tape ++ cs }
      let s1 := feed a.env s0 bs
      let a' := { a with s := s1 }
      (a', showAuth a' (s1.outgoing.drop s0.outgoing.length))
    | _, _ => (a, "bad-op")
  | ["drain", n] =>
    match n.toNat? with
    | some n =>
      let s1 := drain a.env a.s n
      let a' := { a with s := s1 }
      (a', showAuth a' (s1.outgoing.drop (a.s.outgoing.length - n)))
    | none => (a, "bad-op")
  | ["sha", hex] =>
    match ofHex hex with
    | some bs => (a, toHex (hexEncode (Dbus.Model.Sha1.sha1 bs)))
    | none => (a, "bad-op")
  | ["parse", hex] =>
    match ofHex hex with
    | some bs => (a, showOptNat (parseNumber bs))
    | none => (a, "bad-op")
  | ["hexdec", hex] =>
    match ofHex hex with
    | some bs => (a, s!"{hx (hexDecode bs).1} {(hexDecode bs).2}")
    | none => (a, "bad-op")
  | _ => (a, "bad-op")
