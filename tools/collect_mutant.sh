#!/bin/bash
# tools/collect_mutant.sh <PROP> : takes /tmp/mut/<PROP>/mutants/x as the next seeded/<PROP>-<n>, removes the agent's worktree, confirms
set -u
P=$1
n=1; while [ -e /verif/seeded/$P-$n ]; do n=$((n+1)); done
D=/verif/seeded/$P-$n
mkdir -p $D && cp -r /tmp/mut/$P/mutants/x/. $D/ || exit 2
rm -rf $D/__pycache__
git -C /repo worktree remove --force /tmp/mut/$P
bash /verif/tools/confirm_mutant.sh $P-$n
echo "$P-$n: $(grep '^RESULT orig' $D/confirm.log)"
