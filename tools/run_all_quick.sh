#!/bin/bash
# runs every quick check on the current tree, one after the other; prints the summary lines
# (under `vp run --with-repo` it uses the repository snapshot; seeds from VERIF_SEEDS, default "1")
cd "$(dirname "$0")/.."
[ -n "${VP_RUN_REPO:-}" ] && export VERIF_REPO=$VP_RUN_REPO && bin/check --setup
for seed in ${VERIF_SEEDS:-${VERIF_SEED:-1}}; do
  for i in 01 02 03 04 05 06 07 08 09 10 11 12 13 14 15 16 17 18 19 20; do
    VERIF_SEED=$seed timeout 1500 bin/check C$i --tier quick 2>&1 | grep -E "^(VIOLATION|C[0-9]+ tier|infrastructure|Traceback)"
    echo "rc=${PIPESTATUS[0]} seed=$seed C$i"
  done
done
