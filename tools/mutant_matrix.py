#!/usr/bin/env python3
"""Runs each seeded change's own property check (quick tier) against a scratch copy of the repository with the
change applied, and prints one line per change:  <id> <property> rc=<exit> <first VIOLATION line or '-'>.
Usage (from a snapshot, so that /repo and /verif/.cache are left alone):
    vp run --with-repo --timeout 3h -- python3 tools/mutant_matrix.py [ID ...]
The repository copy is $VP_RUN_REPO (or the directory given by MATRIX_REPO)."""
import os, sys, subprocess, json, glob, time
ROOT = os.path.dirname(os.path.dirname(os.path.abspath(__file__)))
repo = os.environ.get("MATRIX_REPO") or os.environ.get("VP_RUN_REPO")
if not repo:
    sys.exit("no scratch repository (VP_RUN_REPO / MATRIX_REPO)")
env = dict(os.environ, VERIF_REPO=repo)
ids = sys.argv[1:] or sorted(os.path.basename(d) for d in glob.glob(os.path.join(ROOT, "seeded", "C*-*")))
extra = {"C05-1": ["C19"], "C06-2": ["C09"]}          # changes best seen by another property's check
subprocess.run([os.path.join(ROOT, "bin", "check"), "--setup"], env=env, cwd=ROOT)
out = []
for m in ids:
    patch = os.path.join(ROOT, "seeded", m, "patch.diff")
    prop = m.split("-")[0]
    subprocess.run(["git", "-C", repo, "checkout", "--", "."], check=True)
    if subprocess.run(["git", "-C", repo, "apply", patch]).returncode != 0:
        print("%s %s PATCH-DOES-NOT-APPLY" % (m, prop), flush=True); continue
    for p in [prop] + extra.get(m, []):
        t0 = time.time()
        r = subprocess.run([os.path.join(ROOT, "bin", "check"), p, "--tier", "quick"], env=env, cwd=ROOT, stdout=subprocess.PIPE, stderr=subprocess.STDOUT, text=True)
        v = [l for l in r.stdout.splitlines() if l.startswith("VIOLATION")]
        what = "-"
        if v:
            f = v[0].split("replay=")[1].split()[0]
            try:
                what = json.load(open(f))["what"][:160].replace("\n", " ")
            except Exception:
                pass
        print("%s check=%s rc=%d %.0fs %s | %s" % (m, p, r.returncode, time.time() - t0, v[0].replace(ROOT, "") if v else "-", what), flush=True)
    subprocess.run(["git", "-C", repo, "checkout", "--", "."], check=True)
