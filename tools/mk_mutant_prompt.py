#!/usr/bin/env python3
"""tools/mk_mutant_prompt.py <PROP> [<PROP> ...]
Creates, for each property, a scratch worktree /tmp/mut/<PROP> of /repo's HEAD and writes the self-contained task text
/tmp/mut/prompt-w-<PROP>.txt for a fresh sub-agent: the property's text only (statement, quantifier, anchors from
properties.jsonl), the build recipe, the requirements for the change, and - so that a new change is different in kind -
one line per change already stored under seeded/<PROP>-*/ (what it was and what it needed). Nothing of the checks is
given away.  Afterwards: tools/collect_mutant.sh <PROP>."""
import json, os, subprocess, sys, glob

ROOT = os.path.dirname(os.path.dirname(os.path.abspath(__file__)))
props = {}
for l in open(os.path.join(ROOT, "properties.jsonl")):
    p = json.loads(l)
    props[p["id"]] = p

TEXT = """You are helping to evaluate a verification effort for the freedesktop D-Bus reference implementation (dbus 1.13.18, C). Your job is to act as a careful adversary: produce ONE realistic source change to the repository that BREAKS the semantic property below, while the code still compiles and the repository's existing test suite still passes — the kind of plausible-looking slip or "clean-up" a maintainer could make and a reviewer could miss.

PROPERTY {id} — {title}
Statement: {statement}
Quantified over: {quant}
Code the property is anchored in: {anchors}

YOUR WORKSPACE: the git worktree {wt} (a checkout of the repository; work ONLY there; never touch /repo or /verif; do not read anything under /verif). No network is available.

Build recipe (about 1–2 minutes on this machine):
  cd {wt} && cmake -G Ninja -S . -B _b -DDBUS_BUILD_TESTS=ON -DDBUS_ENABLE_EMBEDDED_TESTS=ON -DDBUS_WITH_GLIB=OFF -DDBUS_ENABLE_DOXYGEN_DOCS=OFF -DDBUS_ENABLE_XML_DOCS=OFF >/dev/null && ninja -C _b >/dev/null
Test suite:  ctest --test-dir _b -j8 --timeout 900     (test-bus-dispatch takes 1–2 minutes; all must pass WITH your change)
When running cmake/ninja/ctest always redirect their output to a file or /dev/null and look only at the tail.

REQUIREMENTS FOR THE CHANGE
* It must need something SPECIFIC to manifest — a particular interleaving or ordering of events, a fault (e.g. allocation failure, partial write, disconnect) at a particular point, a multi-step sequence of operations, an unusual-but-legal input or configuration, or two cooperating code sites that each look fine alone. NOT something that ordinary use (connect, call a method, get a reply) would expose at once, and not a trivial inverted condition on the main path.
* Small (a few lines to a few dozen), in the repository's C sources under dbus/ or bus/ (not tests, not build files), plausible as a well-meant refactoring/optimisation/fix, with an innocent-sounding rationale. It must not introduce compiler warnings-as-errors or crash the existing tests.
* It must genuinely violate the property as stated (for some input/history/schedule in the quantifier), not merely change incidental behaviour (error texts, log output, performance).
* Be original: think about what corner of the anchored code the property depends on that tests are least likely to visit.

DELIVERABLES — put them in {wt}/mutants/x/ :
* patch.diff — `git diff` of the source change only (must apply with `git apply` to a clean checkout of the same commit).
* a demonstration: a small program or script (C against the built libdbus / internal libs, or Python 3 with only the standard library speaking the wire protocol over a unix socket to the built dbus-daemon, or shell) plus  run.sh  with usage `bash run.sh <build-dir>` that builds/runs the demonstration against the given build directory (source tree = "$(dirname "$0")/../.."), and exits 0 when the property holds in the demonstrated scenario, 1 when it is broken, 2 on a setup problem. It must exit 0 on the ORIGINAL code and 1 with your change, deterministically (run it several times), finish within about a minute, run as root, use only temporary files/sockets under /tmp that it cleans up, and need no network.
* notes.md — first paragraph: one or two sentences saying what the change is; then the innocent rationale, exactly which part of the property breaks and for which input/history, what is needed for it to manifest, why the existing tests do not notice.

PROCEDURE: read the anchored code; design the change; build the ORIGINAL tree first and make your demonstration pass on it; apply your change, rebuild, show the demonstration fails; run the whole test suite with the change and make sure it passes (if a test fails, choose a different change). Leave the worktree with your change applied and mutants/x/ filled in. Aim to finish within about 20 minutes. In your final answer give a five-line summary: files changed, what breaks, what is needed to manifest, demo result on original/changed code, ctest result.
"""

for pid in sys.argv[1:]:
    p = props[pid]
    wt = "/tmp/mut/" + pid
    os.makedirs("/tmp/mut", exist_ok=True)
    subprocess.run(["git", "-C", "/repo", "worktree", "remove", "--force", wt], stderr=subprocess.DEVNULL)
    subprocess.run(["git", "-C", "/repo", "worktree", "prune"])
    subprocess.run(["git", "-C", "/repo", "worktree", "add", "-q", "--detach", wt, "HEAD"], check=True)
    t = TEXT.format(id=pid, title=p["title"], statement=p["statement"], quant=p["quantifier"]["text"],
                    anchors=json.dumps(p["anchors"]), wt=wt)
    taken = []
    for d in sorted(glob.glob(os.path.join(ROOT, "seeded", pid + "-*"))):
        try:
            m = json.load(open(os.path.join(d, "meta.json")))
        except Exception:
            continue
        b = " ".join(m.get("breaks", "").replace("#", "").split())[:260]
        taken.append("* %s (needs: %s)" % (b, m.get("needs_to_manifest", "?")[:260]))
    if taken:
        t += "\nALREADY TAKEN for this property (do something different in kind, in another corner of the anchored code):\n" + "\n".join(taken) + "\n"
    fn = "/tmp/mut/prompt-w-%s.txt" % pid
    open(fn, "w").write(t)
    print(fn, len(taken), "taken")
