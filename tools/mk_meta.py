#!/usr/bin/env python3
"""tools/mk_meta.py <ID-n> <property> "<needs>" "<detected by>"  -> seeded/<ID-n>/meta.json"""
import json, sys, os, re
m, prop, needs, det = sys.argv[1:5]
d = os.path.join(os.path.dirname(os.path.dirname(os.path.abspath(__file__))), "seeded", m)
log = open(os.path.join(d, "confirm.log")).read() if os.path.exists(os.path.join(d, "confirm.log")) else ""
res = re.search(r"RESULT orig=(\d+) mutant=(\d+) ctest=(\d+)", log)
meta = {"id": m, "property": prop, "breaks": open(os.path.join(d, "notes.md")).read().split("\n\n")[0][:600],
        "needs_to_manifest": needs,
        "confirmed": {"ran": "tools/confirm_mutant.sh %s (scratch worktree: build original, demo; apply patch, rebuild, demo; ctest -j8)" % m,
                      "demo_rc_original": int(res.group(1)) if res else None, "demo_rc_mutant": int(res.group(2)) if res else None,
                      "ctest_rc_mutant": int(res.group(3)) if res else None},
        "detected_by": det}
json.dump(meta, open(os.path.join(d, "meta.json"), "w"), indent=1)
print(m, meta["confirmed"])
