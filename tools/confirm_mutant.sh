#!/bin/bash
# Confirms a seeded change in a scratch worktree: builds original + mutant, runs the demo on
# both, runs the repository's test-suite on the mutant. Usage: tools/confirm_mutant.sh <ID-n>
set -u
M=$1
D=/verif/seeded/$M
W=/tmp/cm-$M
LOG=$D/confirm.log
exec > "$LOG" 2>&1
git -C /repo worktree remove --force $W 2>/dev/null
git -C /repo worktree add -q --detach $W HEAD || exit 2
cd $W
cmake -G Ninja -S $W -B $W/_b -DDBUS_BUILD_TESTS=ON -DDBUS_ENABLE_EMBEDDED_TESTS=ON -DDBUS_WITH_GLIB=OFF -DDBUS_ENABLE_DOXYGEN_DOCS=OFF -DDBUS_ENABLE_XML_DOCS=OFF > /dev/null || exit 2
ninja -C $W/_b > /dev/null || { echo "ORIGINAL BUILD FAILED"; exit 2; }
mkdir -p $W/mutants && cp -r $D $W/mutants/x
R=$W/mutants/x
echo "== demo on original"; (cd $R && bash ./run.sh $W/_b); ORIG=$?
echo "demo_rc_original=$ORIG"
git apply $D/patch.diff || { echo "PATCH DOES NOT APPLY"; exit 2; }
ninja -C $W/_b > /dev/null || { echo "MUTANT BUILD FAILED"; exit 2; }
echo "== demo on mutant"; (cd $R && bash ./run.sh $W/_b); MUT=$?
echo "demo_rc_mutant=$MUT"
echo "== test-suite on mutant"
ctest --test-dir $W/_b -j8 --timeout 900 2>&1 | tail -8
CT=${PIPESTATUS[0]}
echo "ctest_rc=$CT"
cd /; git -C /repo worktree remove --force $W
echo "RESULT orig=$ORIG mutant=$MUT ctest=$CT"
