#!/bin/bash
# runs thorough tiers one after the other against the repository snapshot of a `vp run --with-repo`
export VERIF_REPO=${VP_RUN_REPO:-/repo}
bin/check --setup
for c in "$@"; do
  timeout 3000 bin/check $c --tier thorough 2>&1 | grep -E "^(VIOLATION|KNOWN|C[0-9]+ tier|infra|Traceback)" | cut -c1-300
  echo "rc=${PIPESTATUS[0]} $c"
done
