#!/usr/bin/env python3
"""Writes MANIFEST.json from the table below (kept next to the code so it stays current)."""
import json, os, sys
ROOT = os.path.dirname(os.path.dirname(os.path.abspath(__file__)))
sys.path.insert(0, ROOT)
from verifkit.manifest_data import CHECKS, NOT_APPLICABLE, ENGINES, HOOK_COMMITS

TB = ("Trusted base: Lean 4.33 kernel and the axioms printed by #print axioms for each listed theorem "
      "(subset of propext, Classical.choice, Quot.sound; no native_decide/bv_decide, no sorry/admit/axiom); the Spec layer "
      "(lean/Dbus/Spec) as the meaning of 'right'; T-tie gen/tab_*.c+render.py+gcc; K-tie harness, generators and the compiled "
      "Lean driver. Modelled, not verified: every line of C; heap safety/termination are sanitizer observations on the generated inputs. ")

def main():
    checks = []
    for pid, c in sorted(CHECKS.items()):
        checks.append({
            "property_id": pid,
            "quick_cmd": "bin/check %s --tier quick" % pid,
            "thorough_cmd": "bin/check %s --tier thorough" % pid,
            "evidence_file": "evidence/%s.json" % pid,
            "replay_cmd_template": "bin/check %s --replay {path}" % pid,
            "engine": c.get("engine", "lean-model"),
            "level_claimed": {"category": "proof", "text": c["text"], "design_ref": c.get("design_ref", "DESIGN.md §4 " + pid)},
            "level_note": TB + c.get("note", ""),
            "technique": c.get("technique", "Lean 4 theorems over a hand-written model + tables regenerated from the compiled source (decide +kernel) + differential correspondence run against the working tree"),
        })
    m = {
        "version": 1,
        "setup_cmd": "bin/check --setup",
        "hooks": {"guard": "DBUS_VERIF",
                  "enable": "checks build /repo's working tree out of tree into /verif/.cache/build with -DDBUS_VERIF -fsanitize=address,undefined (cmake -DCMAKE_C_FLAGS=...)",
                  "baseline_off_cmd": "cmake --build /repo/_build && ctest --test-dir /repo/_build -j8 --timeout 900",
                  "source_commits": HOOK_COMMITS, "add_only": True},
        "engines": ENGINES,
        "checks": checks,
        "not_applicable": [{"property_id": k, "reason": v} for k, v in sorted(NOT_APPLICABLE.items())],
        "notes": "See DESIGN.md. known-findings.json lists recorded defects; fix: commits in /repo are listed there as fixed.",
    }
    with open(os.path.join(ROOT, "MANIFEST.json"), "w") as f:
        json.dump(m, f, indent=1)
    try:
        import jsonschema
    except ImportError:
        print("MANIFEST.json written (jsonschema not importable here; validate with python3-vt)"); return
    jsonschema.validate(m, json.load(open("/root/.vp/MANIFEST.schema.json")))
    print("MANIFEST.json: %d checks, %d not_applicable" % (len(checks), len(m["not_applicable"])))

main()
