/* the program the activation helper is made to execute in the C19 check: records its argument
 * vector (hex words, one line) in the file named by VERIF_REC */
#include <stdio.h>
#include <stdlib.h>
#include <string.h>
int main (int argc, char **argv)
{
  const char *p = getenv ("VERIF_REC");
  FILE *f = p ? fopen (p, "w") : NULL;
  int i;
  if (!f) return 90;
  for (i = 0; i < argc; i++)
    {
      const unsigned char *s = (const unsigned char *) argv[i];
      if (i) fputc (',', f);
      if (!*s) fputc ('e', f);
      for (; *s; s++) fprintf (f, "%02x", *s);
    }
  fputc ('\n', f);
  fclose (f);
  return 0;
}
