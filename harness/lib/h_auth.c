/* K-tie harness for C08: a real server-side DBusAuth (dbus/dbus-auth.c, included so that its
 * internal state is visible) is fed the bytes a peer would send; after every operation the
 * whole state is printed in the format of lean/Driver/Auth.lean (showAuth).
 * The DBUS_COOKIE_SHA1 keyring lives under $DBUS_TEST_HOMEDIR (set by the caller). */
#include <config.h>
#include "dbus/dbus-auth.c"
#include "dbus/dbus-sha.h"
#include "dbus/dbus-userdb.h"
#include <stdio.h>
#include <stdlib.h>
#include <string.h>
#include <unistd.h>

static unsigned char *unhex (const char *h, int *len)
{
  size_t n = strlen (h);
  unsigned char *b = malloc (n / 2 + 2);
  int i = 0;
  if (!strcmp (h, "-")) { *len = 0; b[0] = 0; return b; }
  for (; h[0] && h[1]; h += 2) { unsigned v; sscanf (h, "%2x", &v); b[i++] = (unsigned char) v; }
  b[i] = 0;
  *len = i;
  return b;
}

static void hexn (const unsigned char *s, int n)
{
  int i;
  if (n == 0) { printf ("-"); return; }
  for (i = 0; i < n; i++) printf ("%02x", s[i]);
}

static void show_creds (DBusCredentials *c)
{
  const dbus_gid_t *gids; size_t n, i;
  const char *label;
  if (_dbus_credentials_get_unix_uid (c) == DBUS_UID_UNSET) printf ("-"); else printf ("%lu", (unsigned long) _dbus_credentials_get_unix_uid (c));
  if (_dbus_credentials_get_pid (c) == DBUS_PID_UNSET) printf ("/-"); else printf ("/%lu", (unsigned long) _dbus_credentials_get_pid (c));
  printf ("/");
  if (_dbus_credentials_get_unix_gids (c, &gids, &n))
    for (i = 0; i < n; i++) printf ("%s%lu", i ? "," : "", (unsigned long) gids[i]);
  else
    printf ("-");
  label = _dbus_credentials_get_linux_security_label (c);
  printf ("/");
  if (label == NULL) printf ("-"); else if (!*label) printf ("empty"); else hexn ((const unsigned char *) label, strlen (label));
}

static DBusAuth *auth;
static char **mechs;

static void show (int old_outlen)
{
  int outlen = _dbus_string_get_length (&auth->outgoing);
  printf ("st=%s fail=%d mech=%s id=", auth->state->name, DBUS_AUTH_SERVER (auth)->failures, auth->mech ? auth->mech->mechanism : "-");
  show_creds (auth->authorized_identity);
  printf (" des=");
  show_creds (auth->desired_identity);
  printf (" ident=");
  hexn ((const unsigned char *) _dbus_string_get_const_data (&auth->identity), _dbus_string_get_length (&auth->identity));
  if (auth->cookie_id < 0) printf (" cookie=-"); else printf (" cookie=%d", auth->cookie_id);
  printf (" fd=%d in=%d outlen=%d new=", auth->unix_fd_negotiated ? 1 : 0, _dbus_string_get_length (&auth->incoming), outlen);
  if (outlen > old_outlen)
    hexn ((const unsigned char *) _dbus_string_get_const_data (&auth->outgoing) + old_outlen, outlen - old_outlen);
  else
    printf ("-");
  printf ("\n");
}

static void work (void)
{
  if (_dbus_auth_do_work (auth) == DBUS_AUTH_STATE_WAITING_FOR_MEMORY)
    { fprintf (stderr, "unexpected WAITING_FOR_MEMORY\n"); exit (3); }
}

static void reset (char **kv, int n)
{
  DBusString guid, ctx;
  DBusCredentials *c = _dbus_credentials_new ();
  int i, fd = 0, len;
  unsigned char *g = NULL, *cx = NULL;
  if (auth) { _dbus_auth_unref (auth); auth = NULL; }
  if (mechs) { dbus_free_string_array (mechs); mechs = NULL; }
  for (i = 0; i < n; i++)
    {
      char *eq = strchr (kv[i], '='), *v;
      if (!eq) continue;
      *eq = 0; v = eq + 1;
      if (!strcmp (kv[i], "uid") && strcmp (v, "-")) _dbus_credentials_add_unix_uid (c, strtoul (v, NULL, 10));
      else if (!strcmp (kv[i], "pid") && strcmp (v, "-")) _dbus_credentials_add_pid (c, strtoul (v, NULL, 10));
      else if (!strcmp (kv[i], "gids") && strcmp (v, "-"))
        {
          dbus_gid_t *gs = dbus_new0 (dbus_gid_t, 64); size_t k = 0; char *t;
          for (t = strtok (v, ","); t && k < 64; t = strtok (NULL, ",")) gs[k++] = strtoul (t, NULL, 10);
          _dbus_credentials_take_unix_gids (c, gs, k);
        }
      else if (!strcmp (kv[i], "label") && strcmp (v, "-"))
        { unsigned char *l = unhex (v, &len); _dbus_credentials_add_linux_security_label (c, (char *) l); free (l); }
      else if (!strcmp (kv[i], "mechs") && strcmp (v, "*"))
        {
          int k = 0; char *t;
          mechs = dbus_new0 (char *, 16);
          if (strcmp (v, "-"))
            for (t = strtok (v, ","); t && k < 15; t = strtok (NULL, ","))
              { unsigned char *m = unhex (t, &len); mechs[k++] = _dbus_strdup ((char *) m); free (m); }
        }
      else if (!strcmp (kv[i], "fd")) fd = atoi (v);
      else if (!strcmp (kv[i], "guid")) g = unhex (v, &len);
      else if (!strcmp (kv[i], "context")) cx = unhex (v, &len);
    }
  _dbus_string_init_const (&guid, g ? (char *) g : "");
  auth = _dbus_auth_server_new (&guid);
  if (cx)
    { _dbus_string_init_const (&ctx, (char *) cx); _dbus_auth_set_context (auth, &ctx); }
  _dbus_auth_set_credentials (auth, c);
  if (mechs) _dbus_auth_set_mechanisms (auth, (const char **) mechs);
  _dbus_auth_set_unix_fd_possible (auth, fd);
  _dbus_credentials_unref (c);
  free (g); free (cx);
  printf ("ok\n");
}

int main (void)
{
  static char line[1 << 20];
  while (fgets (line, sizeof line, stdin))
    {
      char *tok[64]; int n = 0; char *t;
      for (t = strtok (line, " \r\n"); t && n < 64; t = strtok (NULL, " \r\n")) tok[n++] = t;
      if (n < 2 || strcmp (tok[0], "auth")) { printf ("bad-op\n"); fflush (stdout); continue; }
      if (!strcmp (tok[1], "reset")) reset (tok + 2, n - 2);
      else if (!strcmp (tok[1], "feed") && n >= 3 && auth)
        {
          int len, old = _dbus_string_get_length (&auth->outgoing); unsigned char *b = unhex (tok[2], &len);
          DBusString *buf;
          _dbus_auth_get_buffer (auth, &buf);
          if (!_dbus_string_append_len (buf, (const char *) b, len)) exit (3);
          _dbus_auth_return_buffer (auth, buf);
          free (b);
          work ();
          show (old);
        }
      else if (!strcmp (tok[1], "drain") && n == 3 && auth)
        {
          int k = atoi (tok[2]), have = _dbus_string_get_length (&auth->outgoing);
          if (k > have) k = have;
          if (k > 0) _dbus_auth_bytes_sent (auth, k);
          work ();
          show (have - k);
        }
      else if (!strcmp (tok[1], "sha") && n == 3)
        {
          int len; unsigned char *b = unhex (tok[2], &len); DBusString in, out;
          _dbus_string_init_const_len (&in, (char *) b, len);
          if (!_dbus_string_init (&out) || !_dbus_sha_compute (&in, &out)) exit (3);
          hexn ((const unsigned char *) _dbus_string_get_const_data (&out), _dbus_string_get_length (&out));
          printf ("\n");
          _dbus_string_free (&out); free (b);
        }
      else if (!strcmp (tok[1], "parse") && n == 3)
        {
          int len; unsigned char *b = unhex (tok[2], &len); DBusString in; unsigned long v;
          _dbus_string_init_const_len (&in, (char *) b, len);
          if (_dbus_is_a_number (&in, &v)) printf ("%lu\n", v); else printf ("-\n");
          free (b);
        }
      else if (!strcmp (tok[1], "hexdec") && n == 3)
        {
          int len, end; unsigned char *b = unhex (tok[2], &len); DBusString in, out;
          _dbus_string_init_const_len (&in, (char *) b, len);
          if (!_dbus_string_init (&out) || !_dbus_string_hex_decode (&in, 0, &end, &out, 0)) exit (3);
          hexn ((const unsigned char *) _dbus_string_get_const_data (&out), _dbus_string_get_length (&out));
          printf (" %d\n", end);
          _dbus_string_free (&out); free (b);
        }
      else
        printf ("bad-op\n");
      fflush (stdout);
    }
  if (auth) _dbus_auth_unref (auth);
  if (mechs) dbus_free_string_array (mechs);
  return 0;
}
