/* A connected pair of real DBusConnections in one process (server side / client side),
 * made through the public API only: dbus_server_listen + dbus_connection_open_private. */
#ifndef VERIF_PAIR_H
#define VERIF_PAIR_H
#include <dbus/dbus.h>
#include <poll.h>
#include <stdio.h>
#include <stdlib.h>
#include <string.h>

static DBusWatch *pair_server_watch[8];
static int pair_n_watch;
static DBusConnection *pair_server_conn;

static dbus_bool_t pair_add_watch (DBusWatch *w, void *d) { (void) d; if (pair_n_watch < 8) pair_server_watch[pair_n_watch++] = w; return TRUE; }
static void pair_remove_watch (DBusWatch *w, void *d) { int i; (void) d; for (i = 0; i < pair_n_watch; i++) if (pair_server_watch[i] == w) pair_server_watch[i] = pair_server_watch[--pair_n_watch]; }
static void pair_toggle_watch (DBusWatch *w, void *d) { (void) w; (void) d; }
static void pair_new_conn (DBusServer *s, DBusConnection *c, void *d) { (void) s; (void) d; pair_server_conn = dbus_connection_ref (c); }

static void pair_pump_server (void)
{
  int i;
  for (i = 0; i < pair_n_watch; i++)
    {
      struct pollfd p;
      if (!dbus_watch_get_enabled (pair_server_watch[i])) continue;
      p.fd = dbus_watch_get_unix_fd (pair_server_watch[i]); p.events = POLLIN; p.revents = 0;
      if (poll (&p, 1, 0) > 0) dbus_watch_handle (pair_server_watch[i], DBUS_WATCH_READABLE);
    }
}

/* returns 0 on success; *srv is the accepting side, *cli the connecting side */
static int pair_make (DBusConnection **srv, DBusConnection **cli)
{
  DBusError err = DBUS_ERROR_INIT;
  DBusServer *server = dbus_server_listen ("unix:tmpdir=/tmp", &err);
  char *addr;
  int i;
  if (!server) { fprintf (stderr, "listen: %s\n", err.message); return 1; }
  dbus_server_set_watch_functions (server, pair_add_watch, pair_remove_watch, pair_toggle_watch, NULL, NULL);
  dbus_server_set_new_connection_function (server, pair_new_conn, NULL, NULL);
  addr = dbus_server_get_address (server);
  *cli = dbus_connection_open_private (addr, &err);
  dbus_free (addr);
  if (!*cli) { fprintf (stderr, "open: %s\n", err.message); return 1; }
  dbus_connection_set_exit_on_disconnect (*cli, FALSE);
  for (i = 0; i < 2000 && !(pair_server_conn && dbus_connection_get_is_authenticated (*cli)
                            && dbus_connection_get_is_authenticated (pair_server_conn)); i++)
    {
      pair_pump_server ();
      dbus_connection_read_write_dispatch (*cli, 1);
      if (pair_server_conn) dbus_connection_read_write_dispatch (pair_server_conn, 1);
    }
  if (!pair_server_conn) { fprintf (stderr, "no server connection\n"); return 1; }
  dbus_connection_set_exit_on_disconnect (pair_server_conn, FALSE);
  *srv = pair_server_conn;
  dbus_server_disconnect (server);
  dbus_server_unref (server);
  return 0;
}

/* pump both sides until neither has anything to do for a few rounds */
static void pair_settle (DBusConnection *a, DBusConnection *b)
{
  int idle = 0, n = 0;
  while (idle < 3 && n++ < 10000)
    {
      dbus_bool_t busy = FALSE;
      dbus_connection_read_write (a, 0);
      dbus_connection_read_write (b, 0);
      while (dbus_connection_dispatch (a) == DBUS_DISPATCH_DATA_REMAINS) busy = TRUE;
      while (dbus_connection_dispatch (b) == DBUS_DISPATCH_DATA_REMAINS) busy = TRUE;
      if (dbus_connection_has_messages_to_send (a) || dbus_connection_has_messages_to_send (b)) busy = TRUE;
      idle = busy ? 0 : idle + 1;
    }
}
#endif
