/* canonical dump of a DBusMessage through the public accessor and iterator API
 * (format shared with lean/Driver/Wire.lean: showMsg / showVal) */
#ifndef VERIF_DUMP_H
#define VERIF_DUMP_H
#include <dbus/dbus.h>
#include <stdio.h>
#include <string.h>
#include <stdint.h>

static void dump_hex_str (FILE *o, const char *s)
{
  if (s == NULL) { fputs ("-", o); return; }
  if (!*s) { fputs ("empty", o); return; }
  for (; *s; s++) fprintf (o, "%02x", (unsigned char) *s);
}

static void dump_val_hex (FILE *o, const char *s)
{
  if (!*s) { fputs ("-", o); return; }
  for (; *s; s++) fprintf (o, "%02x", (unsigned char) *s);
}

static void dump_iter (FILE *o, DBusMessageIter *it);

static void dump_one (FILE *o, DBusMessageIter *it)
{
  int t = dbus_message_iter_get_arg_type (it);
  switch (t)
    {
    case DBUS_TYPE_BYTE: { unsigned char v; dbus_message_iter_get_basic (it, &v); fprintf (o, "y:%u", v); break; }
    case DBUS_TYPE_BOOLEAN: { dbus_bool_t v; dbus_message_iter_get_basic (it, &v); fprintf (o, "b:%u", (unsigned) v); break; }
    case DBUS_TYPE_INT16: { dbus_int16_t v; dbus_message_iter_get_basic (it, &v); fprintf (o, "n:%u", (unsigned) (dbus_uint16_t) v); break; }
    case DBUS_TYPE_UINT16: { dbus_uint16_t v; dbus_message_iter_get_basic (it, &v); fprintf (o, "q:%u", (unsigned) v); break; }
    case DBUS_TYPE_INT32: { dbus_int32_t v; dbus_message_iter_get_basic (it, &v); fprintf (o, "i:%u", (unsigned) (dbus_uint32_t) v); break; }
    case DBUS_TYPE_UINT32: { dbus_uint32_t v; dbus_message_iter_get_basic (it, &v); fprintf (o, "u:%u", (unsigned) v); break; }
    case DBUS_TYPE_UNIX_FD: fprintf (o, "h:*"); break;
    case DBUS_TYPE_INT64: { dbus_int64_t v; dbus_message_iter_get_basic (it, &v); fprintf (o, "x:%llu", (unsigned long long) (dbus_uint64_t) v); break; }
    case DBUS_TYPE_UINT64: { dbus_uint64_t v; dbus_message_iter_get_basic (it, &v); fprintf (o, "t:%llu", (unsigned long long) v); break; }
    case DBUS_TYPE_DOUBLE: { double v; uint64_t r; dbus_message_iter_get_basic (it, &v); memcpy (&r, &v, 8); fprintf (o, "d:%llu", (unsigned long long) r); break; }
    case DBUS_TYPE_STRING: { const char *v; dbus_message_iter_get_basic (it, &v); fputs ("s:", o); dump_val_hex (o, v); break; }
    case DBUS_TYPE_OBJECT_PATH: { const char *v; dbus_message_iter_get_basic (it, &v); fputs ("o:", o); dump_val_hex (o, v); break; }
    case DBUS_TYPE_SIGNATURE: { const char *v; dbus_message_iter_get_basic (it, &v); fputs ("g:", o); dump_val_hex (o, v); break; }
    case DBUS_TYPE_VARIANT:
      {
        DBusMessageIter sub; char *sig;
        dbus_message_iter_recurse (it, &sub);
        sig = dbus_message_iter_get_signature (&sub);
        fprintf (o, "V[%s|", sig); dbus_free (sig);
        dump_one (o, &sub);
        fputs ("]", o);
        break;
      }
    case DBUS_TYPE_ARRAY:
      {
        DBusMessageIter sub; char *sig = dbus_message_iter_get_signature (it);
        fprintf (o, "A[%s|", sig + 1); dbus_free (sig);
        dbus_message_iter_recurse (it, &sub);
        dump_iter (o, &sub);
        fputs ("]", o);
        break;
      }
    case DBUS_TYPE_STRUCT:
    case DBUS_TYPE_DICT_ENTRY:
      {
        DBusMessageIter sub;
        fputs (t == DBUS_TYPE_STRUCT ? "S[" : "E[", o);
        dbus_message_iter_recurse (it, &sub);
        dump_iter (o, &sub);
        fputs ("]", o);
        break;
      }
    default:
      fprintf (o, "?%d", t);
    }
}

static void dump_iter (FILE *o, DBusMessageIter *it)
{
  int first = 1;
  while (dbus_message_iter_get_arg_type (it) != DBUS_TYPE_INVALID)
    {
      if (!first) fputs (",", o);
      first = 0;
      dump_one (o, it);
      dbus_message_iter_next (it);
    }
}
#endif
