/* K-tie harness for C01/C11: hands byte strings to the message parser of the working tree
 * (dbus_message_demarshal, or the connection's DBusMessageLoader) and prints the verdict and,
 * for accepted messages, a canonical dump through the public accessor / iterator API. */
#include <config.h>
#include <stdlib.h>
#include <fcntl.h>
#include <unistd.h>
#include "dbus/dbus-internals.h"
#include "dbus/dbus-message-internal.h"
#include "dbus/dbus-message-private.h"
#include "dump.h"

static unsigned char *unhex (const char *h, int *len)
{
  size_t n = strlen (h);
  unsigned char *b = malloc (n / 2 + 1);
  int i = 0;
  if (!strcmp (h, "-")) { *len = 0; return b; }
  for (; h[0] && h[1]; h += 2) { unsigned v; sscanf (h, "%2x", &v); b[i++] = (unsigned char) v; }
  *len = i;
  return b;
}

static void dump_msg_nonl (DBusMessage *m, int consumed);
static void dump_msg (DBusMessage *m, int consumed)
{
  dump_msg_nonl (m, consumed);
  printf ("\n");
}
static void dump_msg_nonl (DBusMessage *m, int consumed)
{
  dbus_uint32_t fds = 0;
  int has_fds, flags = 0;
  DBusMessageIter it;
  unsigned rs;
  if (dbus_message_get_no_reply (m)) flags |= 1;
  if (!dbus_message_get_auto_start (m)) flags |= 2;
  if (dbus_message_get_allow_interactive_authorization (m)) flags |= 4;
  printf ("ok n=%d e=%c t=%d f=%d ser=%u path=", consumed, _dbus_header_get_byte_order (&m->header),
          dbus_message_get_type (m), flags, dbus_message_get_serial (m));
  dump_hex_str (stdout, dbus_message_get_path (m));
  printf (" iface="); dump_hex_str (stdout, dbus_message_get_interface (m));
  printf (" member="); dump_hex_str (stdout, dbus_message_get_member (m));
  printf (" err="); dump_hex_str (stdout, dbus_message_get_error_name (m));
  rs = dbus_message_get_reply_serial (m);
  if (rs) printf (" rs=%u", rs); else printf (" rs=-");
  printf (" dest="); dump_hex_str (stdout, dbus_message_get_destination (m));
  printf (" sender="); dump_hex_str (stdout, dbus_message_get_sender (m));
  printf (" sig=");
  {
    const DBusString *ts; int tp;
    /* "-" when the SIGNATURE field is absent, "empty" when present and empty */
    if (_dbus_header_get_field_raw (&m->header, DBUS_HEADER_FIELD_SIGNATURE, &ts, &tp))
      dump_hex_str (stdout, dbus_message_get_signature (m));
    else
      fputs ("-", stdout);
  }
  has_fds = _dbus_header_get_field_basic (&m->header, DBUS_HEADER_FIELD_UNIX_FDS, DBUS_TYPE_UINT32, &fds);
  if (has_fds) printf (" fds=%u", fds); else printf (" fds=-");
  printf (" ci="); dump_hex_str (stdout, dbus_message_get_container_instance (m));
  printf (" body=");
  if (dbus_message_iter_init (m, &it)) dump_iter (stdout, &it);
}

int
main (void)
{
  static char line[1 << 22];
  while (fgets (line, sizeof line, stdin))
    {
      if (!strncmp (line, "wire chunks ", 12))
        {
          /* wire chunks <max> <hex>... : one loader, one feed per chunk */
          char *save = NULL, *tok = strtok_r (line + 12, " \n", &save);
          DBusMessageLoader *l = _dbus_message_loader_new ();
          DBusMessage *m; int nm = 0;
          static char out[1 << 22]; FILE *mem = fmemopen (out, sizeof out, "w");
          _dbus_message_loader_set_max_message_size (l, atol (tok));
          while ((tok = strtok_r (NULL, " \n", &save)) != NULL)
            {
              int clen; unsigned char *cb = unhex (tok, &clen);
              DBusString *b;
              _dbus_message_loader_get_buffer (l, &b, NULL, NULL);
              if (!_dbus_string_append_len (b, (const char *) cb, clen)) return 2;
              _dbus_message_loader_return_buffer (l, b);
              free (cb);
              if (!_dbus_message_loader_queue_messages (l)) return 2;
              while ((m = _dbus_message_loader_pop_message (l)) != NULL)
                {
                  FILE *save_out = stdout;
                  nm++;
                  fputs (" | ", mem);
                  stdout = mem; dump_msg_nonl (m, 0); stdout = save_out;
                  dbus_message_unref (m);
                }
              if (_dbus_message_loader_get_is_corrupted (l)) break;   /* the transport disconnects */
            }
          fclose (mem);
          printf ("msgs=%d corrupt=%d%s\n", nm, _dbus_message_loader_get_is_corrupted (l) ? 1 : 0, out);
          out[0] = 0;
          _dbus_message_loader_unref (l);
          fflush (stdout);
          continue;
        }
      char cmd[32]; static char hex[1 << 22]; long mx = 0; int nfds = 0;
      int n = sscanf (line, "wire %31s %4194000s %ld %d", cmd, hex, &mx, &nfds);
      int len; unsigned char *buf;
      if (n < 2) { printf ("bad-op\n"); continue; }
      buf = unhex (hex, &len);
      if (!strcmp (cmd, "demarshal"))
        {
          DBusError e = DBUS_ERROR_INIT;
          DBusMessage *m = dbus_message_demarshal ((const char *) buf, len, &e);
          if (m)
            {
              dump_msg (m, dbus_message_demarshal_bytes_needed ((const char *) buf, len));
              dbus_message_unref (m);
            }
          else
            {
              printf ("%s\n", dbus_error_has_name (&e, DBUS_ERROR_NO_MEMORY) ? "none" : "corrupt");
              dbus_error_free (&e);
            }
        }
      else if (!strcmp (cmd, "load") && n == 4)
        {
          DBusMessageLoader *l = _dbus_message_loader_new ();
          DBusString *b; DBusMessage *m;
          _dbus_message_loader_set_max_message_size (l, mx);
          if (nfds > 0)
            {
              int *fds; unsigned max_fds, i;
              _dbus_message_loader_get_unix_fds (l, &fds, &max_fds);
              for (i = 0; i < (unsigned) nfds && i < max_fds; i++) fds[i] = open ("/dev/null", O_RDONLY | O_CLOEXEC);
              _dbus_message_loader_return_unix_fds (l, fds, i);
            }
          _dbus_message_loader_get_buffer (l, &b, NULL, NULL);
          if (!_dbus_string_append_len (b, (const char *) buf, len)) return 2;
          _dbus_message_loader_return_buffer (l, b);
          if (!_dbus_message_loader_queue_messages (l)) return 2;
          m = _dbus_message_loader_pop_message (l);
          if (m)
            {
              dump_msg (m, dbus_message_demarshal_bytes_needed ((const char *) buf, len));
              dbus_message_unref (m);
            }
          else if (_dbus_message_loader_get_is_corrupted (l))
            printf ("corrupt\n");
          else
            printf ("incomplete\n");
          _dbus_message_loader_unref (l);
        }
      else
        printf ("bad-op\n");
      free (buf);
      fflush (stdout);
    }
  return 0;
}
