/* K-tie harness for C01/C11: hands byte strings to the message parser of the working tree
 * (dbus_message_demarshal, or the connection's DBusMessageLoader) and prints the verdict and,
 * for accepted messages, a canonical dump through the public accessor / iterator API. */
#include <config.h>
#include <stdlib.h>
#include <fcntl.h>
#include <unistd.h>
#include "dbus/dbus-internals.h"
#include "dbus/dbus-message-internal.h"
#include "dbus/dbus-message-private.h"
#include "dbus/dbus-marshal-header.h"
#include "dump.h"
#include <dirent.h>

static int
count_open_fds (void)
{
  DIR *d = opendir ("/proc/self/fd"); struct dirent *e; int n = 0;
  if (!d) return -1;
  while ((e = readdir (d)) != NULL) if (e->d_name[0] != '.') n++;
  closedir (d);
  return n;
}

static unsigned char *unhex (const char *h, int *len)
{
  size_t n = strlen (h);
  unsigned char *b = malloc (n / 2 + 1);
  int i = 0;
  if (!strcmp (h, "-")) { *len = 0; return b; }
  for (; h[0] && h[1]; h += 2) { unsigned v; sscanf (h, "%2x", &v); b[i++] = (unsigned char) v; }
  *len = i;
  return b;
}

static void dump_msg_nonl (DBusMessage *m, int consumed);
static void dump_msg (DBusMessage *m, int consumed)
{
  dump_msg_nonl (m, consumed);
  printf ("\n");
}
static void dump_msg_nonl (DBusMessage *m, int consumed)
{
  dbus_uint32_t fds = 0;
  int has_fds, flags = 0;
  DBusMessageIter it;
  unsigned rs;
  if (dbus_message_get_no_reply (m)) flags |= 1;
  if (!dbus_message_get_auto_start (m)) flags |= 2;
  if (dbus_message_get_allow_interactive_authorization (m)) flags |= 4;
  printf ("ok n=%d e=%c t=%d f=%d ser=%u path=", consumed, _dbus_header_get_byte_order (&m->header),
          dbus_message_get_type (m), flags, dbus_message_get_serial (m));
  dump_hex_str (stdout, dbus_message_get_path (m));
  printf (" iface="); dump_hex_str (stdout, dbus_message_get_interface (m));
  printf (" member="); dump_hex_str (stdout, dbus_message_get_member (m));
  printf (" err="); dump_hex_str (stdout, dbus_message_get_error_name (m));
  rs = dbus_message_get_reply_serial (m);
  if (rs) printf (" rs=%u", rs); else printf (" rs=-");
  printf (" dest="); dump_hex_str (stdout, dbus_message_get_destination (m));
  printf (" sender="); dump_hex_str (stdout, dbus_message_get_sender (m));
  printf (" sig=");
  {
    const DBusString *ts; int tp;
    /* "-" when the SIGNATURE field is absent, "empty" when present and empty */
    if (_dbus_header_get_field_raw (&m->header, DBUS_HEADER_FIELD_SIGNATURE, &ts, &tp))
      dump_hex_str (stdout, dbus_message_get_signature (m));
    else
      fputs ("-", stdout);
  }
  has_fds = _dbus_header_get_field_basic (&m->header, DBUS_HEADER_FIELD_UNIX_FDS, DBUS_TYPE_UINT32, &fds);
  if (has_fds) printf (" fds=%u", fds); else printf (" fds=-");
  printf (" ci="); dump_hex_str (stdout, dbus_message_get_container_instance (m));
  printf (" body=");
  if (dbus_message_iter_init (m, &it)) dump_iter (stdout, &it);
}

static int oom_mode, oom_changed, oom_compare = 1;

/* header and body bytes of a message under construction */
static dbus_bool_t
same_bytes (DBusMessage *m, const DBusString *h, const DBusString *b)
{
  return _dbus_string_equal (&m->header.data, h) && _dbus_string_equal (&m->body, b);
}

/* ok = expr; in oombuild mode expr is first tried with each of its allocations failing in turn */
#define OOM_TRY(m, ok, expr) do { \
    if (!oom_mode) { (ok) = (expr); } \
    else { \
      int k_; DBusString h_, b_; \
      if (!_dbus_string_init (&h_) || !_dbus_string_init (&b_) || \
          !_dbus_string_copy (&(m)->header.data, 0, &h_, 0) || !_dbus_string_copy (&(m)->body, 0, &b_, 0)) exit (3); \
      (ok) = FALSE; \
      for (k_ = 1; k_ < 400; k_++) { \
        _dbus_set_fail_alloc_counter (k_ - 1); \
        (ok) = (expr); \
        if (_dbus_get_fail_alloc_counter () < _DBUS_INT_MAX / 2) { _dbus_set_fail_alloc_counter (_DBUS_INT_MAX); break; } \
        _dbus_set_fail_alloc_counter (_DBUS_INT_MAX); \
        if (ok) break; \
        n_oom_failures++; \
        if (oom_compare && !same_bytes ((m), &h_, &b_)) { oom_changed = 1; break; } \
      } \
      if (!(ok) && !oom_changed) (ok) = (expr); \
      _dbus_string_free (&h_); _dbus_string_free (&b_); \
    } } while (0)

static long n_oom_failures;

/* one header edit, as named by the script token */
static dbus_bool_t
edit_op (DBusMessage *m, const char *tok)
{
  char kind[16] = "", t[8] = ""; int code = 0; static char val[1 << 16];
  dbus_bool_t ok = TRUE;
  val[0] = 0;
  if (sscanf (tok, "set:%d:%7[a-z]:%65000s", &code, t, val) == 3)
    {
      if (t[0] == 'u')
        {
          dbus_uint32_t u = (dbus_uint32_t) strtoul (val, NULL, 10);
          if (code == 5) ok = dbus_message_set_reply_serial (m, u);
          else ok = _dbus_header_set_field_basic (&m->header, code, DBUS_TYPE_UINT32, &u);
        }
      else
        {
          int vl; unsigned char *vb = unhex (val, &vl); const char *sv;
          vb[vl] = 0; sv = (const char *) vb;
          switch (code)
            {
            case 1: ok = dbus_message_set_path (m, sv); break;
            case 2: ok = dbus_message_set_interface (m, sv); break;
            case 3: ok = dbus_message_set_member (m, sv); break;
            case 4: ok = dbus_message_set_error_name (m, sv); break;
            case 6: ok = dbus_message_set_destination (m, sv); break;
            case 7: ok = dbus_message_set_sender (m, sv); break;
            case 10: ok = dbus_message_set_container_instance (m, sv); break;
            default: ok = FALSE;
            }
          free (vb);
        }
    }
  else if (sscanf (tok, "del:%d", &code) == 1)
    {
      switch (code)
        {
        case 1: ok = dbus_message_set_path (m, NULL); break;
        case 2: ok = dbus_message_set_interface (m, NULL); break;
        case 3: ok = dbus_message_set_member (m, NULL); break;
        case 4: ok = dbus_message_set_error_name (m, NULL); break;
        case 6: ok = dbus_message_set_destination (m, NULL); break;
        case 7: ok = dbus_message_set_sender (m, NULL); break;
        case 10: ok = dbus_message_set_container_instance (m, NULL); break;
        default: ok = _dbus_header_delete_field (&m->header, code);
        }
    }
  else if (!strcmp (tok, "unk")) ok = _dbus_header_remove_unknown_fields (&m->header);
  else if (!strcmp (tok, "rd"))
    {
      /* the application looks at the body: a message in the other byte order is converted to native order on the way */
      DBusMessageIter it;
      dbus_message_iter_init (m, &it);
      ok = TRUE;
    }
  else if (sscanf (tok, "serial:%15s", kind) == 1) dbus_message_set_serial (m, (dbus_uint32_t) strtoul (kind, NULL, 10));
  else ok = FALSE;
  return ok;
}

int
main (void)
{
  static char line[1 << 22];
  while (fgets (line, sizeof line, stdin))
    {
      if (!strncmp (line, "wire chunks ", 12))
        {
          /* wire chunks <max> <hex>... : one loader, one feed per chunk */
          char *save = NULL, *tok = strtok_r (line + 12, " \n", &save);
          DBusMessageLoader *l = _dbus_message_loader_new ();
          DBusMessage *m; int nm = 0;
          static char out[1 << 22]; FILE *mem = fmemopen (out, sizeof out, "w");
          _dbus_message_loader_set_max_message_size (l, atol (tok));
          while ((tok = strtok_r (NULL, " \n", &save)) != NULL)
            {
              int clen; unsigned char *cb = unhex (tok, &clen);
              DBusString *b;
              _dbus_message_loader_get_buffer (l, &b, NULL, NULL);
              if (!_dbus_string_append_len (b, (const char *) cb, clen)) return 2;
              _dbus_message_loader_return_buffer (l, b);
              free (cb);
              if (!_dbus_message_loader_queue_messages (l)) return 2;
              while ((m = _dbus_message_loader_pop_message (l)) != NULL)
                {
                  FILE *save_out = stdout;
                  nm++;
                  fputs (" | ", mem);
                  stdout = mem; dump_msg_nonl (m, 0); stdout = save_out;
                  dbus_message_unref (m);
                }
              if (_dbus_message_loader_get_is_corrupted (l)) break;   /* the transport disconnects */
            }
          fclose (mem);
          printf ("msgs=%d corrupt=%d%s\n", nm, _dbus_message_loader_get_is_corrupted (l) ? 1 : 0, out);
          out[0] = 0;
          _dbus_message_loader_unref (l);
          fflush (stdout);
          continue;
        }
      if (!strncmp (line, "wire edit ", 10) || !strncmp (line, "wire oomedit ", 13))
        {
          /* wire edit <hex> op... : apply header edits through the API, marshal after each.
           * wire oomedit: the same, but every op is first tried with its 1st, 2nd, ... allocation failing
           * (libdbus' own fault injector); an attempt that reports failure must leave the message's bytes as
           * they were; the op is then let through and answered as `wire edit` answers it. */
          int oom = line[5] == 'o';
          char *save = NULL, *tok = strtok_r (line + (oom ? 13 : 10), " \n", &save);
          int blen; unsigned char *bb = unhex (tok, &blen);
          DBusError e = DBUS_ERROR_INIT;
          DBusMessage *m = dbus_message_demarshal ((const char *) bb, blen, &e);
          int first = 1;
          free (bb);
          if (!m) { printf ("unloadable\n"); dbus_error_free (&e); fflush (stdout); continue; }
          while ((tok = strtok_r (NULL, " \n", &save)) != NULL)
            {
              dbus_bool_t ok = TRUE;
              char *out; int outlen, i;
              if (oom)
                {
                  char *before = NULL; int blen0 = 0, k;
                  if (!dbus_message_marshal (m, &before, &blen0)) return 2;
                  for (k = 1; k < 400; k++)
                    {
                      char *after = NULL; int alen = 0;
                      _dbus_set_fail_alloc_counter (k - 1);
                      ok = edit_op (m, tok);
                      if (_dbus_get_fail_alloc_counter () < _DBUS_INT_MAX / 2)
                        { _dbus_set_fail_alloc_counter (_DBUS_INT_MAX); break; }      /* the op needed fewer than k allocations */
                      _dbus_set_fail_alloc_counter (_DBUS_INT_MAX);
                      if (ok) break;                                                   /* the failure was absorbed */
                      n_oom_failures++;
                      if (!dbus_message_marshal (m, &after, &alen)) return 2;
                      if (alen != blen0 || memcmp (after, before, alen) != 0)
                        { printf ("%sCHANGED-BY-FAILED-OP@%d:%s", first ? "" : " ", k, tok); first = 0; dbus_free (after); k = -1; break; }
                      dbus_free (after);
                    }
                  dbus_free (before);
                  if (k == -1) break;
                  if (!ok) ok = edit_op (m, tok);       /* with memory available */
                }
              else
                ok = edit_op (m, tok);
              if (!ok) { printf ("%sop-failed", first ? "" : " "); first = 0; continue; }
              if (!dbus_message_marshal (m, &out, &outlen)) return 2;
              if (!first) putchar (' ');
              first = 0;
              for (i = 0; i < outlen; i++) printf ("%02x", (unsigned char) out[i]);
              dbus_free (out);
            }
          printf ("\n");
          dbus_message_unref (m);
          fflush (stdout);
          continue;
        }
      if (!strncmp (line, "wire swap ", 10))
        {
          int blen; unsigned char *bb; DBusError e = DBUS_ERROR_INIT; DBusMessage *m;
          char *nl = strchr (line + 10, '\n'); if (nl) *nl = 0;
          bb = unhex (line + 10, &blen);
          m = dbus_message_demarshal ((const char *) bb, blen, &e);
          free (bb);
          if (!m) { printf ("corrupt\n"); dbus_error_free (&e); }
          else
            {
              char *out; int outlen, i; DBusMessageIter it;
              dbus_message_iter_init (m, &it);      /* converts the message to native byte order */
              if (!dbus_message_marshal (m, &out, &outlen)) return 2;
              for (i = 0; i < outlen; i++) printf ("%02x", (unsigned char) out[i]);
              printf ("\n"); dbus_free (out); dbus_message_unref (m);
            }
          fflush (stdout);
          continue;
        }
      if (!strncmp (line, "wire build ", 11) || !strncmp (line, "wire oombuild ", 14))
        {
          /* wire oombuild: as build, but header settings, basic appends, the final copy and the marshalling are
           * first tried with their 1st, 2nd, ... allocation failing; a failed attempt must leave header and body
           * bytes as they were, and the step is then repeated with memory available */
          char *save = NULL, *tok;
          DBusMessage *m = NULL;
          DBusMessageIter its[80]; int depth = 0; int bad = 0;
          oom_mode = line[5] == 'o'; oom_changed = 0;
          for (tok = strtok_r (line + (oom_mode ? 14 : 11), " \n", &save); tok && !bad; tok = strtok_r (NULL, " \n", &save))
            {
              char a[64] = "", b[64] = ""; static char v[1 << 20]; v[0] = 0;
              int n = sscanf (tok, "%63[^:]:%63[^:]:%1048000[^:]", a, b, v);
              if (!strcmp (a, "new")) { m = dbus_message_new (atoi (b)); dbus_message_iter_init_append (m, &its[0]); }
              else if (!m) bad = 1;
              else if (!strcmp (a, "serial")) dbus_message_set_serial (m, (dbus_uint32_t) strtoul (b, NULL, 10));
              else if (!strcmp (a, "flag"))
                {
                  int bit = atoi (b), on = atoi (v);
                  if (bit == 1) dbus_message_set_no_reply (m, on);
                  else if (bit == 2) dbus_message_set_auto_start (m, !on);
                  else if (bit == 4) dbus_message_set_allow_interactive_authorization (m, on);
                  else bad = 1;
                }
              else if (!strcmp (a, "hdr"))
                {
                  /* hdr:<code>:<t>:<value> */
                  char t[8] = ""; int code = atoi (b); static char val[1 << 20]; val[0] = 0;
                  sscanf (tok, "hdr:%*d:%7[a-z]:%1048000s", t, val);
                  if (t[0] == 'u') { dbus_uint32_t u_ = (dbus_uint32_t) strtoul (val, NULL, 10); dbus_bool_t ok_; OOM_TRY (m, ok_, dbus_message_set_reply_serial (m, u_)); if (!ok_) bad = 1; }
                  else
                    {
                      int vl; unsigned char *vb = unhex (val, &vl); dbus_bool_t ok = FALSE; const char *sv;
                      vb[vl] = 0; sv = (const char *) vb;
                      switch (code)
                        {
                        case 1: OOM_TRY (m, ok, dbus_message_set_path (m, sv)); break;
                        case 2: OOM_TRY (m, ok, dbus_message_set_interface (m, sv)); break;
                        case 3: OOM_TRY (m, ok, dbus_message_set_member (m, sv)); break;
                        case 4: OOM_TRY (m, ok, dbus_message_set_error_name (m, sv)); break;
                        case 6: OOM_TRY (m, ok, dbus_message_set_destination (m, sv)); break;
                        case 7: OOM_TRY (m, ok, dbus_message_set_sender (m, sv)); break;
                        case 10: OOM_TRY (m, ok, dbus_message_set_container_instance (m, sv)); break;
                        }
                      free (vb);
                      if (!ok) bad = 1;
                    }
                }
              else if (!strcmp (a, "clr"))
                {
                  dbus_bool_t ok = FALSE;
                  switch (atoi (b))
                    {
                    case 1: ok = dbus_message_set_path (m, NULL); break;
                    case 2: ok = dbus_message_set_interface (m, NULL); break;
                    case 3: ok = dbus_message_set_member (m, NULL); break;
                    case 4: ok = dbus_message_set_error_name (m, NULL); break;
                    case 6: ok = dbus_message_set_destination (m, NULL); break;
                    case 7: ok = dbus_message_set_sender (m, NULL); break;
                    case 10: ok = dbus_message_set_container_instance (m, NULL); break;
                    }
                  if (!ok) bad = 1;
                }
              else if (!strcmp (a, "b") && n >= 2)
                {
                  int code = b[0];
                  if (dbus_type_is_fixed (code))
                    {
                      unsigned long long raw = strtoull (v, NULL, 10);
                      DBusBasicValue bv; memset (&bv, 0, sizeof bv);
                      switch (code)
                        {
                        case 'y': bv.byt = (unsigned char) raw; break;
                        case 'b': bv.bool_val = (dbus_bool_t) raw; break;
                        case 'n': bv.i16 = (dbus_int16_t) (dbus_uint16_t) raw; break;
                        case 'q': bv.u16 = (dbus_uint16_t) raw; break;
                        case 'i': bv.i32 = (dbus_int32_t) (dbus_uint32_t) raw; break;
                        case 'u': bv.u32 = (dbus_uint32_t) raw; break;
                        case 'h': bv.fd = (int) raw; break;
                        case 'x': bv.i64 = (dbus_int64_t) raw; break;
                        case 't': bv.u64 = (dbus_uint64_t) raw; break;
                        case 'd': memcpy (&bv.dbl, &raw, 8); break;
                        }
                      /* (no failure is injected into appends: libdbus documents that a failed append leaves the
                       * message unusable - see `wire oomappend`) */
                      if (!dbus_message_iter_append_basic (&its[depth], code, &bv)) bad = 1;
                    }
                  else
                    {
                      int vl; unsigned char *vb = unhex (v, &vl); const char *sv;
                      vb[vl] = 0; sv = (const char *) vb;
                      if (!dbus_message_iter_append_basic (&its[depth], code, &sv)) bad = 1;
                      free (vb);
                    }
                }
              else if (!strcmp (a, "fa"))
                {
                  int code = b[0], cnt = 0, sz = code == 'y' ? 1 : (code == 'n' || code == 'q') ? 2 : (code == 'x' || code == 't' || code == 'd') ? 8 : 4;
                  static unsigned char arr[1 << 16]; char *p = v; char sg[2] = { (char) code, 0 };
                  DBusMessageIter sub; const void *ptr = arr;
                  if (!dbus_message_iter_open_container (&its[depth], DBUS_TYPE_ARRAY, sg, &sub)) bad = 1;
                  else
                    {
                      /* blocks separated by ';' are appended one after the other; a value with a 'b' in front goes in through
                       * dbus_message_iter_append_basic */
                      int more = 1;
                      while (more && !bad)
                        {
                          cnt = 0;
                          if (*p == 'b')
                            {
                              unsigned long long raw; dbus_uint64_t cell;
                              p++; raw = strtoull (p, &p, 10); cell = 0;
                              if (sz == 1) *(unsigned char *) &cell = (unsigned char) raw;
                              else if (sz == 2) *(dbus_uint16_t *) &cell = (dbus_uint16_t) raw;
                              else if (sz == 4) *(dbus_uint32_t *) &cell = (dbus_uint32_t) raw;
                              else cell = (dbus_uint64_t) raw;
                              if (!dbus_message_iter_append_basic (&sub, code, &cell)) bad = 1;
                            }
                          else
                            {
                              while (*p && *p != ';')
                                {
                                  unsigned long long raw = strtoull (p, &p, 10);
                                  if (sz == 1) arr[cnt] = (unsigned char) raw;
                                  else if (sz == 2) ((dbus_uint16_t *) arr)[cnt] = (dbus_uint16_t) raw;
                                  else if (sz == 4) ((dbus_uint32_t *) arr)[cnt] = (dbus_uint32_t) raw;
                                  else ((dbus_uint64_t *) arr)[cnt] = (dbus_uint64_t) raw;
                                  cnt++;
                                  if (*p == ',') p++;
                                }
                              if (!dbus_message_iter_append_fixed_array (&sub, code, &ptr, cnt)) bad = 1;
                            }
                          if (*p == ';') p++; else more = 0;
                        }
                      if (!dbus_message_iter_close_container (&its[depth], &sub)) bad = 1;
                    }
                }
              else if (!strcmp (a, "open"))
                {
                  int ct = b[0] == 'a' ? DBUS_TYPE_ARRAY : b[0] == 'r' ? DBUS_TYPE_STRUCT : b[0] == 'v' ? DBUS_TYPE_VARIANT : DBUS_TYPE_DICT_ENTRY;
                  if (depth >= 78 || !dbus_message_iter_open_container (&its[depth], ct, (b[0] == 'a' || b[0] == 'v') ? v : NULL, &its[depth + 1])) bad = 1;
                  else depth++;
                }
              else if (!strcmp (a, "close"))
                {
                  if (depth == 0 || !dbus_message_iter_close_container (&its[depth - 1], &its[depth])) bad = 1;
                  else depth--;
                }
              else bad = 1;
            }
          if (oom_changed) printf ("CHANGED-BY-FAILED-STEP\n");
          else if (bad || !m || depth != 0) printf ("bad-program\n");
          else
            {
              char *out, *out2, *out3; int ol, ol2, ol3, i, rt;
              DBusError e = DBUS_ERROR_INIT; DBusMessage *back, *copy;
              dbus_bool_t ok_;
              /* (marshalling locks the message, which fills in the body length: bytes are not compared here) */
              oom_compare = 0;
              OOM_TRY (m, ok_, dbus_message_marshal (m, &out, &ol));
              if (!ok_) return 2;
              for (i = 0; i < ol; i++) printf ("%02x", (unsigned char) out[i]);
              back = dbus_message_demarshal (out, ol, &e);
              rt = 0;
              if (back && dbus_message_marshal (back, &out2, &ol2))
                { rt = (ol2 == ol && !memcmp (out, out2, ol)); dbus_free (out2); }
              if (back) dbus_message_unref (back); else dbus_error_free (&e);
              printf (" rt=%d copy=", rt);
              OOM_TRY (m, ok_, (copy = dbus_message_copy (m)) != NULL);
              oom_compare = 1;
              if (!ok_) return 2;
              if (!dbus_message_marshal (copy, &out3, &ol3)) return 2;
              for (i = 0; i < ol3; i++) printf ("%02x", (unsigned char) out3[i]);
              printf ("\n");
              dbus_free (out); dbus_free (out3); dbus_message_unref (copy);
            }
          if (m) dbus_message_unref (m);
          fflush (stdout);
          continue;
        }
      if (!strncmp (line, "wire oomappend", 14))
        {
          /* a fresh signal, one int16 appended with the k-th allocation failing: how many k leave the body changed
           * although FALSE was returned */
          int k, changed = 0, failed = 0;
          for (k = 1; k < 40; k++)
            {
              DBusMessage *m = dbus_message_new_signal ("/x", "a.b", "M");
              DBusMessageIter it; dbus_int16_t v = 7; dbus_bool_t ok; int fired;
              dbus_message_iter_init_append (m, &it);
              _dbus_set_fail_alloc_counter (k - 1);
              ok = dbus_message_iter_append_basic (&it, DBUS_TYPE_INT16, &v);
              fired = _dbus_get_fail_alloc_counter () > _DBUS_INT_MAX / 2;
              _dbus_set_fail_alloc_counter (_DBUS_INT_MAX);
              if (fired && !ok) { failed++; if (_dbus_string_get_length (&m->body) != 0) changed++; }
              dbus_message_unref (m);
              if (!fired) break;
            }
          printf ("failed=%d body-changed=%d\n", failed, changed);
          fflush (stdout);
          continue;
        }
      if (!strncmp (line, "wire oomleak", 12))
        {
          /* every basic type (a descriptor included) appended to a fresh signal with the k-th allocation failing, then the
           * message is released and the library told to give up everything it caches (dbus_shutdown: a message taken from
           * libdbus' cache would keep the buffers of its previous life, and a cached one holds blocks): whatever the append
           * did, nothing may stay behind - no heap block, no open descriptor */
          static const char types[] = "ybnqiuxtdsogh";
          int ti, trials = 0, failed = 0, fd_leaks = 0, block_leaks = 0; int pfd[2];
          char first[128]; first[0] = 0;
          if (pipe (pfd) != 0) return 2;
          dbus_shutdown ();
          for (ti = 0; types[ti]; ti++)
            {
              int k;
              for (k = 1; k < 60; k++)
                {
                  int fds0 = count_open_fds (), blocks0 = _dbus_get_malloc_blocks_outstanding (), fired;
                  DBusMessage *m = dbus_message_new_signal ("/x", "a.b", "M");
                  DBusMessageIter it; DBusBasicValue v; const char *s = types[ti] == 'o' ? "/a/b" : types[ti] == 'g' ? "ai" : "some text";
                  dbus_bool_t ok; const void *p = &v;
                  memset (&v, 0, sizeof v); v.u32 = 1;
                  if (types[ti] == 'h') v.fd = pfd[0];
                  if (types[ti] == 's' || types[ti] == 'o' || types[ti] == 'g') p = &s;
                  dbus_message_iter_init_append (m, &it);
                  _dbus_set_fail_alloc_counter (k - 1);
                  ok = dbus_message_iter_append_basic (&it, types[ti], p);
                  fired = _dbus_get_fail_alloc_counter () > _DBUS_INT_MAX / 2;
                  _dbus_set_fail_alloc_counter (_DBUS_INT_MAX);
                  dbus_message_unref (m);
                  dbus_shutdown ();
                  trials++;
                  if (fired && !ok) failed++;
                  if (count_open_fds () != fds0)
                    { fd_leaks++; if (!first[0]) snprintf (first, sizeof first, "type=%c k=%d ok=%d fds:%d->%d", types[ti], k, (int) ok, fds0, count_open_fds ()); }
                  if (_dbus_get_malloc_blocks_outstanding () != blocks0)
                    { block_leaks++; if (!first[0]) snprintf (first, sizeof first, "type=%c k=%d ok=%d blocks:%d->%d", types[ti], k, (int) ok, blocks0, _dbus_get_malloc_blocks_outstanding ()); }
                  if (!fired) break;
                }
            }
          close (pfd[0]); close (pfd[1]);
          printf ("trials=%d failed=%d fd-leaks=%d block-leaks=%d first=%s\n", trials, failed, fd_leaks, block_leaks, first[0] ? first : "-");
          fflush (stdout);
          continue;
        }
      if (!strncmp (line, "wire reencode ", 14))
        {
          int blen; unsigned char *bb; DBusError e = DBUS_ERROR_INIT; DBusMessage *m;
          char *nl = strchr (line + 14, '\n'); if (nl) *nl = 0;
          bb = unhex (line + 14, &blen);
          m = dbus_message_demarshal ((const char *) bb, blen, &e);
          free (bb);
          if (!m) { printf ("corrupt\n"); dbus_error_free (&e); }
          else
            {
              char *out; int outlen, i;
              if (!dbus_message_marshal (m, &out, &outlen)) return 2;
              for (i = 0; i < outlen; i++) printf ("%02x", (unsigned char) out[i]);
              printf ("\n"); dbus_free (out); dbus_message_unref (m);
            }
          fflush (stdout);
          continue;
        }
      char cmd[32]; static char hex[1 << 22]; long mx = 0; int nfds = 0;
      int n = sscanf (line, "wire %31s %4194000s %ld %d", cmd, hex, &mx, &nfds);
      int len; unsigned char *buf;
      if (n < 2) { printf ("bad-op\n"); continue; }
      buf = unhex (hex, &len);
      if (!strcmp (cmd, "demarshal"))
        {
          DBusError e = DBUS_ERROR_INIT;
          DBusMessage *m = dbus_message_demarshal ((const char *) buf, len, &e);
          if (m)
            {
              dump_msg (m, dbus_message_demarshal_bytes_needed ((const char *) buf, len));
              dbus_message_unref (m);
            }
          else
            {
              printf ("%s\n", dbus_error_has_name (&e, DBUS_ERROR_NO_MEMORY) ? "none" : "corrupt");
              dbus_error_free (&e);
            }
        }
      else if (!strcmp (cmd, "load") && n == 4)
        {
          DBusMessageLoader *l = _dbus_message_loader_new ();
          DBusString *b; DBusMessage *m;
          _dbus_message_loader_set_max_message_size (l, mx);
          if (nfds > 0)
            {
              int *fds; unsigned max_fds, i;
              _dbus_message_loader_get_unix_fds (l, &fds, &max_fds);
              for (i = 0; i < (unsigned) nfds && i < max_fds; i++) fds[i] = open ("/dev/null", O_RDONLY | O_CLOEXEC);
              _dbus_message_loader_return_unix_fds (l, fds, i);
            }
          _dbus_message_loader_get_buffer (l, &b, NULL, NULL);
          if (!_dbus_string_append_len (b, (const char *) buf, len)) return 2;
          _dbus_message_loader_return_buffer (l, b);
          if (!_dbus_message_loader_queue_messages (l)) return 2;
          m = _dbus_message_loader_pop_message (l);
          if (m)
            {
              dump_msg (m, dbus_message_demarshal_bytes_needed ((const char *) buf, len));
              dbus_message_unref (m);
            }
          else if (_dbus_message_loader_get_is_corrupted (l))
            printf ("corrupt\n");
          else
            printf ("incomplete\n");
          _dbus_message_loader_unref (l);
        }
      else
        printf ("bad-op\n");
      free (buf);
      fflush (stdout);
    }
  return 0;
}
