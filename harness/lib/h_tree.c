/* K-tie harness for C20: drives the object-path registration API of a real connection and
 * reports, per scripted operation, what the implementation did. Calls arrive over a real
 * socket from the peer connection, so the automatic UnknownMethod/UnknownObject reply is
 * the library's own. Script lines (stdin) are the model driver's `tree …` commands. */
#include <config.h>
#include "pair.h"

#define MAXH 256
static DBusConnection *srv, *cli;
static int invoked[MAXH], n_invoked;
static int takers[MAXH], n_takers;

typedef struct { int id; } HData;

static DBusHandlerResult
handler (DBusConnection *c, DBusMessage *m, void *data)
{
  HData *h = data;
  int i;
  if (n_invoked < MAXH) invoked[n_invoked++] = h->id;
  for (i = 0; i < n_takers; i++)
    if (takers[i] == h->id)
      {
        DBusMessage *r = dbus_message_new_method_return (m);
        dbus_int32_t v = h->id;
        dbus_message_append_args (r, DBUS_TYPE_INT32, &v, DBUS_TYPE_INVALID);
        dbus_connection_send (c, r, NULL);
        dbus_message_unref (r);
        return DBUS_HANDLER_RESULT_HANDLED;
      }
  return DBUS_HANDLER_RESULT_NOT_YET_HANDLED;
}

static void unreg_cb (DBusConnection *c, void *data) { (void) c; free (data); }
static const DBusObjectPathVTable vt = { unreg_cb, handler, NULL, NULL, NULL, NULL };

static void print_ids (const int *v, int n)
{
  int i;
  if (n == 0) { printf ("-"); return; }
  for (i = 0; i < n; i++) printf (i ? ",%d" : "%d", v[i]);
}

int
main (void)
{
  char line[4096];
  if (pair_make (&srv, &cli)) return 2;
  while (fgets (line, sizeof line, stdin))
    {
      char cmd[32], a[2048], b[2048], c[64];
      int n = sscanf (line, "tree %31s %2047s %2047s %63s", cmd, a, b, c);
      if (n < 1) { printf ("bad-op\n"); continue; }
      if (!strcmp (cmd, "reset"))
        {
          /* unregister everything: walk the listing recursively */
          for (;;)
            {
              char path[4096] = "/";
              char **kids = NULL;
              int depth = 0;
              /* descend to a leaf */
              for (;;)
                {
                  if (!dbus_connection_list_registered (srv, path, &kids)) return 2;
                  if (!kids[0]) { dbus_free_string_array (kids); break; }
                  if (strcmp (path, "/")) strcat (path, "/");
                  strcat (path, kids[0]);
                  dbus_free_string_array (kids);
                  depth++;
                }
              {
                void *d = NULL;
                dbus_connection_get_object_path_data (srv, path, &d);
                if (d) dbus_connection_unregister_object_path (srv, path);
                else if (depth == 0) break;
                else { fprintf (stderr, "dangling unregistered leaf %s\n", path); return 3; }
                if (depth == 0) break;
              }
            }
          /* bring the root's invoke_as_fallback flag back to its initial value (TRUE) */
          {
            HData *h = malloc (sizeof *h); h->id = 0;
            if (!dbus_connection_register_fallback (srv, "/", &vt, h)) return 2;
            dbus_connection_unregister_object_path (srv, "/");
          }
          printf ("ok\n");
        }
      else if (!strcmp (cmd, "reg") && n == 4)
        {
          DBusError e = DBUS_ERROR_INIT;
          HData *h = malloc (sizeof *h);
          dbus_bool_t ok;
          h->id = atoi (c);
          ok = atoi (b) ? dbus_connection_try_register_fallback (srv, a, &vt, h, &e)
                        : dbus_connection_try_register_object_path (srv, a, &vt, h, &e);
          if (ok) printf ("ok\n");
          else
            {
              printf ("%s\n", dbus_error_has_name (&e, DBUS_ERROR_OBJECT_PATH_IN_USE) ? "inuse" : e.name);
              dbus_error_free (&e); free (h);
            }
        }
      else if (!strcmp (cmd, "unreg") && n == 2)
        {
          void *d = NULL;
          /* unregistering a path that is not registered is a programming error the library
           * only warns about; the script never relies on its return value */
          dbus_connection_get_object_path_data (srv, a, &d);
          if (d) dbus_connection_unregister_object_path (srv, a);
          printf ("ok\n");
        }
      else if (!strcmp (cmd, "call") && n == 3)
        {
          DBusMessage *m = dbus_message_new_method_call (NULL, a, "com.example.Verif", "Probe");
          DBusMessage *r;
          DBusPendingCall *pc = NULL;
          char *tok;
          n_takers = 0; n_invoked = 0;
          if (strcmp (b, "-"))
            for (tok = strtok (b, ","); tok; tok = strtok (NULL, ",")) takers[n_takers++] = atoi (tok);
          dbus_connection_send_with_reply (cli, m, &pc, 5000);
          dbus_message_unref (m);
          while (!dbus_pending_call_get_completed (pc))
            {
              dbus_connection_read_write_dispatch (cli, 0);
              dbus_connection_read_write_dispatch (srv, 0);
            }
          r = dbus_pending_call_steal_reply (pc);
          dbus_pending_call_unref (pc);
          printf ("inv="); print_ids (invoked, n_invoked);
          if (dbus_message_get_type (r) == DBUS_MESSAGE_TYPE_METHOD_RETURN)
            {
              dbus_int32_t v = -1;
              dbus_message_get_args (r, NULL, DBUS_TYPE_INT32, &v, DBUS_TYPE_INVALID);
              printf (" out=handled:%d\n", v);
            }
          else
            {
              const char *en = dbus_message_get_error_name (r);
              printf (" out=%s\n", !strcmp (en, DBUS_ERROR_UNKNOWN_METHOD) ? "UnknownMethod" :
                                   !strcmp (en, DBUS_ERROR_UNKNOWN_OBJECT) ? "UnknownObject" : en);
            }
          dbus_message_unref (r);
        }
      else if (!strcmp (cmd, "list") && n == 2)
        {
          char **kids = NULL; int i;
          dbus_connection_list_registered (srv, a, &kids);
          printf ("c=");
          if (!kids[0]) printf ("-");
          for (i = 0; kids[i]; i++) printf (i ? ",%s" : "%s", kids[i]);
          printf ("\n");
          dbus_free_string_array (kids);
        }
      else if (!strcmp (cmd, "data") && n == 2)
        {
          void *d = NULL;
          dbus_connection_get_object_path_data (srv, a, &d);
          if (d) printf ("d=%d\n", ((HData *) d)->id); else printf ("d=-\n");
        }
      else
        printf ("bad-op\n");
      fflush (stdout);
    }
  return 0;
}
