/* K-tie harness for C07 (unit level): reaches the static parser, equality and matcher of
 * bus/signals.c by including the file; messages come from the wire (dbus_message_demarshal).
 * The matcher is called as the bus calls it for a message it originates itself (sender and
 * addressed recipient NULL); ownership-dependent keys are exercised end to end. */
#include <config.h>
#include "bus/signals.c"
#include <stdio.h>
#include <stdlib.h>
#include <string.h>

static unsigned char *unhex (const char *h, int *len)
{
  size_t n = strlen (h);
  unsigned char *b = malloc (n / 2 + 2);
  int i = 0;
  if (!strcmp (h, "-")) { *len = 0; b[0] = 0; return b; }
  for (; h[0] && h[1]; h += 2) { unsigned v; sscanf (h, "%2x", &v); b[i++] = (unsigned char) v; }
  b[i] = 0;
  *len = i;
  return b;
}

static void hexs (const char *s)
{
  if (s == NULL) { printf ("-"); return; }
  if (!*s) { printf ("empty"); return; }
  for (; *s; s++) printf ("%02x", (unsigned char) *s);
}

static BusMatchRule *parse (const char *hex, DBusError *e)
{
  int len; unsigned char *t = unhex (hex, &len);
  DBusString str; BusMatchRule *r;
  _dbus_string_init_const_len (&str, (const char *) t, len);
  r = bus_match_rule_parse ((DBusConnection *) 0x1, &str, e);
  free (t);
  return r;
}

static void show_rule (BusMatchRule *r)
{
  int i, first = 1;
  if (r->flags & BUS_MATCH_MESSAGE_TYPE) printf ("t=%d", r->message_type); else printf ("t=-");
  printf (" s="); hexs ((r->flags & BUS_MATCH_SENDER) ? r->sender : NULL);
  printf (" i="); hexs ((r->flags & BUS_MATCH_INTERFACE) ? r->interface : NULL);
  printf (" m="); hexs ((r->flags & BUS_MATCH_MEMBER) ? r->member : NULL);
  printf (" p="); hexs ((r->flags & (BUS_MATCH_PATH | BUS_MATCH_PATH_NAMESPACE)) ? r->path : NULL);
  printf (" pn=%d", (r->flags & BUS_MATCH_PATH_NAMESPACE) ? 1 : 0);
  printf (" d="); hexs ((r->flags & BUS_MATCH_DESTINATION) ? r->destination : NULL);
  printf (" e=%d args=", (r->flags & BUS_MATCH_CLIENT_IS_EAVESDROPPING) ? 1 : 0);
  if (r->flags & BUS_MATCH_ARGS)
    for (i = 0; i < r->args_len; i++)
      if (r->args[i])
        {
          printf ("%s%d:%s:", first ? "" : ",", i,
                  (r->arg_lens[i] & BUS_MATCH_ARG_IS_PATH) ? "p" : (r->arg_lens[i] & BUS_MATCH_ARG_NAMESPACE) ? "n" : "s");
          hexs (r->args[i]);
          first = 0;
        }
  if (first) printf ("-");
  printf ("\n");
}

int
main (void)
{
  static char line[1 << 20];
  while (fgets (line, sizeof line, stdin))
    {
      char cmd[16]; static char a[1 << 19], b[1 << 19];
      int n = sscanf (line, "match %15s %524000s %524000s", cmd, a, b);
      if (n < 2) { printf ("bad-op\n"); continue; }
      if (!strcmp (cmd, "parse"))
        {
          DBusError e = DBUS_ERROR_INIT;
          BusMatchRule *r = parse (a, &e);
          if (r) { printf ("ok "); show_rule (r); bus_match_rule_unref (r); }
          else { printf ("%s\n", dbus_error_has_name (&e, DBUS_ERROR_LIMITS_EXCEEDED) ? "toolong" : "invalid"); dbus_error_free (&e); }
        }
      else if (!strcmp (cmd, "oomparse"))
        {
          /* as parse, but first with the 1st, 2nd, ... allocation failing: each such attempt must report NoMemory
           * (or get through) and leave no allocation behind */
          int k, leak = 0, wrong = 0, clean = 0;
          BusMatchRule *r = NULL;
          DBusError e = DBUS_ERROR_INIT;
          for (k = 1; k < 600; k++)
            {
              int before = _dbus_get_malloc_blocks_outstanding (), fired;
              _dbus_set_fail_alloc_counter (k - 1);
              r = parse (a, &e);
              fired = _dbus_get_fail_alloc_counter () > _DBUS_INT_MAX / 2;
              _dbus_set_fail_alloc_counter (_DBUS_INT_MAX);
              if (!fired) { clean = 1; break; }        /* fewer than k allocations: this is the clean run */
              if (r == NULL && !dbus_error_has_name (&e, DBUS_ERROR_NO_MEMORY)) wrong++;
              if (r) bus_match_rule_unref (r);
              r = NULL;
              dbus_error_free (&e);
              if (_dbus_get_malloc_blocks_outstanding () != before) leak++;
            }
          if (!clean)
            {
              /* a rule that needs more allocations than the sweep covers (a kilobyte of text appended byte by byte): the
               * result is that of a run with memory available */
              if (r) bus_match_rule_unref (r);
              dbus_error_free (&e);
              r = parse (a, &e);
            }
          if (leak) printf ("LEAK-AFTER-FAILED-PARSE ");
          if (wrong) printf ("WRONG-ERROR-UNDER-OOM ");
          if (r) { printf ("ok "); show_rule (r); bus_match_rule_unref (r); }
          else { printf ("%s\n", dbus_error_has_name (&e, DBUS_ERROR_LIMITS_EXCEEDED) ? "toolong" : "invalid"); dbus_error_free (&e); }
        }
      else if (!strcmp (cmd, "equal") && n == 3)
        {
          DBusError e = DBUS_ERROR_INIT;
          BusMatchRule *r1 = parse (a, &e), *r2 = NULL;
          if (r1) r2 = parse (b, &e);
          if (r1 && r2) printf ("%d\n", match_rule_equal (r1, r2) ? 1 : 0);
          else { printf ("invalid\n"); dbus_error_free (&e); }
          if (r1) bus_match_rule_unref (r1);
          if (r2) bus_match_rule_unref (r2);
        }
      else if (!strcmp (cmd, "test") && n == 3)
        {
          DBusError e = DBUS_ERROR_INIT;
          BusMatchRule *r = parse (a, &e);
          if (!r) { printf ("invalid\n"); dbus_error_free (&e); }
          else
            {
              int ml; unsigned char *mb = unhex (b, &ml);
              DBusMessage *m = dbus_message_demarshal ((const char *) mb, ml, &e);
              if (!m) { printf ("bad-message\n"); dbus_error_free (&e); }
              else
                {
                  printf ("%d\n", match_rule_matches (r, NULL, NULL, m, 0) ? 1 : 0);
                  dbus_message_unref (m);
                }
              free (mb);
              bus_match_rule_unref (r);
            }
        }
      else printf ("bad-op\n");
      fflush (stdout);
    }
  return 0;
}
