/* In-process message bus with allocation-failure injection (C14).
 *
 * A BusContext listening on a debug pipe and any number of client connections live in this
 * process (as in bus/dispatch.c's own tests); messages travel through libdbus' in-memory
 * transport.  The script on stdin builds a prior state, then runs trials in forked children (the
 * whole bus, clients included, is plain memory, so a child is an independent copy): the operation
 * under test is sent with `_dbus_set_fail_alloc_counter` armed on the bus side only, the child
 * then shows what every client received, runs destructive probes, tears everything down and
 * reports outstanding allocations.
 *
 * One answer line per command:
 *   conf <path>                 ok | err <text>
 *   client <id>                 ok
 *   send <id> <hex>             ok | fail
 *   pump                        ok
 *   drain                       recv <id>:<hex>,<hex>;<id>:...          (clients in id order; "DISC" = Disconnected)
 *   failsend <id> <hex> <k> <j> fired=<n> allocs=<a>    k-th allocation of the bus fails (0: none, count them); j > 0: and
 *                               again the j-th after that
 *   close <id>                  ok
 *   prefix / endprefix          the lines between are remembered, not executed (one answer: ok)
 *   fork / endfork              a child executes the remembered prefix (silently) and then the lines between; endfork
 *                               answers `leak blocks=<n>` (child, after tearing everything down) and `child rc=<status>`
 * The parent never creates a bus: debug-pipe connections are kernel socket pairs and the main loop is an epoll
 * set, both of which a forked copy would share with its parent.
 */
#include <config.h>
#include <dbus/dbus.h>
#include <dbus/dbus-internals.h>
#include <dbus/dbus-mainloop.h>
#include <dbus/dbus-string.h>
#include <dbus/dbus-memory.h>
#include "bus/bus.h"
#include "bus/test.h"
#include "bus/config-parser.h"
#include <stdio.h>
#include <stdlib.h>
#include <string.h>
#include <unistd.h>
#include <sys/wait.h>

#define MAXC 16
#define say(...) do { if (!quiet) printf (__VA_ARGS__); } while (0)
static BusContext *context;
static DBusConnection *clients[MAXC];
static int in_child;
static int disc_seen[MAXC];
static char **prefix_lines;
static int n_prefix, quiet;

static unsigned char *unhex (const char *s, int *len)
{
  size_t n = strlen (s), i;
  unsigned char *b;
  if (n % 2) return NULL;
  b = malloc (n / 2 + 1);
  for (i = 0; i < n / 2; i++)
    {
      unsigned v;
      if (sscanf (s + 2 * i, "%2x", &v) != 1) { free (b); return NULL; }
      b[i] = (unsigned char) v;
    }
  *len = (int) (n / 2);
  return b;
}

static void pump (void)
{
  /* (bus_test_run_everything spins for ever once the last client has gone) */
  int i, idle = 0;
  for (i = 0; i < 400 && idle < 3; i++)
    {
      dbus_bool_t a = context != NULL && _dbus_loop_iterate (bus_context_get_loop (context), FALSE);
      bus_test_run_clients_loop (FALSE);
      idle = a ? 0 : idle + 1;
    }
}

static dbus_bool_t do_send (int id, const char *hex)
{
  int len = 0;
  unsigned char *raw = unhex (hex, &len);
  DBusError e = DBUS_ERROR_INIT;
  DBusMessage *m;
  dbus_bool_t ok;
  if (raw == NULL || clients[id] == NULL) { free (raw); return FALSE; }
  m = dbus_message_demarshal ((const char *) raw, len, &e);
  free (raw);
  if (m == NULL) { dbus_error_free (&e); return FALSE; }
  ok = dbus_connection_send (clients[id], m, NULL);
  dbus_message_unref (m);
  return ok;
}

/* the local Disconnected signal is left in the queue for the debug-client filter (which drops the
 * connection's reference when it is dispatched at teardown); it is reported once */
static DBusMessage *pop_visible (int id, int *disc)
{
  DBusMessage *m = dbus_connection_borrow_message (clients[id]);
  *disc = 0;
  if (m == NULL)
    return NULL;
  if (dbus_message_is_signal (m, DBUS_INTERFACE_LOCAL, "Disconnected"))
    {
      dbus_connection_return_message (clients[id], m);
      if (!disc_seen[id]) { disc_seen[id] = 1; *disc = 1; }
      return NULL;
    }
  dbus_connection_steal_borrowed_message (clients[id], m);
  return m;
}

static void drain (void)
{
  int id, first = 1;
  if (!quiet) printf ("recv ");
  for (id = 0; id < MAXC; id++)
    {
      DBusMessage *m;
      int n = 0, disc = 0;
      if (clients[id] == NULL) continue;
      if (!quiet) printf ("%s%d:", first ? "" : ";", id);
      first = 0;
      while ((m = pop_visible (id, &disc)) != NULL)
        {
          char *buf = NULL; int len = 0, i;
          if (quiet) { dbus_message_unref (m); continue; }
          if (!dbus_message_marshal (m, &buf, &len)) { printf ("%sNOMEM", n ? "," : ""); }
          else
            {
              printf ("%s", n ? "," : "");
              for (i = 0; i < len; i++) printf ("%02x", (unsigned char) buf[i]);
              dbus_free (buf);
            }
          n++;
          dbus_message_unref (m);
        }
      if (disc && !quiet) printf ("%sDISC", n ? "," : "");
    }
  if (!quiet) printf ("\n");
}

static void failsend (int id, const char *hex, int k, int j)
{
  int fired = 0, i, allocs = 0;
  if (!do_send (id, hex)) { say ("fired=-1 allocs=0\n"); return; }
  bus_test_run_clients_loop (FALSE);            /* the client writes into the pipe: no injection yet */
  _dbus_set_fail_alloc_counter (k > 0 ? k - 1 : _DBUS_INT_MAX);
  for (i = 0; i < 64; i++)
    {
      dbus_bool_t more = _dbus_loop_iterate (bus_context_get_loop (context), FALSE);
      int c = _dbus_get_fail_alloc_counter ();
      if (k > 0 && fired == 0 && c > _DBUS_INT_MAX / 2)
        {
          fired = 1;
          if (j > 0) _dbus_set_fail_alloc_counter (j - 1);
        }
      else if (k > 0 && fired == 1 && j > 0 && c > _DBUS_INT_MAX / 2)
        fired = 2;
      if (!more)
        break;
    }
  if (k == 0)
    allocs = _DBUS_INT_MAX - _dbus_get_fail_alloc_counter ();
  _dbus_set_fail_alloc_counter (_DBUS_INT_MAX);
  pump ();
  say ("fired=%d allocs=%d\n", fired, allocs);
}

static void teardown (void)
{
  int id;
  for (id = 0; id < MAXC; id++)
    if (clients[id] != NULL)
      {
        DBusConnection *c = clients[id];
        DBusMessage *m;
        dbus_connection_ref (c);
        if (dbus_connection_get_is_connected (c))
          dbus_connection_close (c);
        pump ();
        /* the debug-client filter drops the list's reference when Disconnected is dispatched */
        while (dbus_connection_dispatch (c) == DBUS_DISPATCH_DATA_REMAINS)
          ;
        while ((m = dbus_connection_pop_message (c)) != NULL)
          dbus_message_unref (m);
        dbus_connection_unref (c);
        clients[id] = NULL;
      }
  pump ();
  if (context != NULL)
    {
      bus_context_shutdown (context);
      bus_context_unref (context);
      context = NULL;
    }
  dbus_shutdown ();
}

static int exec_line (const char *line)
{
  char cmd[32] = "";
  char *arg = malloc (strlen (line) + 2), *arg2 = malloc (strlen (line) + 2);
  int a = 0, k = 0, j = 0;
  arg[0] = arg2[0] = 0;
  sscanf (line, "%31s %s %s %d %d", cmd, arg, arg2, &k, &j);
  a = atoi (arg);
  if (strcmp (cmd, "conf") == 0)
    {
      DBusString cf; DBusError e = DBUS_ERROR_INIT;
      _dbus_string_init_const (&cf, arg);
      context = bus_context_new (&cf, BUS_CONTEXT_FLAG_NONE, NULL, NULL, NULL, &e);
      if (context == NULL) { printf ("err %s\n", e.message ? e.message : "?"); dbus_error_free (&e); }
      else say ("ok\n");
    }
  else if (strcmp (cmd, "client") == 0 && a >= 0 && a < MAXC)
    {
      DBusError e = DBUS_ERROR_INIT;
      clients[a] = dbus_connection_open_private ("debug-pipe:name=test-server", &e);
      if (clients[a] == NULL || !bus_setup_debug_client (clients[a])) { printf ("err %s\n", e.message ? e.message : "setup"); dbus_error_free (&e); }
      else { pump (); say ("ok\n"); }
    }
  else if (strcmp (cmd, "send") == 0 && a >= 0 && a < MAXC)
    { dbus_bool_t ok = do_send (a, arg2); say ("%s\n", ok ? "ok" : "fail"); }
  else if (strcmp (cmd, "pump") == 0)
    { pump (); say ("ok\n"); }
  else if (strcmp (cmd, "drain") == 0)
    drain ();
  else if (strcmp (cmd, "failsend") == 0 && a >= 0 && a < MAXC)
    failsend (a, arg2, k, j);
  else if (strcmp (cmd, "close") == 0 && a >= 0 && a < MAXC && clients[a] != NULL)
    {
      dbus_connection_close (clients[a]);
      pump ();
      say ("ok\n");
    }
  else
    say ("bad-op\n");
  free (arg); free (arg2);
  return 0;
}

static void run_child (char **block, int n_block)
{
  int i;
  in_child = 1;
  quiet = 1;
  for (i = 0; i < n_prefix; i++) exec_line (prefix_lines[i]);
  quiet = 0;
  printf ("ok\n");
  for (i = 0; i < n_block; i++) { exec_line (block[i]); fflush (stdout); }
  teardown ();
  printf ("leak blocks=%d\n", _dbus_get_malloc_blocks_outstanding ());
  fflush (stdout);
}

int main (int argc, char **argv)
{
  char *line = NULL;
  size_t cap = 0;
  int storing = 0, i;      /* 1: prefix, 2: fork block */
  char **block = NULL;
  int n_block = 0;
  while (getline (&line, &cap, stdin) > 0)
    {
      char cmd[32] = "";
      sscanf (line, "%31s", cmd);
      if (storing == 1)
        {
          if (strcmp (cmd, "endprefix") == 0) { storing = 0; printf ("ok\n"); fflush (stdout); continue; }
          prefix_lines = realloc (prefix_lines, sizeof (char *) * (n_prefix + 1));
          prefix_lines[n_prefix++] = strdup (line);
        }
      else if (storing == 2)
        {
          if (strcmp (cmd, "endfork") == 0)
            {
              /* the child never touches stdin: the block has been read in full */
              pid_t child;
              int st = 0;
              fflush (stdout);
              child = fork ();
              if (child == 0)
                {
                  run_child (block, n_block);
                  for (i = 0; i < n_block; i++) free (block[i]);
                  free (block);
                  for (i = 0; i < n_prefix; i++) free (prefix_lines[i]);
                  free (prefix_lines);
                  free (line);
                  return 0;           /* LeakSanitizer, when enabled, has its say now */
                }
              waitpid (child, &st, 0);
              printf ("child rc=%d\n", WIFEXITED (st) ? WEXITSTATUS (st) : 1000 + WTERMSIG (st));
              fflush (stdout);
              for (i = 0; i < n_block; i++) free (block[i]);
              n_block = 0;
              storing = 0;
              continue;
            }
          block = realloc (block, sizeof (char *) * (n_block + 1));
          block[n_block++] = strdup (line);
        }
      else if (strcmp (cmd, "prefix") == 0)
        {
          for (i = 0; i < n_prefix; i++) free (prefix_lines[i]);
          n_prefix = 0;
          storing = 1;
        }
      else if (strcmp (cmd, "fork") == 0)
        storing = 2;
      else if (strcmp (cmd, "oomconf") == 0)
        {
          /* oomconf <path>: load the configuration file with the 1st, 2nd, ... allocation failing; every such attempt
           * must fail with NoMemory (or get through) and leave nothing allocated */
          char path[4096] = "";
          int k, leak = 0, wrong = 0, failed = 0, loaded = 0, first_leak = 0;
          sscanf (line, "%*s %4095s", path);
          {
            /* once with memory available: whatever libdbus caches for the life of the process exists from now on */
            DBusString cf0; DBusError e0 = DBUS_ERROR_INIT; BusConfigParser *p0;
            _dbus_string_init_const (&cf0, path);
            p0 = bus_config_load (&cf0, TRUE, NULL, &e0);
            if (p0) bus_config_parser_unref (p0); else dbus_error_free (&e0);
          }
          for (k = 1; k < 20000; k++)
            {
              DBusString cf; DBusError e = DBUS_ERROR_INIT; BusConfigParser *parser;
              int before = _dbus_get_malloc_blocks_outstanding (), fired;
              _dbus_string_init_const (&cf, path);
              _dbus_set_fail_alloc_counter (k - 1);
              parser = bus_config_load (&cf, TRUE, NULL, &e);
              fired = _dbus_get_fail_alloc_counter () > _DBUS_INT_MAX / 2;
              _dbus_set_fail_alloc_counter (_DBUS_INT_MAX);
              if (parser != NULL) { bus_config_parser_unref (parser); if (!fired) { loaded = 1; } }
              else
                {
                  if (fired) failed++;
                  if (!dbus_error_has_name (&e, DBUS_ERROR_NO_MEMORY)) wrong++;
                  dbus_error_free (&e);
                }
              if (_dbus_get_malloc_blocks_outstanding () != before) { leak++; if (first_leak == 0) first_leak = k; }
              if (!fired) break;
            }
          printf ("allocations=%d failed=%d loaded=%d leak=%d first-leak-at=%d wrong-error=%d\n", k - 1, failed, loaded, leak, first_leak, wrong);
          fflush (stdout);
        }
      else
        { printf ("bad-op\n"); fflush (stdout); }
    }
  for (i = 0; i < n_prefix; i++) free (prefix_lines[i]);
  free (prefix_lines);
  free (block);
  free (line);
  return 0;
}
