/* K-tie harness for C17: one thread drives a client connection whose peer (the accepting side
 * of a real socket connection in the same process) is scripted. Timeouts are fired through
 * the timeout callbacks, never by sleeping. Script lines are the model driver's `pc …`. */
#include <config.h>
#include "pair.h"

#define MAXC 64
static DBusConnection *srv, *cli;
static DBusPendingCall *pcs[MAXC];
static DBusMessage *srvmsg[MAXC];
static unsigned serials[MAXC];
static int notified[MAXC], ncalls;
static char outcome[MAXC][32];
static char filters[4096];
static DBusTimeout *timeouts[256]; static int n_timeouts;

static int refuse_next_timeout;      /* the application's add-timeout function says no once: the send in progress fails */
static DBusMessage *retry_msg;       /* the message of a send that failed, kept for the application's second attempt */
static dbus_bool_t add_to (DBusTimeout *t, void *d)
{
  (void) d;
  if (refuse_next_timeout) { refuse_next_timeout = 0; return FALSE; }
  if (n_timeouts < 256) timeouts[n_timeouts++] = t;
  return TRUE;
}
static void rem_to (DBusTimeout *t, void *d) { int i; (void) d; for (i = 0; i < n_timeouts; i++) if (timeouts[i] == t) { timeouts[i] = timeouts[--n_timeouts]; return; } }
static void tog_to (DBusTimeout *t, void *d) { (void) t; (void) d; }

static void describe (DBusMessage *m, char *out, size_t n)
{
  dbus_int32_t tag = -1;
  if (dbus_message_is_signal (m, DBUS_INTERFACE_LOCAL, "Disconnected")) { snprintf (out, n, "D"); return; }
  if (dbus_message_get_type (m) == DBUS_MESSAGE_TYPE_ERROR && dbus_message_has_signature (m, "s"))
    {
      const char *en = dbus_message_get_error_name (m);
      if (!strcmp (en, DBUS_ERROR_NO_REPLY)) { snprintf (out, n, "T%u", dbus_message_get_reply_serial (m)); return; }
      if (!strcmp (en, DBUS_ERROR_DISCONNECTED)) { snprintf (out, n, "X"); return; }
    }
  if (dbus_message_get_args (m, NULL, DBUS_TYPE_INT32, &tag, DBUS_TYPE_INVALID)) snprintf (out, n, "r%d", tag);
  else snprintf (out, n, "?%d", dbus_message_get_type (m));
}

static int nested_block = -1;        /* the filter, handed its next message, waits for this call (a blocking wait inside a dispatch) */

static DBusHandlerResult filter (DBusConnection *c, DBusMessage *m, void *d)
{
  char buf[32]; (void) c; (void) d;
  describe (m, buf, sizeof buf);
  if (filters[0]) strcat (filters, ",");
  strcat (filters, buf);
  if (nested_block >= 0)
    {
      int k = nested_block;
      nested_block = -1;
      if (pcs[k]) dbus_pending_call_block (pcs[k]);
    }
  return DBUS_HANDLER_RESULT_NOT_YET_HANDLED;
}

static void notify_cb (DBusPendingCall *p, void *data) { (void) p; notified[(int) (long) data]++; }

static void note_outcome (int i)
{
  if (outcome[i][0] == 0 && pcs[i] && dbus_pending_call_get_completed (pcs[i]))
    {
      DBusMessage *r = dbus_pending_call_steal_reply (pcs[i]);
      if (r) { char b[32]; describe (r, b, sizeof b); if (b[0] == 'T') strcpy (b, "T"); strcpy (outcome[i], b); dbus_message_unref (r); }
      else strcpy (outcome[i], "null");
    }
}

static void reset (void)
{
  int i;
  for (i = 0; i < ncalls; i++)
    {
      if (pcs[i]) { dbus_pending_call_cancel (pcs[i]); dbus_pending_call_unref (pcs[i]); pcs[i] = NULL; }
      if (srvmsg[i]) { dbus_message_unref (srvmsg[i]); srvmsg[i] = NULL; }
      notified[i] = 0; outcome[i][0] = 0;
    }
  ncalls = 0; filters[0] = 0; n_timeouts = 0; refuse_next_timeout = 0; nested_block = -1;
  if (retry_msg) { dbus_message_unref (retry_msg); retry_msg = NULL; }
  if (cli) { dbus_connection_close (cli); dbus_connection_unref (cli); cli = NULL; }
  if (srv) { if (dbus_connection_get_is_connected (srv)) dbus_connection_close (srv); dbus_connection_unref (srv); srv = NULL; pair_server_conn = NULL; }
  pair_n_watch = 0;
  if (pair_make (&srv, &cli)) exit (2);
  dbus_connection_set_timeout_functions (cli, add_to, rem_to, tog_to, NULL, NULL);
  dbus_connection_add_filter (cli, filter, NULL, NULL);
}

int
main (void)
{
  char line[256];
  while (fgets (line, sizeof line, stdin))
    {
      char cmd[32]; long a = 0, b = 0; int i;
      int n = sscanf (line, "pc %31s %ld %ld", cmd, &a, &b);
      if (n < 1) { printf ("bad-op\n"); continue; }
      if (!strcmp (cmd, "reset")) { reset (); printf ("ok\n"); }
      else if (!cli) printf ("bad-op\n");
      else if ((!strcmp (cmd, "send") && n == 3) || !strcmp (cmd, "sendser"))
        {
          DBusMessage *m = dbus_message_new_method_call (NULL, "/p", "v.I", "M");
          DBusPendingCall *p = NULL;
          if (!strcmp (cmd, "sendser"))
            {
              unsigned long ser; long f2, n2;
              sscanf (line, "pc sendser %lu %ld %ld", &ser, &f2, &n2);
              dbus_message_set_serial (m, (dbus_uint32_t) ser); a = f2; b = n2;
            }
          i = ncalls;
          if (!dbus_connection_send_with_reply (cli, m, &p, a ? 100000 + i : DBUS_TIMEOUT_INFINITE)) return 2;
          if (!p) printf ("no-pending\n");
          else
            {
              int k;
              ncalls++;
              pcs[i] = p; serials[i] = dbus_message_get_serial (m);
              if (b) dbus_pending_call_set_notify (p, notify_cb, (void *) (long) i, NULL);
              dbus_connection_flush (cli);
              for (k = 0; k < 1000 && !srvmsg[i]; k++)
                {
                  dbus_connection_read_write (srv, 1);
                  srvmsg[i] = dbus_connection_pop_message (srv);
                }
              printf ("serial=%u\n", serials[i]);
            }
          dbus_message_unref (m);
        }
      else if (!strcmp (cmd, "failsend"))
        {
          /* dbus_connection_send_with_reply fails after the message was given its serial */
          DBusMessage *m = dbus_message_new_method_call (NULL, "/p", "v.I", "M");
          DBusPendingCall *p = NULL;
          if (!dbus_connection_get_is_connected (cli)) { printf ("no-pending\n"); dbus_message_unref (m); fflush (stdout); continue; }
          refuse_next_timeout = 1;
          if (dbus_connection_send_with_reply (cli, m, &p, 100000 + 63))
            { printf ("did-not-fail\n"); if (p) { dbus_pending_call_cancel (p); dbus_pending_call_unref (p); } dbus_message_unref (m); }
          else
            {
              if (retry_msg) dbus_message_unref (retry_msg);
              retry_msg = m;
              printf ("failed serial=%u\n", dbus_message_get_serial (m));
            }
          refuse_next_timeout = 0;
        }
      else if (!strcmp (cmd, "retry") && n == 3)
        {
          DBusPendingCall *p = NULL; DBusMessage *m = retry_msg;
          if (!m) { printf ("bad-op\n"); fflush (stdout); continue; }
          retry_msg = NULL;
          i = ncalls;
          if (!dbus_connection_send_with_reply (cli, m, &p, a ? 100000 + i : DBUS_TIMEOUT_INFINITE)) return 2;
          if (!p) printf ("no-pending\n");
          else
            {
              int k;
              ncalls++;
              pcs[i] = p; serials[i] = dbus_message_get_serial (m);
              if (b) dbus_pending_call_set_notify (p, notify_cb, (void *) (long) i, NULL);
              dbus_connection_flush (cli);
              for (k = 0; k < 1000 && !srvmsg[i]; k++)
                {
                  dbus_connection_read_write (srv, 1);
                  srvmsg[i] = dbus_connection_pop_message (srv);
                }
              printf ("serial=%u\n", serials[i]);
            }
          dbus_message_unref (m);
        }
      else if (!strcmp (cmd, "peer") && n == 3)
        {
          DBusMessage *r; dbus_int32_t tag = (dbus_int32_t) b;
          if (a < 0 || a >= ncalls || !srvmsg[a]) { printf ("bad-op\n"); continue; }
          r = (b % 2 == 0) ? dbus_message_new_method_return (srvmsg[a]) : dbus_message_new_error (srvmsg[a], "v.E", NULL);
          dbus_message_append_args (r, DBUS_TYPE_INT32, &tag, DBUS_TYPE_INVALID);
          dbus_connection_send (srv, r, NULL); dbus_connection_flush (srv); dbus_message_unref (r);
          printf ("ok\n");
        }
      else if (!strcmp (cmd, "peer-signal") && n == 3)
        {
          /* not a reply at all, but it carries the call's serial in REPLY_SERIAL: libdbus pairs messages with pending calls by
           * that field alone */
          DBusMessage *r; dbus_int32_t tag = (dbus_int32_t) b;
          if (a < 0 || a >= ncalls) { printf ("bad-op\n"); continue; }
          r = dbus_message_new_signal ("/p", "v.I", "S");
          dbus_message_set_reply_serial (r, serials[a]);
          dbus_message_append_args (r, DBUS_TYPE_INT32, &tag, DBUS_TYPE_INVALID);
          dbus_connection_send (srv, r, NULL); dbus_connection_flush (srv); dbus_message_unref (r);
          printf ("ok\n");
        }
      else if (!strcmp (cmd, "peer-stray") && n == 3)
        {
          DBusMessage *r = dbus_message_new (DBUS_MESSAGE_TYPE_METHOD_RETURN); dbus_int32_t tag = (dbus_int32_t) b;
          dbus_message_set_reply_serial (r, (dbus_uint32_t) a);
          dbus_message_append_args (r, DBUS_TYPE_INT32, &tag, DBUS_TYPE_INVALID);
          dbus_connection_send (srv, r, NULL); dbus_connection_flush (srv); dbus_message_unref (r);
          printf ("ok\n");
        }
      else if (!strcmp (cmd, "pump"))
        {
          for (i = 0; i < 4; i++) dbus_connection_read_write (cli, 0);
          printf ("ok\n");
        }
      else if (!strcmp (cmd, "dispatch")) { dbus_connection_dispatch (cli); printf ("ok\n"); }
      else if (!strcmp (cmd, "dispatch-block") && n >= 2)
        {
          if (a < 0 || a >= ncalls) { printf ("bad-op\n"); fflush (stdout); continue; }
          nested_block = (int) a;
          dbus_connection_dispatch (cli);
          if (nested_block >= 0) { nested_block = -1; printf ("ok-nofilter\n"); }
          else printf ("ok\n");
        }
      else if (!strcmp (cmd, "fire") && n >= 2)
        {
          int hit = 0;
          for (i = 0; i < n_timeouts; i++)
            if (dbus_timeout_get_interval (timeouts[i]) == 100000 + a && dbus_timeout_get_enabled (timeouts[i]))
              { dbus_timeout_handle (timeouts[i]); hit = 1; break; }
          printf (hit ? "fired\n" : "no-timeout\n");
        }
      else if (!strcmp (cmd, "cancel") && n >= 2) { dbus_pending_call_cancel (pcs[a]); printf ("ok\n"); }
      else if (!strcmp (cmd, "block") && n >= 2) { dbus_pending_call_block (pcs[a]); printf ("ok\n"); }
      else if (!strcmp (cmd, "close-peer")) { dbus_connection_close (srv); printf ("ok\n"); }
      else if (!strcmp (cmd, "status"))
        {
          for (i = 0; i < ncalls; i++)
            {
              int arm = 0, k;
              note_outcome (i);
              for (k = 0; k < n_timeouts; k++)
                if (dbus_timeout_get_interval (timeouts[k]) == 100000 + i && dbus_timeout_get_enabled (timeouts[k])) arm = 1;
              printf ("%sc%d:ser=%u,done=%s,n=%d,arm=%d", i ? " " : "", i, serials[i], outcome[i][0] ? outcome[i] : "-", notified[i], arm);
            }
          printf ("%sfilters=%s conn=%d\n", ncalls ? " " : "", filters[0] ? filters : "-", dbus_connection_get_is_connected (cli) ? 1 : 0);
        }
      else if (!strcmp (cmd, "final"))
        {
          for (i = 0; i < ncalls; i++)
            printf ("%sc%d:completions=%d,notified=%d", i ? " " : "", i, dbus_pending_call_get_completed (pcs[i]) ? 1 : 0, notified[i]);
          printf ("\n");
        }
      else printf ("bad-op\n");
      fflush (stdout);
    }
  return 0;
}
