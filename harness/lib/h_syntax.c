/* K-tie harness for C16: runs the validators of the working tree on enumerated and random
 * strings and prints `syn <hex> <bits>` / `sig <hex> <bits>` lines for the model driver.
 * bits (syn): member interface error busname namespace path utf8; (sig): validate single.
 * Public wrappers (dbus_validate_*, dbus_signature_validate*) are cross-checked in-process
 * against the internal predicates; a difference prints an INCONSISTENT line. */
#include <config.h>
#include <stdio.h>
#include <stdlib.h>
#include <string.h>
#include <dbus/dbus.h>
#include "dbus/dbus-internals.h"
#include "dbus/dbus-string.h"
#include "dbus/dbus-marshal-validate.h"

static unsigned long long rng_state;
static unsigned rnd (void)
{
  rng_state = rng_state * 6364136223846793005ULL + 1442695040888963407ULL;
  return (unsigned) (rng_state >> 33);
}

static unsigned long n_lines, n_inconsistent;

static void put_hex (const unsigned char *s, int len)
{
  static const char hx[] = "0123456789abcdef";
  int i;
  if (len == 0) { putchar ('-'); return; }
  for (i = 0; i < len; i++) { putchar (hx[s[i] >> 4]); putchar (hx[s[i] & 15]); }
}

static void inconsistent (const char *what, const unsigned char *s, int len, int a, int b)
{
  int i;
  n_inconsistent++;
  fprintf (stderr, "INCONSISTENT %s ", what);
  for (i = 0; i < len; i++) fprintf (stderr, "%02x", s[i]);
  fprintf (stderr, " internal=%d public=%d\n", a, b);
}

static void emit_syn (const unsigned char *s, int len)
{
  DBusString str;
  int m, i, e, b, n, p, u;
  _dbus_string_init_const_len (&str, (const char *) s, len);
  m = _dbus_validate_member (&str, 0, len);
  i = _dbus_validate_interface (&str, 0, len);
  e = _dbus_validate_error_name (&str, 0, len);
  b = _dbus_validate_bus_name (&str, 0, len);
  n = _dbus_validate_bus_namespace (&str, 0, len);
  p = _dbus_validate_path (&str, 0, len);
  u = _dbus_string_validate_utf8 (&str, 0, len);
  fputs ("syn ", stdout); put_hex (s, len);
  printf (" %d%d%d%d%d%d%d\n", !!m, !!i, !!e, !!b, !!n, !!p, !!u);
  n_lines++;
  if (len <= 600)
    {
      /* the verdicts are about the bytes [start, start+len) and nothing else: the same text inside a longer string (as a
       * header field lies inside a header), with dots, slashes and colons before and after it */
      static unsigned char inside[2 + 600 + 8];
      DBusString s3;
      int m3, i3, e3, b3, n3, p3;
      memcpy (inside, "Z.", 2); memcpy (inside + 2, s, len); memcpy (inside + 2 + len, ".a/b:c_", 8);
      _dbus_string_init_const_len (&s3, (const char *) inside, 2 + len + 8);
      m3 = _dbus_validate_member (&s3, 2, len);
      i3 = _dbus_validate_interface (&s3, 2, len);
      e3 = _dbus_validate_error_name (&s3, 2, len);
      b3 = _dbus_validate_bus_name (&s3, 2, len);
      n3 = _dbus_validate_bus_namespace (&s3, 2, len);
      p3 = _dbus_validate_path (&s3, 2, len);
      if (!!m3 != !!m) inconsistent ("member-inside-a-longer-string", s, len, m, m3);
      if (!!i3 != !!i) inconsistent ("interface-inside-a-longer-string", s, len, i, i3);
      if (!!e3 != !!e) inconsistent ("error-inside-a-longer-string", s, len, e, e3);
      if (!!b3 != !!b) inconsistent ("busname-inside-a-longer-string", s, len, b, b3);
      if (!!n3 != !!n) inconsistent ("namespace-inside-a-longer-string", s, len, n, n3);
      if (!!p3 != !!p) inconsistent ("path-inside-a-longer-string", s, len, p, p3);
    }
  if (len >= 8 && len <= 600)
    {
      /* the verdict may not depend on where in memory (or in its DBusString) the text lies: the same bytes at every offset 1..7 */
      static unsigned char shifted[8 + 600];
      int k;
      for (k = 1; k < 8; k++)
        {
          DBusString s2; int u2;
          memset (shifted, 'Z', k); memcpy (shifted + k, s, len);
          _dbus_string_init_const_len (&s2, (const char *) shifted, k + len);
          u2 = _dbus_string_validate_utf8 (&s2, k, len);
          if (!!u2 != !!u) inconsistent ("utf8-at-offset", s, len, u, u2);
        }
    }
  if (memchr (s, 0, len) == NULL)
    {
      /* s is NUL-terminated by the callers (buffer has a trailing 0) */
      const char *z = (const char *) s;
      int pm, pi, pe, pb, pp, pu;
      /* the public wrappers additionally require valid UTF-8 (always implied for ASCII
       * grammars: anything they accept is ASCII) */
      pm = dbus_validate_member (z, NULL);
      pi = dbus_validate_interface (z, NULL);
      pe = dbus_validate_error_name (z, NULL);
      pb = dbus_validate_bus_name (z, NULL);
      pp = dbus_validate_path (z, NULL);
      pu = dbus_validate_utf8 (z, NULL);
      if (!!pm != !!m) inconsistent ("member", s, len, m, pm);
      if (!!pi != !!i) inconsistent ("interface", s, len, i, pi);
      if (!!pe != !!e) inconsistent ("error", s, len, e, pe);
      if (!!pb != !!b) inconsistent ("busname", s, len, b, pb);
      if (!!pp != !!p) inconsistent ("path", s, len, p, pp);
      if (!!pu != !!u) inconsistent ("utf8", s, len, u, pu);
    }
}

static void emit_sig (const unsigned char *s, int len)
{
  DBusString str;
  int v, single = 0;
  _dbus_string_init_const_len (&str, (const char *) s, len);
  v = _dbus_validate_signature_with_reason (&str, 0, len) == DBUS_VALID;
  if (memchr (s, 0, len) == NULL)
    {
      int pv = dbus_signature_validate ((const char *) s, NULL);
      if (!!pv != !!v) inconsistent ("signature", s, len, v, pv);
      single = dbus_signature_validate_single ((const char *) s, NULL);
    }
  fputs ("sig ", stdout); put_hex (s, len);
  printf (" %d%d\n", !!v, !!single);
  n_lines++;
}

static void enumerate (const unsigned char *alpha, int na, int maxlen, int is_sig)
{
  unsigned char buf[64];
  int idx[64];
  int len, i;
  for (len = 0; len <= maxlen; len++)
    {
      for (i = 0; i < len; i++) idx[i] = 0;
      for (;;)
        {
          for (i = 0; i < len; i++) buf[i] = alpha[idx[i]];
          buf[len] = 0;
          if (is_sig)
            {
              if (memchr (buf, 0, len) == NULL) emit_sig (buf, len);
            }
          else
            emit_syn (buf, len);
          for (i = len - 1; i >= 0; i--)
            {
              if (++idx[i] < na) break;
              idx[i] = 0;
            }
          if (i < 0) break;
        }
    }
}

/* all 1..4(-6) byte forms over lead-byte and continuation-byte class representatives */
static void utf8_classes (void)
{
  static const unsigned char leads[] = { 0x00, 0x01, 0x41, 0x7f, 0x80, 0xbf, 0xc0, 0xc1, 0xc2, 0xdf,
    0xe0, 0xe1, 0xec, 0xed, 0xee, 0xef, 0xf0, 0xf1, 0xf3, 0xf4, 0xf5, 0xf7, 0xf8, 0xfb, 0xfc, 0xfd,
    0xfe, 0xff };
  static const unsigned char conts[] = { 0x00, 0x41, 0x7f, 0x80, 0x8f, 0x90, 0x9f, 0xa0, 0xbf, 0xc0, 0xff };
  int nl = sizeof leads, nc = sizeof conts;
  int l, a, b, c, d, e;
  unsigned char buf[8];
  for (l = 0; l < nl; l++)
    {
      buf[0] = leads[l]; buf[1] = 0; emit_syn (buf, 1);
      for (a = 0; a < nc; a++)
        {
          buf[1] = conts[a]; buf[2] = 0; emit_syn (buf, 2);
          for (b = 0; b < nc; b++)
            {
              buf[2] = conts[b]; buf[3] = 0; emit_syn (buf, 3);
              for (c = 0; c < nc; c++)
                {
                  buf[3] = conts[c]; buf[4] = 0; emit_syn (buf, 4);
                  if (leads[l] >= 0xf8)
                    for (d = 0; d < nc; d += 3)
                      {
                        buf[4] = conts[d]; buf[5] = 0; emit_syn (buf, 5);
                        for (e = 0; e < nc; e += 3)
                          { buf[5] = conts[e]; buf[6] = 0; emit_syn (buf, 6); }
                      }
                }
            }
        }
    }
}

/* exhaustive code points: every scalar boundary ±2 encoded correctly, and over-long */
static int enc (unsigned cp, int forced_len, unsigned char *o)
{
  int len = forced_len ? forced_len : (cp < 0x80 ? 1 : cp < 0x800 ? 2 : cp < 0x10000 ? 3 : cp < 0x200000 ? 4 : cp < 0x4000000 ? 5 : 6);
  int i;
  static const unsigned char first[] = { 0, 0, 0xc0, 0xe0, 0xf0, 0xf8, 0xfc };
  if (len == 1) { o[0] = (unsigned char) cp; return 1; }
  for (i = len - 1; i > 0; i--) { o[i] = 0x80 | (cp & 0x3f); cp >>= 6; }
  o[0] = first[len] | cp;
  return len;
}

static void utf8_points (void)
{
  static const unsigned pts[] = { 0, 1, 0x7f, 0x80, 0x7ff, 0x800, 0xfff, 0x1000, 0xd7ff, 0xd800, 0xdbff,
    0xdc00, 0xdfff, 0xe000, 0xfdd0, 0xfffd, 0xfffe, 0xffff, 0x10000, 0x1fffe, 0x1ffff, 0x3ffff, 0x40000,
    0xfffff, 0x100000, 0x10ffff, 0x110000, 0x1fffff, 0x200000, 0x3ffffff, 0x4000000, 0x7fffffff };
  unsigned i; int d, fl;
  unsigned char buf[16];
  for (i = 0; i < sizeof pts / sizeof pts[0]; i++)
    for (d = -2; d <= 2; d++)
      {
        long long cp = (long long) pts[i] + d;
        if (cp < 0 || cp > 0x7fffffff) continue;
        for (fl = 0; fl <= 6; fl++)
          {
            int n;
            if (fl == 1 && cp >= 0x80) continue;
            if (fl == 2 && cp >= 0x800) continue;
            if (fl == 3 && cp >= 0x10000) continue;
            if (fl == 4 && cp >= 0x200000) continue;
            if (fl == 5 && cp >= 0x4000000) continue;
            n = enc ((unsigned) cp, fl, buf + 1);
            buf[0] = 'x'; buf[n + 1] = 'y'; buf[n + 2] = 0;
            emit_syn (buf + 1, n);        /* alone */
            emit_syn (buf, n + 2);        /* embedded */
            { unsigned char save = buf[n]; buf[n] = 0; emit_syn (buf, n); buf[n] = save; } /* truncated by one */
          }
      }
}

/* one odd byte at every position of otherwise plain texts of every length up to 48 (and a few longer ones): a validator that
 * looks at several bytes at a time must still see each of them */
static void utf8_positions (void)
{
  static const unsigned char odd[] = { 0x00, 0x80, 0xff, 0xc3, 0xed };
  static const int lens[] = { 63, 64, 65, 127, 128, 129, 255, 256, 257 };
  static unsigned char buf[8 + 300];
  int len, p, o, pre;
  unsigned li;
  for (len = 1; len <= 48 + (int) (sizeof lens / sizeof lens[0]); len++)
    {
      int n = len <= 48 ? len : lens[len - 49];
      int step = n <= 48 ? 1 : 7;
      for (pre = 0; pre < 3; pre++)                 /* nothing, or a two-byte / three-byte character in front (shifts everything) */
        for (p = 0; p < n; p += step)
          for (o = 0; o < (int) sizeof odd; o++)
            {
              int off = 0;
              if (pre == 1) { buf[0] = 0xc3; buf[1] = 0xa9; off = 2; }
              if (pre == 2) { buf[0] = 0xe2; buf[1] = 0x82; buf[2] = 0xac; off = 3; }
              memset (buf + off, 'a' + (n % 20), n);
              buf[off + p] = odd[o];
              buf[off + n] = 0;
              emit_syn (buf, off + n);
            }
    }
  (void) li;
}

/* random strings with lengths around the 255 limit, from grammar-specific templates */
static void random_limits (int count)
{
  unsigned char buf[600];
  int k;
  for (k = 0; k < count; k++)
    {
      int len = 250 + rnd () % 10, i, kind = rnd () % 6;
      if (rnd () % 8 == 0) len = rnd () % 300;
      for (i = 0; i < len; i++)
        {
          unsigned r = rnd () % 100;
          if (kind == 0) buf[i] = "abcXYZ_019"[rnd () % 10];
          else if (kind == 1) buf[i] = r < 12 ? '.' : "abcXYZ_019"[rnd () % 10];
          else if (kind == 2) buf[i] = r < 12 ? '.' : "abXY_01-"[rnd () % 8];
          else if (kind == 3) buf[i] = r < 15 ? '/' : "abXY_01"[rnd () % 7];
          else if (kind == 4) buf[i] = r < 90 ? "abcdefg"[rnd () % 7] : (unsigned char) (rnd () % 256);
          else buf[i] = (unsigned char) (rnd () % 256);
        }
      if (kind == 2 && rnd () % 2) buf[0] = ':';
      if (kind == 3) buf[0] = '/';
      if ((kind == 1 || kind == 2) && len > 2 && rnd () % 4) { if (buf[len - 1] == '.') buf[len - 1] = 'a'; }
      /* make dotted templates mostly valid: no "..", no digit after '.' for kind 1 */
      if (kind == 1 || kind == 2 || kind == 3)
        for (i = 1; i < len; i++)
          {
            unsigned char sep = kind == 3 ? '/' : '.';
            if (buf[i] == sep && buf[i - 1] == sep && rnd () % 10) buf[i] = 'a';
            if (kind == 1 && buf[i - 1] == '.' && buf[i] >= '0' && buf[i] <= '9' && rnd () % 10) buf[i] = 'b';
          }
      if (kind == 1 && buf[0] >= '0' && buf[0] <= '9') buf[0] = 'a';
      buf[len] = 0;
      emit_syn (buf, len);
    }
}

static void random_sigs (int count)
{
  unsigned char buf[600];
  int k;
  for (k = 0; k < count; k++)
    {
      int len = 0, target = 240 + rnd () % 20, depth = 0;
      char stack[600];
      if (rnd () % 4 == 0) target = rnd () % 60;
      /* grow a mostly valid signature by random productions */
      while (len < target)
        {
          unsigned r = rnd () % 100;
          if (r < 40) buf[len++] = "ybnqiuxtdsogvh"[rnd () % 14];
          else if (r < 55) buf[len++] = 'a';
          else if (r < 70 && depth < 40) { buf[len++] = '('; stack[depth++] = ')'; }
          else if (r < 78 && depth < 40 && len + 2 < target) { buf[len++] = 'a'; buf[len++] = '{'; buf[len++] = "sui"[rnd () % 3]; stack[depth++] = '}'; }
          else if (depth > 0) buf[len++] = stack[--depth];
          else buf[len++] = 'i';
        }
      while (depth > 0 && len < 590) buf[len++] = stack[--depth];
      if (rnd () % 5 == 0 && len > 0) buf[rnd () % len] = "a(){}sZ"[rnd () % 7];
      buf[len] = 0;
      emit_sig (buf, len);
    }
}

/* nesting builders for the 32/33 boundaries of each counter, alone and mixed */
static void deep (void)
{
  unsigned char buf[700];
  int na, ns, nd, len, i, style;
  for (style = 0; style < 4; style++)
    for (na = 0; na <= 34; na += (na < 30 ? 10 : 1))
      for (ns = 0; ns <= 34; ns += (ns < 30 ? 10 : 1))
        for (nd = 0; nd <= 34; nd += (nd < 30 ? 17 : 1))
          {
            len = 0;
            if (style == 0)
              { /* a…a (…( a{s…  */
                for (i = 0; i < na; i++) buf[len++] = 'a';
                for (i = 0; i < ns; i++) buf[len++] = '(';
                for (i = 0; i < nd; i++) { buf[len++] = 'a'; buf[len++] = '{'; buf[len++] = 's'; }
                buf[len++] = 'y';
                for (i = 0; i < nd; i++) buf[len++] = '}';
                for (i = 0; i < ns; i++) buf[len++] = ')';
              }
            else if (style == 1)
              { /* alternating a( */
                int m = na < ns ? na : ns;
                for (i = 0; i < m; i++) { buf[len++] = 'a'; buf[len++] = '('; }
                for (i = m; i < na; i++) buf[len++] = 'a';
                for (i = 0; i < nd; i++) { buf[len++] = 'a'; buf[len++] = '{'; buf[len++] = 's'; }
                buf[len++] = 'y';
                for (i = 0; i < nd; i++) buf[len++] = '}';
                for (i = 0; i < m; i++) buf[len++] = ')';
              }
            else if (style == 2)
              { /* structs first then arrays inside */
                for (i = 0; i < ns; i++) buf[len++] = '(';
                for (i = 0; i < na; i++) buf[len++] = 'a';
                buf[len++] = 'y';
                for (i = 0; i < ns; i++) buf[len++] = ')';
                if (nd > 0) continue;
              }
            else
              { /* dict entries outermost */
                for (i = 0; i < nd; i++) { buf[len++] = 'a'; buf[len++] = '{'; buf[len++] = 's'; }
                for (i = 0; i < na; i++) buf[len++] = 'a';
                for (i = 0; i < ns; i++) buf[len++] = '(';
                buf[len++] = 'y';
                for (i = 0; i < ns; i++) buf[len++] = ')';
                for (i = 0; i < nd; i++) buf[len++] = '}';
              }
            if (len > 600) continue;
            buf[len] = 0;
            emit_sig (buf, len);
          }
}

int
main (int argc, char **argv)
{
  const char *mode = argc > 1 ? argv[1] : "";
  static char obuf[1 << 20];
  setvbuf (stdout, obuf, _IOFBF, sizeof obuf);
  if (!strcmp (mode, "names") && argc > 2)
    {
      static const unsigned char alpha[] = { 'A', 'a', '0', '_', '-', '.', ':', '/', 0x00, 0x80 };
      enumerate (alpha, sizeof alpha, atoi (argv[2]), 0);
    }
  else if (!strcmp (mode, "sigcore") && argc > 2)
    enumerate ((const unsigned char *) "a(){}s", 6, atoi (argv[2]), 1);
  else if (!strcmp (mode, "sigext") && argc > 2)
    enumerate ((const unsigned char *) "a(){}sivyxZ", 11, atoi (argv[2]), 1);
  else if (!strcmp (mode, "utf8"))
    { utf8_classes (); utf8_points (); utf8_positions (); }
  else if (!strcmp (mode, "deep"))
    deep ();
  else if (!strcmp (mode, "random") && argc > 3)
    {
      rng_state = strtoull (argv[2], NULL, 10) * 2654435761ULL + 12345;
      random_limits (atoi (argv[3]));
      random_sigs (atoi (argv[3]));
    }
  else if (!strcmp (mode, "one") && argc > 3)
    { /* replay: one <syn|sig> <hex> */
      unsigned char buf[4096]; int len = 0; const char *h = argv[3];
      if (strcmp (h, "-"))
        for (; h[0] && h[1] && len < 4000; h += 2)
          { unsigned v; sscanf (h, "%2x", &v); buf[len++] = (unsigned char) v; }
      buf[len] = 0;
      if (!strcmp (argv[2], "sig")) emit_sig (buf, len); else emit_syn (buf, len);
    }
  else
    { fprintf (stderr, "usage: h_syntax names N | sigcore N | sigext N | utf8 | deep | random SEED COUNT | one KIND HEX\n"); return 2; }
  fflush (stdout);
  fprintf (stderr, "h_syntax: lines=%lu inconsistent=%lu\n", n_lines, n_inconsistent);
  return 0;
}
