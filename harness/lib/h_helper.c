/* Unit-level harness for the activation helper's two parsers: the command-line splitter of
 * dbus/dbus-shell.c and the service-file parser of bus/desktop-file.c (included, to reach the
 * parsed structure).  Ops, one per line:
 *    helper shell <hex>      -> ok <argv as hex words> | invalid | nomem | err <name>
 *    helper desktop <hex>    -> ok <sections> | fail
 */
#include <config.h>
#include "bus/desktop-file.c"
#include <dbus/dbus-shell.h>
#include <stdio.h>
#include <stdlib.h>
#include <string.h>
#include <unistd.h>

static int unhex (const char *s, unsigned char **out)
{
  size_t n = strlen (s), i;
  unsigned char *b;
  if (strcmp (s, "-") == 0 || strcmp (s, "e") == 0) { *out = calloc (1, 1); return 0; }
  if (n % 2) return -1;
  b = calloc (n / 2 + 1, 1);
  for (i = 0; i < n / 2; i++)
    {
      unsigned v;
      if (sscanf (s + 2 * i, "%2x", &v) != 1) { free (b); return -1; }
      b[i] = (unsigned char) v;
    }
  *out = b;
  return (int) (n / 2);
}

static void puthex (const char *s, size_t n)
{
  size_t i;
  if (n == 0) { printf ("e"); return; }
  for (i = 0; i < n; i++) printf ("%02x", (unsigned char) s[i]);
}

int main (int argc, char **argv)
{
  char *line = NULL;
  size_t cap = 0;
  char tmpl[] = "/var/tmp/h_helper_XXXXXX";
  int tfd = mkstemp (tmpl);
  if (tfd < 0) return 3;
  close (tfd);
  while (getline (&line, &cap, stdin) > 0)
    {
      char a[32], b[32];
      char *hex = malloc (strlen (line) + 1);
      unsigned char *data = NULL;
      int n;
      if (sscanf (line, "%31s %31s %s", a, b, hex) != 3 || strcmp (a, "helper") != 0 || (n = unhex (hex, &data)) < 0)
        { printf ("bad-op\n"); free (hex); continue; }
      if (strcmp (b, "shell") == 0)
        {
          DBusError e = DBUS_ERROR_INIT;
          int ac = 0; char **av = NULL;
          /* a C string: the model is given the bytes before the first NUL */
          if (_dbus_shell_parse_argv ((const char *) data, &ac, &av, &e))
            {
              int i;
              printf ("ok ");
              if (ac == 0) printf ("-");
              for (i = 0; i < ac; i++) { if (i) printf (","); puthex (av[i], strlen (av[i])); }
              printf ("\n");
              dbus_free_string_array (av);
            }
          else if (dbus_error_has_name (&e, DBUS_ERROR_INVALID_ARGS)) printf ("invalid\n");
          else if (dbus_error_has_name (&e, DBUS_ERROR_NO_MEMORY)) printf ("nomem\n");
          else printf ("err %s\n", e.name ? e.name : "?");
          dbus_error_free (&e);
        }
      else if (strcmp (b, "desktop") == 0)
        {
          DBusError e = DBUS_ERROR_INIT;
          DBusString fn;
          BusDesktopFile *f;
          FILE *o = fopen (tmpl, "wb");
          fwrite (data, 1, (size_t) n, o); fclose (o);
          _dbus_string_init_const (&fn, tmpl);
          f = bus_desktop_file_load (&fn, &e);
          if (f == NULL) { printf ("fail\n"); dbus_error_free (&e); }
          else
            {
              int i, j;
              printf ("ok ");
              if (f->n_sections == 0) printf ("-");
              for (i = 0; i < f->n_sections; i++)
                {
                  if (i) printf (";");
                  printf ("S:"); puthex (f->sections[i].section_name, strlen (f->sections[i].section_name));
                  for (j = 0; j < f->sections[i].n_lines; j++)
                    {
                      printf (";K:"); puthex (f->sections[i].lines[j].key, strlen (f->sections[i].lines[j].key));
                      printf ("="); puthex (f->sections[i].lines[j].value, strlen (f->sections[i].lines[j].value));
                    }
                }
              printf ("\n");
              bus_desktop_file_free (f);
            }
        }
      else printf ("bad-op\n");
      free (hex); free (data);
      fflush (stdout);
    }
  unlink (tmpl);
  return 0;
}
