/* Virtual time for the daemon under test (LD_PRELOAD): the harness writes a millisecond offset
 * into the file named by VERIF_CLOCK_FILE; every reading of the clock the daemon takes
 * (gettimeofday / clock_gettime(CLOCK_MONOTONIC), whichever _dbus_get_monotonic_time was
 * configured to use) is shifted by it.  Advancing the offset past a deadline and then making the
 * daemon's main loop turn (any socket traffic) fires the timeout, without real waiting and without
 * a race against the rest of the history. */
#define _GNU_SOURCE
#include <dlfcn.h>
#include <time.h>
#include <sys/time.h>
#include <sys/mman.h>
#include <sys/stat.h>
#include <fcntl.h>
#include <stdlib.h>
#include <unistd.h>

static volatile long long *offset_ms;
static int tried;

static void init_offset (void)
{
  const char *p;
  int fd;
  void *m;
  if (tried)
    return;
  tried = 1;
  p = getenv ("VERIF_CLOCK_FILE");
  if (p == NULL)
    return;
  fd = open (p, O_RDONLY | O_CLOEXEC);
  if (fd < 0)
    return;
  m = mmap (NULL, sizeof (long long), PROT_READ, MAP_SHARED, fd, 0);
  close (fd);
  if (m != MAP_FAILED)
    offset_ms = m;
}

int gettimeofday (struct timeval *tv, void *tz)
{
  static int (*real) (struct timeval *, void *);
  int r;
  if (real == NULL)
    real = dlsym (RTLD_NEXT, "gettimeofday");
  r = real (tv, tz);
  init_offset ();
  if (r == 0 && tv != NULL && offset_ms != NULL)
    {
      long long o = *offset_ms;
      tv->tv_sec += o / 1000;
      tv->tv_usec += (o % 1000) * 1000;
      if (tv->tv_usec >= 1000000)
        {
          tv->tv_usec -= 1000000;
          tv->tv_sec += 1;
        }
    }
  return r;
}

int clock_gettime (clockid_t id, struct timespec *ts)
{
  static int (*real) (clockid_t, struct timespec *);
  int r;
  if (real == NULL)
    real = dlsym (RTLD_NEXT, "clock_gettime");
  r = real (id, ts);
  init_offset ();
  if (r == 0 && ts != NULL && id == CLOCK_MONOTONIC && offset_ms != NULL)
    {
      long long o = *offset_ms;
      ts->tv_sec += o / 1000;
      ts->tv_nsec += (o % 1000) * 1000000;
      if (ts->tv_nsec >= 1000000000)
        {
          ts->tv_nsec -= 1000000000;
          ts->tv_sec += 1;
        }
    }
  return r;
}
