#!/usr/bin/env python3
"""T-tie renderer: tabulator output -> Lean source (Dbus/Generated/Tables.lean)."""
import sys

def render(text):
    ifrows = []
    out = ["/- GENERATED on every run by gen/render.py from the tabulator's output;",
           "   the tabulator evaluates the macros/functions of /repo as compiled. Do not edit. -/",
           "namespace Dbus.Generated", ""]
    for line in text.splitlines():
        parts = line.split()
        if not parts:
            continue
        kind, name, vals = parts[0], parts[1], parts[2:]
        if kind == "nat":
            out.append(f"def {name} : Nat := {int(vals[0])}")
        elif kind == "boollist":
            body = ", ".join("true" if v == "1" else "false" for v in vals)
            out.append(f"def {name} : List Bool := [{body}]")
        elif kind in ("pairlist", "triplelist", "quintlist"):
            body = ", ".join("(" + ", ".join(str(int(x)) for x in v.split(",")) + ")" for v in vals)
            ty = {"pairlist": "Nat × Nat", "triplelist": "Nat × Nat × Nat",
                  "quintlist": "Nat × Nat × Nat × Nat × Nat"}[kind]
            out.append(f"def {name} : List ({ty}) := [{body}]")
        elif kind == "strlist":
            body = ", ".join('"' + v + '"' for v in vals)
            out.append(f"def {name} : List String := [{body}]")
        elif kind == "str":
            out.append(f'def {name} : String := "{vals[0]}"')
        elif kind == "ifacerow":
            ms = []
            for v in vals[1:]:
                mn, sg, anyp, priv = v.split(":")
                sg = "" if sg == "-" else sg
                ms.append(f'("{mn}", "{sg}", {"true" if anyp == "1" else "false"}, {"true" if priv == "1" else "false"})')
            ifrows.append(f'  ("{name}", {"true" if vals[0] == "1" else "false"}, [{", ".join(ms)}])')
        else:
            raise SystemExit(f"render: unknown kind {kind!r}")
    if ifrows:
        out.append("/-- `interface_handlers` of bus/driver.c: (interface, any-path, [(method, in-signature, any-path, privileged)]) -/")
        out.append("def driverTable : List (String × Bool × List (String × String × Bool × Bool)) := [")
        out.append(",\n".join(ifrows))
        out.append("]")
    out += ["", "end Dbus.Generated", ""]
    return "\n".join(out)

if __name__ == "__main__":
    sys.stdout.write(render(sys.stdin.read()))
