#!/usr/bin/env python3
"""T-tie renderer: tabulator output -> Lean source (Dbus/Generated/Tables.lean)."""
import sys

def render(text):
    out = ["/- GENERATED on every run by gen/render.py from the tabulator's output;",
           "   the tabulator evaluates the macros/functions of /repo as compiled. Do not edit. -/",
           "namespace Dbus.Generated", ""]
    for line in text.splitlines():
        parts = line.split()
        if not parts:
            continue
        kind, name, vals = parts[0], parts[1], parts[2:]
        if kind == "nat":
            out.append(f"def {name} : Nat := {int(vals[0])}")
        elif kind == "boollist":
            body = ", ".join("true" if v == "1" else "false" for v in vals)
            out.append(f"def {name} : List Bool := [{body}]")
        elif kind in ("pairlist", "triplelist", "quintlist"):
            body = ", ".join("(" + ", ".join(str(int(x)) for x in v.split(",")) + ")" for v in vals)
            ty = {"pairlist": "Nat × Nat", "triplelist": "Nat × Nat × Nat",
                  "quintlist": "Nat × Nat × Nat × Nat × Nat"}[kind]
            out.append(f"def {name} : List ({ty}) := [{body}]")
        elif kind == "strlist":
            body = ", ".join('"' + v + '"' for v in vals)
            out.append(f"def {name} : List String := [{body}]")
        else:
            raise SystemExit(f"render: unknown kind {kind!r}")
    out += ["", "end Dbus.Generated", ""]
    return "\n".join(out)

if __name__ == "__main__":
    sys.stdout.write(render(sys.stdin.read()))
