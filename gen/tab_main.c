/* T-tie: prints finite tables and constants extracted from the compiled source. */
#include <config.h>
#include <stdio.h>
#include <dbus/dbus.h>
#include "dbus/dbus-signature.h"
#include "dbus/dbus-marshal-basic.h"

void tab_validate (void);
void tab_string (void);

int
main (void)
{
  int c;
  printf ("nat maxNameLength %d\n", DBUS_MAXIMUM_NAME_LENGTH);
  printf ("nat maxSignatureLength %d\n", DBUS_MAXIMUM_SIGNATURE_LENGTH);
  printf ("nat maxTypeRecursionDepth %d\n", DBUS_MAXIMUM_TYPE_RECURSION_DEPTH);
  printf ("nat maxArrayLength %d\n", DBUS_MAXIMUM_ARRAY_LENGTH);
  printf ("nat maxMessageLength %d\n", DBUS_MAXIMUM_MESSAGE_LENGTH);
  printf ("nat maxMessageUnixFds %d\n", DBUS_MAXIMUM_MESSAGE_UNIX_FDS);
  printf ("nat maxMatchRuleLength %d\n", DBUS_MAXIMUM_MATCH_RULE_LENGTH);
  printf ("nat maxMatchRuleArgNumber %d\n", DBUS_MAXIMUM_MATCH_RULE_ARG_NUMBER);
  printf ("nat majorProtocolVersion %d\n", DBUS_MAJOR_PROTOCOL_VERSION);
  printf ("nat minHeaderSize %d\n", DBUS_MINIMUM_HEADER_SIZE);
  printf ("nat headerFieldLast %d\n", DBUS_HEADER_FIELD_LAST);
  printf ("nat numMessageTypes %d\n", DBUS_NUM_MESSAGE_TYPES);
  /* type-code table: valid, basic, fixed, container, alignment (0 when not a valid code) */
  printf ("quintlist typeTab");
  for (c = 0; c < 256; c++)
    {
      int valid = dbus_type_is_valid (c) && c != DBUS_TYPE_INVALID;
      int basic = valid ? dbus_type_is_basic (c) : 0;
      int fixed = valid ? dbus_type_is_fixed (c) : 0;
      int container = valid ? dbus_type_is_container (c) : 0;
      int align = valid ? _dbus_type_get_alignment (c) : 0;
      printf (" %d,%d,%d,%d,%d", valid, basic, fixed, container, align);
    }
  printf ("\n");
  tab_validate ();
  tab_string ();
  return 0;
}
