/* T-tie: evaluates the character-class macros of dbus-marshal-validate.c as compiled. */
#include <config.h>
#include "dbus/dbus-marshal-validate.c"
#include <stdio.h>

void tab_validate (void);
void
tab_validate (void)
{
  int c;
  printf ("boollist nameChar");
  for (c = 0; c < 256; c++) printf (" %d", VALID_NAME_CHARACTER (c) ? 1 : 0);
  printf ("\nboollist initialNameChar");
  for (c = 0; c < 256; c++) printf (" %d", VALID_INITIAL_NAME_CHARACTER (c) ? 1 : 0);
  printf ("\nboollist busNameChar");
  for (c = 0; c < 256; c++) printf (" %d", VALID_BUS_NAME_CHARACTER (c) ? 1 : 0);
  printf ("\nboollist initialBusNameChar");
  for (c = 0; c < 256; c++) printf (" %d", VALID_INITIAL_BUS_NAME_CHARACTER (c) ? 1 : 0);
  printf ("\n");
}
