/* T-tie for the bus driver: prints the method tables of bus/driver.c and the built-in limits
 * and reply codes as compiled. */
#include <config.h>
#include <stdio.h>
#include "bus/driver.c"

static const char *
dash (const char *s)
{
  return (s == NULL || *s == '\0') ? "-" : s;
}

int
main (void)
{
  const InterfaceHandler *ih;
  const MessageHandler *mh;

  for (ih = interface_handlers; ih->name != NULL; ih++)
    {
      printf ("ifacerow %s %d", ih->name, (ih->flags & INTERFACE_FLAG_ANY_PATH) ? 1 : 0);
      for (mh = ih->message_handlers; mh->name != NULL; mh++)
        printf (" %s:%s:%d:%d", mh->name, dash (mh->in_args),
                (mh->flags & METHOD_FLAG_ANY_PATH) ? 1 : 0,
                (mh->flags & METHOD_FLAG_PRIVILEGED) ? 1 : 0);
      printf ("\n");
    }
  printf ("nat nameFlagAllowReplacement %d\n", DBUS_NAME_FLAG_ALLOW_REPLACEMENT);
  printf ("nat nameFlagReplaceExisting %d\n", DBUS_NAME_FLAG_REPLACE_EXISTING);
  printf ("nat nameFlagDoNotQueue %d\n", DBUS_NAME_FLAG_DO_NOT_QUEUE);
  printf ("nat requestNameReplyPrimaryOwner %d\n", DBUS_REQUEST_NAME_REPLY_PRIMARY_OWNER);
  printf ("nat requestNameReplyInQueue %d\n", DBUS_REQUEST_NAME_REPLY_IN_QUEUE);
  printf ("nat requestNameReplyExists %d\n", DBUS_REQUEST_NAME_REPLY_EXISTS);
  printf ("nat requestNameReplyAlreadyOwner %d\n", DBUS_REQUEST_NAME_REPLY_ALREADY_OWNER);
  printf ("nat releaseNameReplyReleased %d\n", DBUS_RELEASE_NAME_REPLY_RELEASED);
  printf ("nat releaseNameReplyNonExistent %d\n", DBUS_RELEASE_NAME_REPLY_NON_EXISTENT);
  printf ("nat releaseNameReplyNotOwner %d\n", DBUS_RELEASE_NAME_REPLY_NOT_OWNER);
  printf ("str serviceDBus %s\n", DBUS_SERVICE_DBUS);
  printf ("str pathDBus %s\n", DBUS_PATH_DBUS);
  printf ("str interfaceDBus %s\n", DBUS_INTERFACE_DBUS);
  printf ("str errorPrefix %s\n", "org.freedesktop.DBus.Error.");
  return 0;
}
