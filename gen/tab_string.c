/* T-tie: evaluates the UTF-8 macros of dbus-string.c as compiled. */
#include <config.h>
#include "dbus/dbus-string.c"
#include <stdio.h>

void tab_string (void);
void
tab_string (void)
{
  int c;
  unsigned i;
  static const dbus_unichar_t pts[] = {
    0, 1, 0x7f, 0x80, 0x7ff, 0x800, 0xd7ff, 0xd800, 0xdbff, 0xdc00, 0xdfff, 0xe000, 0xfffd,
    0xfffe, 0xffff, 0x10000, 0x10ffff, 0x110000, 0x1fffff, 0x200000, 0x3ffffff, 0x4000000,
    0x7fffffff, 0xffffffffu };
  printf ("pairlist utf8LeadTab");
  for (c = 0; c < 256; c++)
    {
      int mask, len;
      unsigned char ch = (unsigned char) c;
      UTF8_COMPUTE (ch, mask, len);
      printf (" %d,%d", len, mask);
    }
  printf ("\ntriplelist utf8PointTab");
  for (i = 0; i < sizeof (pts) / sizeof (pts[0]); i++)
    printf (" %u,%d,%d", (unsigned) pts[i], (int) UTF8_LENGTH (pts[i]), UNICODE_VALID (pts[i]) ? 1 : 0);
  printf ("\n");
}
