"""Shared paths, subprocess helpers, seeds."""
import os, subprocess, sys, time, json, hashlib, fcntl, contextlib

ROOT = os.path.dirname(os.path.dirname(os.path.abspath(__file__)))
REPO = os.environ.get("VERIF_REPO", "/repo")
CACHE = os.path.join(ROOT, ".cache")
BUILD = os.path.join(CACHE, "build")
BIN = os.path.join(CACHE, "bin")
LEAN = os.path.join(ROOT, "lean")
DRIVER = os.path.join(LEAN, ".lake", "build", "bin", "dbus-model")
REPLAYS = os.path.join(ROOT, "replays")
EVIDENCE = os.path.join(ROOT, "evidence")
GUARD = "DBUS_VERIF"
NCPU = os.cpu_count() or 4

CFLAGS = ["-DDBUS_VERIF", "-fsanitize=address,undefined", "-fno-sanitize-recover=undefined",
          "-fno-omit-frame-pointer"]


class InfraError(Exception):
    """The machinery itself failed (not a statement about the property)."""


def seed():
    try:
        return int(os.environ.get("VERIF_SEED", "1"))
    except ValueError:
        return 1


def run(cmd, cwd=None, env=None, timeout=None, input=None, check=False):
    e = dict(os.environ)
    if env:
        e.update(env)
    p = subprocess.run(cmd, cwd=cwd, env=e, timeout=timeout, input=input,
                       stdout=subprocess.PIPE, stderr=subprocess.PIPE, text=True)
    if check and p.returncode != 0:
        raise InfraError("command failed (%d): %s\n%s\n%s" % (p.returncode, " ".join(cmd), p.stdout[-4000:], p.stderr[-4000:]))
    return p


@contextlib.contextmanager
def locked(name):
    os.makedirs(CACHE, exist_ok=True)
    path = os.path.join(CACHE, name + ".lock")
    with open(path, "w") as f:
        fcntl.flock(f, fcntl.LOCK_EX)
        try:
            yield
        finally:
            fcntl.flock(f, fcntl.LOCK_UN)


def sha(s):
    return hashlib.sha256(s.encode() if isinstance(s, str) else s).hexdigest()


def log(*a):
    print(*a, file=sys.stderr, flush=True)
