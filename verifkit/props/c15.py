"""C15 — passed file descriptors arrive intact and are never leaked."""
import json, random, os, re, time
from ..common import *
from .. import common, build, lean, check, script, bus, busdiff, busgen, buscheck

MODULE = "Dbus.Props.C15"
THEOREMS = ["every_descriptor_closed_exactly_once_or_pending", "pending_only_for_live_connections_within_limit",
            "baseline_once_everyone_has_left", "message_gets_announced_descriptors_in_order",
            "addressed_recipient_must_have_negotiated", "matched_recipient_must_have_negotiated", "overflow_closes_everything",
            "pending_timeout_leaves_nothing_pending"]

fld, hexname = buscheck.fld, buscheck.hexname


def oracle(tr):
    """on the implementation's own trace (independent of the model): a recipient gets, with each message, exactly as
    many descriptors as the header announces, they are descriptors the sender attached in that step or had sent
    before and not yet used (tokens in the sender's order, none twice), and no descriptor arrives without a message"""
    bad = []
    sent = {}          # cid -> tokens sent so far, in order
    used = {}          # cid -> tokens that have reached some message already
    for i, op in enumerate(tr.ops):
        if i >= len(tr.steps):
            break
        if op[0] == "fdsend":
            sent.setdefault(op[1], []).extend(op[3])
        per, closed = tr.steps[i]
        # what the bus holds on to for its clients is bounded by what one message may carry (16 by default), per connection that passes descriptors
        senders = len(set(o[1] for o in tr.ops[:i + 1] if o[0] == "fdsend"))
        if i < len(getattr(tr, "fdcounts", [])) and tr.fdcounts[i] > 16 * max(1, senders):
            bad.append((None, "step %d: the bus holds %d descriptors that no message has announced, for %d connection(s) that ever passed any: more than a "
                              "message may carry" % (i, tr.fdcounts[i], senders)))
        if op[0] == "fdsleep" and i < len(getattr(tr, "fdcounts", [])) and tr.fdcounts[i] != 0:
            bad.append((None, "step %d: the pending-descriptor timeout has passed and the bus still holds %d descriptor(s) that no message announced" % (i, tr.fdcounts[i])))
        if op[0] != "fdsend":
            for cid, lines in per.items():
                for l in lines:
                    if " fdtok=" in l and fld(l, "sender") != busdiff.BUS_HEX:
                        bad.append((None, "step %d (%s): connection %d received descriptors %s although nobody sent any in this step" % (i, op[0], cid, fld(l, "fdtok"))))
            continue
        actor = op[1]
        seen_this_step = None
        for cid, lines in per.items():
            for l in lines:
                if " fdtok=" not in l:
                    if l.startswith("STRAY"):
                        bad.append((None, "step %d: connection %d received descriptors without a message announcing them" % (i, cid)))
                    continue
                toks = [int(x) for x in fld(l, "fdtok").split(",")]
                if l.startswith("STRAY"):
                    bad.append((None, "step %d: connection %d received descriptors %s without a message announcing them" % (i, cid, toks))); continue
                n = int(fld(l, "fds")) if (fld(l, "fds") or "-") != "-" else 0
                if len(toks) != n:
                    bad.append((None, "step %d: connection %d got %d descriptors with a message announcing %d" % (i, cid, len(toks), n)))
                if any(t < 0 for t in toks):
                    bad.append((None, "step %d: connection %d received a descriptor that is none of the files the sender attached: %s" % (i, cid, toks)))
                pool = sent.get(actor, [])
                # the tokens must be a contiguous run of the sender's tokens, in the sender's order
                if toks and all(t in pool for t in toks):
                    k = pool.index(toks[0])
                    if pool[k:k + len(toks)] != toks:
                        bad.append((None, "step %d: connection %d received descriptors %s, not a run of what connection %d attached (%s)" % (i, cid, toks, actor, pool)))
                elif toks:
                    bad.append((None, "step %d: connection %d received descriptors %s that connection %d never attached" % (i, cid, toks, actor)))
    return bad


PROFILES = [
    # headers of several hundred kilobytes: the bus needs several sendmsg calls for one message, the descriptors go with the first
    ("descriptor-passing-big-headers", {"weights": {"fdsend": 40, "signal": 3, "call": 3, "addmatch": 4, "request": 4, "close": 2, "connect": 6, "hello": 7,
                                                   "garbage": 0, "forged": 0, "badtype": 0}, "max_conns": 4, "fdpass": True, "bigheader": 0.5}, None, None),
    ("descriptor-passing", {"weights": {"fdsend": 22, "signal": 6, "call": 6, "addmatch": 10, "request": 8, "close": 3, "connect": 5, "hello": 6,
                                        "garbage": 0, "forged": 1, "badtype": 0}, "max_conns": 5, "fdpass": True}, None, None),
    ("descriptor-passing-limit-4", {"weights": {"fdsend": 24, "signal": 5, "call": 5, "addmatch": 10, "request": 8, "close": 4, "connect": 6, "hello": 6,
                                                "garbage": 0, "forged": 0, "badtype": 0}, "max_conns": 5, "fdpass": True, "maxfds": 4}, {"maxfds": 4}, None),
    ("descriptor-passing-policy", {"weights": {"fdsend": 22, "signal": 6, "call": 6, "addmatch": 10, "request": 8, "close": 3, "connect": 5, "hello": 6,
                                               "garbage": 0, "forged": 0, "badtype": 0}, "max_conns": 5, "fdpass": True},
     None, [("default", True, {"send_destination": "*", "eavesdrop": "true"}), ("default", True, {"eavesdrop": "true"}), ("default", True, {"own": "*"}),
            ("default", False, {"send_interface": "a.b.c"}), ("default", False, {"receive_interface": "a.b", "receive_member": "N"}), ("default", False, {"send_destination": "com.example.B"})]),
]


def timer_scripts():
    """the pending-descriptor timeout: a connection that holds descriptors no message has announced is dropped when
    the timeout passes — also when the number it holds has meanwhile gone down without reaching zero — and not otherwise"""
    from ..bus import method_call, signal_msg, BUS, BUS_PATH
    hello = lambda: method_call(1, BUS, BUS_PATH, BUS, "Hello").marshal()
    def sig(serial, k):
        m = signal_msg(serial, "/a", "a.b", "M", "s", [b"x"])
        if k: m.fields.append((9, ('b', 'u'), k))
        return m.marshal()
    head = [("connect", 0, 0, False), ("send", 0, hello()), ("connect", 1, 0, True), ("send", 1, hello()),
            ("send", 1, method_call(2, BUS, BUS_PATH, BUS, "AddMatch", "s", [b"type='signal'"]).marshal()),
            ("connect", 2, 0, True), ("send", 2, hello())]
    return [
        head + [("fdsend", 2, sig(2, 0), [1, 2, 3], 0), ("fdsleep",)],                                        # surplus 3, never used
        head + [("fdsend", 2, sig(2, 0), [1, 2, 3], 0), ("fdsend", 2, sig(3, 1), [], 0), ("fdsleep",)],        # 3, then down to 2
        head + [("fdsend", 2, sig(2, 1), [1, 2], 0), ("fdsend", 2, sig(3, 1), [], 0), ("fdsleep",)],           # 1 surplus, used up: stays
        head + [("fdsend", 2, sig(2, 2), [1, 2], 0), ("fdsleep",), ("fdsend", 2, sig(3, 1), [3], 0)],          # nothing pending: stays
        head + [("fdsend", 2, sig(2, 1), [1, 2, 3], 0), ("fdsend", 1, sig(3, 0), [4], 0), ("fdsend", 2, sig(3, 2), [], 0), ("fdsleep",)],
    ]


def surplus_scripts():
    """descriptors that no message has announced pile up only as far as one message may carry (max_message_unix_fds, 16): the connection that
    goes on attaching more than it announces is dropped, and its descriptors are closed - while it is still connected, not only when it leaves"""
    from ..bus import method_call, signal_msg, BUS, BUS_PATH
    hello = lambda: method_call(1, BUS, BUS_PATH, BUS, "Hello").marshal()
    def call(serial, k):
        m = method_call(serial, BUS, BUS_PATH, BUS, "GetId")
        if k: m.fields.append((9, ('b', 'u'), k))
        return m.marshal()
    head = [("connect", 0, 0, False), ("send", 0, hello()), ("connect", 1, 0, True), ("send", 1, hello()), ("connect", 2, 0, True), ("send", 2, hello())]
    out = []
    for per, ann in ((6, 0), (8, 0), (5, 1), (16, 15)):
        ops, tok = list(head), 1
        for j in range(8):
            ops.append(("fdsend", 2, call(2 + j, ann), list(range(tok, tok + per)), 0)); tok += per
        ops.append(("fdsend", 1, call(2, 1), [tok], 0))
        out.append(ops)
    return out


def bigheader_scripts():
    """a message whose header alone is larger than the socket buffer, carrying descriptors: the bus writes it to the recipient in
    several pieces; the descriptors belong to the first piece only"""
    from ..bus import method_call, signal_msg, BUS, BUS_PATH
    hello = lambda: method_call(1, BUS, BUS_PATH, BUS, "Hello").marshal()
    head = [("connect", 0, 0, False), ("send", 0, hello()), ("connect", 1, 0, True), ("send", 1, hello()), ("connect", 2, 0, True), ("send", 2, hello())]
    out = []
    tok = 1
    for n_el, k in ((30000, 1), (60000, 2), (120000, 3), (250000, 2)):
        path = "/" + "/".join("q%05d" % (j % 100000) for j in range(n_el))
        m = signal_msg(2, path, "a.b", "M", "s", [b"big"], dest=":1.1")
        m.fields.append((9, ('b', 'u'), k))
        m2 = method_call(3, ":1.1", path, "a.b", "M", "s", [b"big"], flags=1)
        m2.fields.append((9, ('b', 'u'), k))
        out.append(head + [("fdsend", 2, m.marshal(), list(range(tok, tok + k)), 0), ("fdsend", 2, m2.marshal(), list(range(tok + k, tok + 2 * k)), 0),
                           ("fdsend", 2, signal_msg(4, "/a", "a.b", "M", "s", [b"small"], dest=":1.1").marshal(), [], 0)])
        tok += 2 * k
    return out


def baseline_case(seed):
    """connections exchange descriptor-carrying messages (delivered, refused, undeliverable, surplus, too few) and then all
    leave: the daemon's descriptor table must be back where it started"""
    rng = random.Random(seed)
    ops, _ = busgen.history(rng, 60, weights={"fdsend": 26, "signal": 4, "call": 4, "addmatch": 10, "request": 8, "close": 2, "connect": 6, "hello": 6,
                                              "garbage": 0, "forged": 0, "badtype": 0}, max_conns=5, fdpass=True)
    run = busdiff.ImplRun(busdiff.SESSION, None, "")
    try:
        base = run.base_fds
        for op in ops:
            run.step(op)
        mid = run.d.nfds()
        for cid, cl in list(run.c.items()):
            if cid not in run.closed:
                cl.close(); run.closed.add(cid)
        t0 = time.time()
        while time.time() - t0 < 5 and run.d.nfds() != base:
            time.sleep(0.05)
        return {"seed": seed, "base": base, "during": mid, "after": run.d.nfds(), "alive": run.d.alive(), "ops": [busdiff.show_op(o) for o in ops],
                "tokens": sum(len(o[3]) for o in ops if o[0] == "fdsend")}
    finally:
        run.stop()


def _baseline_job(seed):
    try:
        return baseline_case(seed)
    except (OSError, InfraError, busdiff.DaemonDied, busdiff.DaemonStalled) as e:
        return {"infra": repr(e)[:500], "seed": seed}


def queued_fd_case(first_len=3000, nmsgs=2):
    """several descriptor-carrying messages are in the sender's socket before the bus has read the first of them completely (the daemon is
    held while they are written): each arrives with its own descriptor - the same open file -, in order, and the sender stays connected"""
    import signal as _sig, tempfile
    from .. import bus
    from ..bus import method_call, signal_msg, BUS, BUS_PATH
    d = bus.Daemon()
    files = []
    try:
        R = bus.Client(d, fd_passing=True); bus.hello(R)
        S = bus.Client(d, fd_passing=True); bus.hello(S)
        if not (R.fd_ok and S.fd_ok):
            raise InfraError("descriptor passing was not negotiated")
        msgs = []
        for k in range(nmsgs):
            f = tempfile.NamedTemporaryFile(prefix="c15q-", dir=d.dir); files.append(f)
            m = signal_msg(10 + k, "/c15", "c.q", "M%d" % k, "sh", [b"x" * (first_len if k == 0 else 10), 0], dest=R.unique, extra_fields=[(9, ('b', 'u'), 1)])
            msgs.append((m.marshal(), f))
        os.kill(d.proc.pid, _sig.SIGSTOP)
        try:
            for data, f in msgs:
                S.send_raw(data, [f.fileno()])
        finally:
            os.kill(d.proc.pid, _sig.SIGCONT)
        r, _ = bus.bus_call(S, "GetId", timeout=10.0)
        sender_ok = r is not None and r.mtype == 2
        R.send(method_call(900, None, "/", "org.freedesktop.DBus.Peer", "Ping"))
        got = R.recv_until(lambda m: m.mtype in (2, 3) and m.get(5) == 900, 10.0) or []
        seen = [m.get(3).decode() for m in got if m is not None and m.mtype == 4 and m.get(2) == b"c.q"]
        inos = []
        for fd in R.fds:
            st = os.fstat(fd); inos.append((st.st_dev, st.st_ino)); os.close(fd)
        R.fds = []
        want_inos = [(os.fstat(f.fileno()).st_dev, os.fstat(f.fileno()).st_ino) for _, f in msgs]
        return {"first_len": first_len, "messages": nmsgs, "seen": seen, "want": ["M%d" % k for k in range(nmsgs)], "descriptors_ok": inos == want_inos,
                "descriptors_got": len(inos), "sender_still_connected": sender_ok, "alive": d.alive()}
    finally:
        for f in files:
            f.close()
        d.stop()


def run_queued(ctx):
    res = []
    for first_len, n in ((3000, 2), (100, 3), (9000, 3)):
        try:
            res.append(queued_fd_case(first_len, n))
        except (OSError, InfraError) as e:
            res.append({"infra": repr(e)})
    good = [r for r in res if "infra" not in r]
    if len(good) < 2:
        raise InfraError("queued-descriptor scenarios failed: %s" % res)
    ok = True
    for r in good:
        if r["seen"] != r["want"] or not r["descriptors_ok"] or not r["sender_still_connected"] or not r["alive"]:
            ok = False
            ctx.violate("descriptor-carrying messages written back to back (the first %d bytes long): delivered %s of %s, descriptors intact: %s (%d arrived), "
                        "sender still connected: %s" % (r["first_len"], r["seen"], r["want"], r["descriptors_ok"], r["descriptors_got"], r["sender_still_connected"]),
                        {"kind": "queued-fds", "case": [r["first_len"], r["messages"]], "observed": r}, True)
    ctx.oblige("scenario: descriptor-carrying messages queued behind one another in the sender's socket arrive each with its own descriptor, in order (%d cases)" %
               len(good), "correspondence", ok)
    ctx.coverage.setdefault("distribution", {})["queued_descriptor_messages"] = res


def run(ctx):
    check.lean_obligations(ctx, MODULE, THEOREMS)
    nh = 10 if ctx.quick() else 80
    nops = 70 if ctx.quick() else 150
    for i, (label, kw, limits, rules) in enumerate(PROFILES):
        pol = busdiff.Policy(rules) if rules else busdiff.SESSION
        big = "bigheader" in kw
        good = buscheck.run_histories(ctx, nh if not big else max(4, nh // 2), nops if not big else 40, oracle, gen_kw=kw, limits=limits, policy=pol,
                                      seed_salt=150 + i + (40 if big else 0), label=label)
        withtok = sum(1 for r in good for per, _ in r["isteps"] for ls in per.values() for l in ls if " fdtok=" in l)
        ctx.coverage["histories"][label]["deliveries_carrying_descriptors"] = withtok
    buscheck.run_histories(ctx, 0, 0, oracle, limits={"pending_fd_timeout": 500}, seed_salt=170, label="pending-descriptor-timeout", scripts=timer_scripts())
    buscheck.run_histories(ctx, 0, 0, oracle, seed_salt=171, label="big-header-scenarios", scripts=bigheader_scripts())
    buscheck.run_histories(ctx, 0, 0, oracle, seed_salt=172, label="surplus-descriptor-scenarios", scripts=surplus_scripts())
    run_queued(ctx)
    from concurrent.futures import ProcessPoolExecutor
    n = 6 if ctx.quick() else 40
    with ProcessPoolExecutor(6) as ex:
        res = list(ex.map(_baseline_job, [ctx.seed * 1000003 + 881 * j for j in range(n)]))
    good = [r for r in res if "infra" not in r]
    if len(good) < len(res) * 0.7:
        raise InfraError("baseline scenario failed: %s" % [r for r in res if "infra" in r][:2])
    ok = True
    for r in good:
        if not r["alive"] or r["after"] != r["base"]:
            ok = False
            ctx.violate("after every client has left, dbus-daemon holds %d descriptors; it started with %d (%d descriptor tokens were sent)" % (r["after"], r["base"], r["tokens"]),
                        {"kind": "bus-history", "label": "baseline", "seed": r["seed"], "policy": busdiff.SESSION.rules, "limits": None, "extra": "", "ops": r["ops"],
                         "observed": {k: r[k] for k in ("base", "during", "after", "alive")}}, True)
    ctx.oblige("scenario: the daemon's descriptor table is back at its baseline once every client has left (%d histories, %d tokens)" % (len(good), sum(r["tokens"] for r in good)),
               "correspondence", ok)
    ctx.coverage["rule"] = ("histories in which clients that did or did not negotiate descriptor passing send messages (signals broadcast and addressed, method calls to "
                            "unique and well-known names, to nobody, to the bus, replies) whose UNIX_FDS header announces 0..max+1 descriptors while 0..max+3 are attached "
                            "(equal, surplus, too few, none, beyond the loader's room), split across two writes or followed by a second message in the same sendmsg, under "
                            "the session policy, a policy with deny rules, and max_message_unix_fds=4; every descriptor is a distinct file, recognised by (device, inode) "
                            "at the recipients; after every operation the daemon's /proc/<pid>/fd count minus its client sockets must equal the model's number of pending tokens")
    ctx.assumptions += ["recipients read promptly (the harness drains every connection after every operation); queues towards clients that do not read are outside the model",
                        "pending_fd_timeout is left at its default in the generated histories and exercised by five scripted histories with a 500 ms timeout; "
                        "max_incoming_unix_fds is not reached",
                        "identity of a descriptor = (st_dev, st_ino) of the open file"]


def replay(path):
    data = json.load(open(path))
    rp = data["replay"]
    if rp.get("kind") == "bus-history":
        rc = buscheck.replay_history(path, oracle, "C15")
    elif rp.get("kind") == "queued-fds":
        r = queued_fd_case(*rp["case"])
        print("replay C15: %s" % r)
        rc = 0 if (r["seen"] == r["want"] and r["descriptors_ok"] and r["sender_still_connected"] and r["alive"]) else 1
    else:
        print("replay: %s" % data.get("what")); rc = 1
    if rc:
        print("VIOLATION property=C15 replay=%s" % path)
    return rc
