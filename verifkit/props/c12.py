"""C12 — header edits keep a message valid and touch nothing else."""
import json, random, os
from concurrent.futures import ThreadPoolExecutor
from ..common import *
from .. import common, build, lean, check, script, wiregen

MODULE = "Dbus.Props.C12"
THEOREMS = ["set_reads_back", "set_frame", "delete_removes", "delete_frame", "removeUnknown_frame", "removeUnknown_all_known",
            "edit_leaves_rest", "edit_roundtrip", "padding_exact", "setSerial_keeps_valid", "setSerial_roundtrip",
            "set_keeps_valid", "delete_keeps_valid", "removeUnknown_keeps_valid", "edit_keeps_valid", "edits_keep_valid",
            "edits_roundtrip"]


def val_for(rng, code, k):
    if code == 1 or code == 10:
        return b"/" + b"p" * max(1, k) if k else b"/"
    if code in (2, 4):
        return b"a." + b"b" * max(1, k)
    if code == 3:
        return b"M" * max(1, k)
    if code in (6, 7):
        return rng.choice([b"a.", b":1."]) + b"c" * max(1, k)
    raise ValueError(code)


def gen_ops(rng):
    ops = []
    for _ in range(rng.randint(1, 7)):
        r = rng.random()
        code = rng.choice([1, 2, 3, 4, 6, 7, 10])
        if r < 0.55:
            ops.append("set:%d:%s:%s" % (code, "o" if code in (1, 10) else "s", val_for(rng, code, rng.randint(0, 40)).hex()))
        elif r < 0.65:
            ops.append("set:5:u:%d" % rng.choice([1, 7, 0xffffffff, rng.getrandbits(32) or 1]))
        elif r < 0.85:
            ops.append("del:%d" % rng.choice([1, 2, 3, 4, 5, 6, 7, 10, 9]))
        elif r < 0.91:
            ops.append("rd")           # the body is looked at between two edits (a foreign-order message turns native)
        else:
            ops.append("unk")
    return ops


def run(ctx):
    check.lean_obligations(ctx, MODULE, THEOREMS)
    exe = build.cc("h_wire", ["harness/lib/h_wire.c"])
    rng = random.Random(ctx.seed * 32452843 + 12)
    n = 1500 if ctx.quick() else 40000
    lines = []
    opcount = {}
    for i in range(n):
        m = wiregen.gen_message(rng, max_body_types=2)
        b = m.marshal()
        if len(b) > 600:
            continue
        ops = gen_ops(rng)
        for o in ops:
            k = o.split(":")[0]
            opcount[k] = opcount.get(k, 0) + 1
        lines.append("wire edit %s %s" % (b.hex(), " ".join(ops)))
        if i % 5 == 0:
            lines.append("wire reencode " + b.hex())
    k = max(1, (len(lines) + NCPU - 1) // NCPU)
    parts = [list(range(i, min(i + k, len(lines)))) for i in range(0, len(lines), k)]
    with ThreadPoolExecutor(max_workers=NCPU) as ex:
        results = list(ex.map(lambda idx: script.diff([exe], [lines[i] for i in idx]), parts))
    ok = True
    for idx, res in zip(parts, results):
        if res["rc"] != 0 or res["n_impl"] != len(idx) or res["n_model"] != len(idx):
            ok = False
            j = min(res["n_impl"], len(idx) - 1)
            ctx.violate("header-edit harness aborted", {"op": lines[idx[j]], "stderr": res["stderr"][-2000:]}, True)
            continue
        for (j, op, impl, model, spec) in res["rows"]:
            ok = False
            a, b = impl.split(), model.split()
            step = next((t for t in range(min(len(a), len(b))) if a[t] != b[t]), min(len(a), len(b)))
            ctx.violate("serialised message after header edit #%d differs from the specification encoding of the edited field list" % (step + 1),
                        {"op": op, "impl": impl, "model": model, "first_differing_step": step + 1}, True)
    ctx.oblige("correspondence K:wire/edit (byte-identical serialisation after each edit; decode-encode identity)", "correspondence", ok)
    # an edit that cannot get the memory it needs must leave the message as it was - valid, and nothing touched (every allocation of every edit fails in turn)
    olines = []
    for i in range(300 if ctx.quick() else 6000):
        m = wiregen.gen_message(rng, max_body_types=2); b = m.marshal()
        if len(b) <= 600:
            olines.append("wire oomedit %s %s" % (b.hex(), " ".join(gen_ops(rng))))
    r = script.diff([exe], olines)
    ook = r["rc"] == 0 and r["n_impl"] == len(olines)
    if not ook:
        ctx.violate("header-edit harness stopped under injected allocation failures: " + r["stderr"][-400:],
                    {"op": olines[r["n_impl"]] if r["n_impl"] < len(olines) else None, "stderr": r["stderr"][-2000:]}, True)
    known_unk = 0
    for (j, op, impl, model, spec) in r["rows"]:
        ch = [t for t in impl.split() if t.startswith("CHANGED-BY-FAILED-OP")]
        if ch and all(t.endswith(":unk") for t in ch):
            known_unk += 1          # (C14's recorded finding: a failed strip of unknown fields has stripped some of them)
            continue
        ook = False
        ctx.violate("a header edit that ran out of memory changed the message (or the message differs from the edited field list afterwards): " + impl[:160],
                    {"op": op, "impl": impl, "model": model}, True)
    ctx.oblige("correspondence K:wire/edit under allocation failure (%d messages x edits, every allocation failed in turn: bytes unchanged by a failed edit)" % len(olines),
               "correspondence", ook)
    ctx.coverage.update({
        "evaluations": len(lines), "distinct_nontrivial": len(set(lines)),
        "rule": "messages from the wire (fields in every order, interleaved unknown fields, both byte orders) x sequences of 1-7 edits: set/replace with values of "
                "length 0..40 (crossing every 8-byte boundary), delete (incl. absent fields), strip unknown fields; after each edit the C "
                "serialisation must equal encodeMsg of the edited abstract message; plus decode-encode identity on the unedited bytes",
        "samples": [lines[0][:240], lines[len(lines) // 2][:240]], "distribution": {"edit_ops": opcount, "lines": len(lines)},
        "traces_validated_against_impl": len(lines)})
    ctx.assumptions += ["values handed to the setters are valid names/paths (the public setters refuse others before touching the header)"]


def replay(path):
    data = json.load(open(path))
    op = data["replay"].get("op")
    if not op:
        print("replay: no input recorded: %s" % data["what"]); return 1
    exe = build.cc("h_wire", ["harness/lib/h_wire.c"]); lean.build_driver()
    res = script.diff([exe], [op])
    for r in res["rows"]:
        print("impl=%s\nmodel=%s" % (r[2], r[3]))
    bad = res["rows"] or res["rc"] != 0
    if bad:
        print("VIOLATION property=C12 replay=%s" % path)
    return 1 if bad else 0
