"""C05 — unicast messages reach exactly the current owner, once, in order."""
import re
from ..common import *
from .. import check, buscheck, busdiff
from ..buscheck import fld, hexname, Tracker

MODULE = "Dbus.Props.C05"
THEOREMS = ["unicast_reaches_owner_once", "recipient_of_unicast_eavesdrops", "addressed_not_recipient", "no_owner_no_delivery",
            "refused_no_delivery", "undeliverable_one_error", "forwarded_fields_intact", "forwarded_rest_intact",
            "outputs_in_processing_order", "stalled_owner_gets_nothing"]
BUS = "org.freedesktop.DBus"
WEIGHTS = {"call": 30, "signal": 14, "reply": 12, "request": 14, "release": 5, "close": 5, "connect": 5, "hello": 4, "addmatch": 6,
           "forged": 3, "query": 2, "driver_edge": 1, "badtype": 2, "nodest": 1, "garbage": 1, "removematch": 1}


def oracle(tr):
    bad = []
    tk = Tracker()
    for i, (per, closed) in enumerate(tr.steps):
        tk.before(i, tr)
        op = tr.ops[i]
        sent = tr.sent(i) if op[0] == "send" else None
        actor = op[1] if op[0] == "send" else None
        if sent and actor in tk.names and fld(sent, "t") in ("1", "2", "3", "4"):
            d = hexname(fld(sent, "dest"))
            # (a sender or an owner that is not reading: neither the copy nor the error can be seen at this step)
            if d is not None and d != BUS and actor not in tk.stalled and tk.primary(d) not in tk.stalled and tk.primary(d) != "?":
                me = tk.names[actor]
                owner = tk.primary(d)
                # copies of this very message: same sender, serial and type, not made by the bus
                def is_copy(l):
                    return hexname(fld(l, "sender")) == me and fld(l, "ser") == fld(sent, "ser") and fld(l, "t") == fld(sent, "t")
                copies = {to: [l for l in ls if is_copy(l)] for to, ls in per.items()}
                errs = [l for l in per.get(actor, []) if fld(l, "t") == "3" and fld(l, "rs") == fld(sent, "ser") and hexname(fld(l, "sender")) == BUS
                        and not is_copy(l)]
                if owner is not None and len(errs) == 1 and not any(copies.values()):
                    tk.after(i, tr)
                    continue            # refused (policy, outstanding serial, limits): one error, no delivery anywhere
                for to, ls in copies.items():
                    if to == owner:
                        if len(ls) != 1:
                            bad.append((None, "step %d: message %s -> %s (owner: connection %s) was delivered %d times to it" % (i, me, d, owner, len(ls))))
                        else:
                            a, b = ls[0], sent
                            for k in ("path", "iface", "member", "err", "rs", "dest", "sig", "fds", "body"):
                                if fld(a, k) != fld(b, k):
                                    bad.append((None, "step %d: field %s changed in transit: %s -> %s" % (i, k, fld(b, k), fld(a, k))))
                    elif ls and to not in tk.eaves:
                        bad.append((None, "step %d: message %s -> %s (owner: connection %s) also reached connection %d, which never asked to eavesdrop" % (i, me, d, owner, to)))
                    elif len(ls) > 1:
                        bad.append((None, "step %d: eavesdropper %d got %d copies" % (i, to, len(ls))))
                if owner is None:
                    if len(errs) != 1:
                        bad.append((None, "step %d: message to ownerless %s earned its sender %d error replies" % (i, d, len(errs))))
        tk.after(i, tr)
    return bad


def run(ctx):
    check.lean_obligations(ctx, MODULE, THEOREMS)
    findings = {e["class"]: e for e in check.load_findings("C05") if e.get("status") == "known"}
    n = 60 if ctx.quick() else 1500
    buscheck.run_histories(ctx, n, 90 if ctx.quick() else 150, oracle, gen_kw={"weights": WEIGHTS, "max_conns": 5},
                           findings=findings, label="unicast")
    buscheck.run_histories(ctx, n // 2, 90, oracle, gen_kw={"weights": WEIGHTS, "max_conns": 4, "names": [b"com.example.A", b"org.x"]},
                           findings=findings, seed_salt=4, label="unicast-two-names")
    # recipients that do not read: their queue at the bus is over max_outgoing_bytes until they read again
    buscheck.run_histories(ctx, n // 2, 80, oracle, gen_kw={"weights": dict(WEIGHTS, stall=5, unstall=4), "max_conns": 4, "no_eavesdrop": True},
                           limits={"outgoing": 20000}, findings=findings, seed_salt=9, label="slow-readers")


def replay(path):
    return buscheck.replay_history(path, oracle, "C05")
