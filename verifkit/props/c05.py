"""C05 — unicast messages reach exactly the current owner, once, in order."""
import re
from ..common import *
from .. import check, buscheck, busdiff
from ..buscheck import fld, hexname, Tracker

MODULE = "Dbus.Props.C05"
THEOREMS = ["unicast_reaches_owner_once", "recipient_of_unicast_eavesdrops", "addressed_not_recipient", "no_owner_no_delivery",
            "refused_no_delivery", "undeliverable_one_error", "forwarded_fields_intact", "forwarded_rest_intact",
            "outputs_in_processing_order", "stalled_owner_gets_nothing", "primary_owner_is_connected"]
BUS = "org.freedesktop.DBus"
WEIGHTS = {"call": 30, "signal": 14, "reply": 12, "request": 14, "release": 5, "close": 5, "connect": 5, "hello": 4, "addmatch": 6,
           "forged": 3, "query": 2, "driver_edge": 1, "badtype": 2, "nodest": 1, "garbage": 1, "removematch": 1}


def frozen_clause(i, op, per, tk, bad, dropped=(), used=None):
    """a batch the daemon found all at once (calls, and hang-ups of their addressees among them): whatever order it served
    them in, a method call whose sender is still there was either delivered once to a connection entitled to the name, or
    answered by the bus with exactly one error - never both, never neither"""
    closing = {s[1] for s in op[1] if s[0] == "close"}
    sends = [s for s in op[1] if s[0] == "send"]
    lines = buscheck.decode_sent([s[2] for s in sends])
    seen = set()
    for s, l in zip(sends, lines):
        a = s[1]
        if l is None or a in closing or a in dropped or a not in tk.names or fld(l, "t") != "1":
            continue
        d = hexname(fld(l, "dest"))
        if d is None or d == BUS or tk.primary(d) == "?":
            continue
        key = (a, fld(l, "ser"))
        if key in seen or sum(1 for s2, l2 in zip(sends, lines) if l2 and s2[1] == a and fld(l2, "ser") == fld(l, "ser")) > 1 or \
                (used is not None and fld(l, "ser") in used.get(a, ())):
            continue            # a reused serial (in this batch, or of an earlier call that may still be outstanding): copies and errors cannot be told apart
        seen.add(key)
        me = tk.names[a]
        if d.startswith(":"):
            entitled = [c for c, n in tk.names.items() if n == d and c in tk.live]
        else:
            entitled = [x[0] for x in tk.queues.get(d, [])]
        alive = [c for c in entitled if c not in closing]
        def is_copy(x):
            return hexname(fld(x, "sender")) == me and fld(x, "ser") == fld(l, "ser") and fld(x, "t") == "1"
        copies = {to: len([x for x in ls if is_copy(x)]) for to, ls in per.items()}
        errs = len([x for x in per.get(a, []) if fld(x, "t") == "3" and fld(x, "rs") == fld(l, "ser") and hexname(fld(x, "sender")) == BUS and not is_copy(x)])
        to_entitled = sum(copies.get(c, 0) for c in alive)
        stray = [to for to, n in copies.items() if n and to not in alive and to not in tk.eaves]
        if stray:
            bad.append((None, "step %d (frozen batch): call %s#%s -> %s reached connection %s, which is not entitled to it" % (i, me, fld(l, "ser"), d, stray)))
        expects_reply = int(fld(l, "f") or 0) % 2 == 0
        gone_owner = bool(entitled) and entitled[0] in closing
        total = to_entitled + errs
        # (a callee that hangs up in the batch may have answered the call first - its reply and its hang-up were both found - :
        #  then the call was delivered to it, although nobody can see that copy any more)
        owner_names = {tk.names.get(c) for c in entitled if c in closing}
        answered = len([x for x in per.get(a, []) if fld(x, "t") in ("2", "3") and fld(x, "rs") == fld(l, "ser") and hexname(fld(x, "sender")) in owner_names])
        if total == 0 and gone_owner and answered >= 1:
            continue
        if total > 1 or (total == 0 and (expects_reply or not gone_owner)):
            bad.append((None, "step %d (frozen batch): call %s#%s -> %s (entitled: %s, hanging up in the same batch: %s) was delivered %d times and "
                        "answered with %d errors by the bus" % (i, me, fld(l, "ser"), d, entitled, sorted(closing & set(entitled)), to_entitled, errs)))


def oracle(tr):
    bad = []
    tk = Tracker()
    used = {}           # cid -> serials it has used so far
    for i, (per, closed) in enumerate(tr.steps):
        tk.before(i, tr)
        op = tr.ops[i]
        if op[0] == "send" and tr.sent(i):
            used.setdefault(op[1], set()).add(fld(tr.sent(i), "ser"))
        if op[0] == "frozen":
            frozen_clause(i, op, per, tk, bad, dropped=closed, used=used)
            for s_, l_ in zip([s for s in op[1] if s[0] == "send"], buscheck.decode_sent([s[2] for s in op[1] if s[0] == "send"])):
                if l_:
                    used.setdefault(s_[1], set()).add(fld(l_, "ser"))
            tk.after(i, tr)
            continue
        sent = tr.sent(i) if op[0] == "send" else None
        actor = op[1] if op[0] == "send" else None
        if sent and actor in tk.names and fld(sent, "t") in ("1", "2", "3", "4"):
            d = hexname(fld(sent, "dest"))
            # (a sender or an owner that is not reading: neither the copy nor the error can be seen at this step)
            if d is not None and d != BUS and actor not in tk.stalled and tk.primary(d) not in tk.stalled and tk.primary(d) != "?":
                me = tk.names[actor]
                owner = tk.primary(d)
                # copies of this very message: same sender, serial and type, not made by the bus
                def is_copy(l):
                    return hexname(fld(l, "sender")) == me and fld(l, "ser") == fld(sent, "ser") and fld(l, "t") == fld(sent, "t")
                copies = {to: [l for l in ls if is_copy(l)] for to, ls in per.items()}
                errs = [l for l in per.get(actor, []) if fld(l, "t") == "3" and fld(l, "rs") == fld(sent, "ser") and hexname(fld(l, "sender")) == BUS
                        and not is_copy(l)]
                if owner is not None and len(errs) == 1 and not any(copies.values()):
                    tk.after(i, tr)
                    continue            # refused (policy, outstanding serial, limits): one error, no delivery anywhere
                for to, ls in copies.items():
                    if to == owner:
                        if len(ls) != 1:
                            bad.append((None, "step %d: message %s -> %s (owner: connection %s) was delivered %d times to it" % (i, me, d, owner, len(ls))))
                        else:
                            a, b = ls[0], sent
                            for k in ("path", "iface", "member", "err", "rs", "dest", "sig", "fds", "body"):
                                if fld(a, k) != fld(b, k):
                                    bad.append((None, "step %d: field %s changed in transit: %s -> %s" % (i, k, fld(b, k), fld(a, k))))
                    elif ls and to not in tk.eaves:
                        bad.append((None, "step %d: message %s -> %s (owner: connection %s) also reached connection %d, which never asked to eavesdrop" % (i, me, d, owner, to)))
                    elif len(ls) > 1:
                        bad.append((None, "step %d: eavesdropper %d got %d copies" % (i, to, len(ls))))
                if owner is None:
                    if len(errs) != 1:
                        bad.append((None, "step %d: message to ownerless %s earned its sender %d error replies" % (i, d, len(errs))))
        tk.after(i, tr)
    # at most one error reply from the bus per message sent: a call that was refused (and answered with an error) must not be answered
    # again later (NoReply when the callee leaves, or on timeout) - counted per sender and serial, so that reused serials cannot confuse it
    sends, errors, raw_writers = {}, {}, set()
    for i, (per, closed) in enumerate(tr.steps):
        op = tr.ops[i]
        if op[0] == "raw":
            raw_writers.add(op[1])
        if op[0] in ("send", "sendx") and tr.sent(i):
            k = (op[1], fld(tr.sent(i), "ser")); sends[k] = sends.get(k, 0) + 1
        if op[0] == "frozen":
            for s_, l_ in zip([x for x in op[1] if x[0] == "send"], buscheck.decode_sent([x[2] for x in op[1] if x[0] == "send"])):
                if l_:
                    k = (s_[1], fld(l_, "ser")); sends[k] = sends.get(k, 0) + 1
                else:
                    raw_writers.add(s_[1])
        for cid, ls in per.items():
            for l in ls:
                if fld(l, "t") == "3" and hexname(fld(l, "sender")) == BUS and fld(l, "rs") not in (None, "-"):
                    k = (cid, fld(l, "rs")); errors.setdefault(k, []).append(i)
    for (cid, ser), at in sorted(errors.items()):
        if cid not in raw_writers and len(at) > sends.get((cid, ser), 0) and sends.get((cid, ser), 0) > 0:
            bad.append((None, "connection %d sent %d message(s) with serial %s and got %d error replies from the bus for it (steps %s): a message is answered once" %
                        (cid, sends[(cid, ser)], ser, len(at), at)))
    return bad


def order_oracle(tr):
    """messages from one sender to one recipient arrive in the order they were sent - also when the bus held them back for a
    service that was being started: per (sender, destination as addressed, recipient), the addressed copies carry the sender's
    messages in sending order. (Messages one sender addresses to *different* names are not ordered against each other when one
    of the names has no owner yet: the first wait for the service, the others are delivered at once - asking for more would
    be asking for more than the property says about "one recipient", which does not exist yet when the message is held.)"""
    bad = []
    sent_at = {}        # (sender unique name, serial, type) -> list of op indices at which such a message was sent
    names = {}
    last = {}           # (sender name, recipient cid) -> op index of the latest message already delivered
    for i, (per, closed) in enumerate(tr.steps):
        op = tr.ops[i]
        sent = tr.sent(i) if op[0] in ("send", "sendx") else None
        actor = op[1] if op[0] in ("send", "sendx") else None
        if sent and hexname(fld(sent, "member")) == "Hello" and actor not in names:
            for l in per.get(actor, []):
                if fld(l, "t") == "2" and fld(l, "rs") == fld(sent, "ser") and fld(l, "sig") == "73" and hexname(fld(l, "sender")) == BUS:
                    names[actor] = bytes.fromhex(fld(l, "body")[2:]).decode("latin1")
        if sent and actor in names and fld(sent, "dest") not in (None, "-"):
            sent_at.setdefault((names[actor], fld(sent, "ser"), fld(sent, "t")), []).append(i)
        for to, ls in per.items():
            for l in ls:
                snd = hexname(fld(l, "sender"))
                key = (snd, fld(l, "ser"), fld(l, "t"))
                if snd in (None, BUS) or key not in sent_at or len(sent_at[key]) != 1 or fld(l, "dest") in (None, "-"):
                    continue            # (made by the bus, a broadcast, or a reused serial: not attributable)
                k = sent_at[key][0]
                stream = (snd, to, fld(l, "dest"))
                prev = last.get(stream)
                if prev is not None and k < prev:
                    bad.append((None, "step %d: connection %d received %s's message of step %d (to %s) after its message of step %d: not the order they were sent in" %
                                (i, to, snd, k, hexname(fld(l, "dest")), prev)))
                last[stream] = max(k, prev) if prev is not None else k
        for c in closed:
            names.pop(c, None)
        if op[0] == "close":
            names.pop(op[1], None)
    return bad


NOEAVES = busdiff.Policy([("default", True, {"send_destination": "*"}), ("default", True, {"receive_sender": "*"}), ("default", True, {"own": "*"})])


def oracle_noeaves(tr):
    """under a policy that grants nobody eavesdropping (no receive rule says eavesdrop="true"): a message with a destination - a name, a
    unique name, or the bus itself - is seen by its addressee alone, whatever match rules other connections hold"""
    bad = oracle(tr)
    tk = Tracker()
    for i, (per, closed) in enumerate(tr.steps):
        tk.before(i, tr)
        op = tr.ops[i]
        sent = tr.sent(i) if op[0] == "send" else None
        actor = op[1] if op[0] == "send" else None
        if sent and actor in tk.names and hexname(fld(sent, "dest")) is not None:
            me, d = tk.names[actor], hexname(fld(sent, "dest"))
            owner = None if d == BUS else tk.primary(d)
            for to, ls in per.items():
                if to == owner or owner == "?":
                    continue
                n = len([l for l in ls if hexname(fld(l, "sender")) == me and fld(l, "ser") == fld(sent, "ser") and fld(l, "t") == fld(sent, "t")])
                if n:
                    bad.append((None, "step %d: message %s -> %s reached connection %d (%d copies), which is not its addressee; the policy grants nobody "
                                      "eavesdropping" % (i, me, d, to, n)))
        tk.after(i, tr)
    return bad


def run(ctx):
    check.lean_obligations(ctx, MODULE, THEOREMS)
    findings = {e["class"]: e for e in check.load_findings("C05") if e.get("status") == "known"}
    n = 60 if ctx.quick() else 1500
    buscheck.run_histories(ctx, n, 90 if ctx.quick() else 150, oracle, gen_kw={"weights": WEIGHTS, "max_conns": 5},
                           findings=findings, label="unicast")
    buscheck.run_histories(ctx, n // 2, 90, oracle, gen_kw={"weights": WEIGHTS, "max_conns": 4, "names": [b"com.example.A", b"org.x"]},
                           findings=findings, seed_salt=4, label="unicast-two-names")
    # would-be eavesdroppers under a policy that grants nobody eavesdropping: messages to names, to unique names and to the bus itself
    buscheck.run_histories(ctx, n // 2, 80, oracle_noeaves, gen_kw={"weights": dict(WEIGHTS, addmatch=16, query=14), "max_conns": 4},
                           policy=NOEAVES, findings=findings, seed_salt=13, label="eavesdrop-not-granted")
    # recipients that do not read: their queue at the bus is over max_outgoing_bytes until they read again
    buscheck.run_histories(ctx, n // 2, 80, oracle, gen_kw={"weights": dict(WEIGHTS, stall=5, unstall=4), "max_conns": 4, "no_eavesdrop": True},
                           limits={"outgoing": 20000}, findings=findings, seed_salt=9, label="slow-readers")
    # schedules: the daemon is held while clients write and hang up, and finds it all in one turn of its main loop
    buscheck.run_histories(ctx, n // 2, 70, oracle, gen_kw={"weights": dict(WEIGHTS, frozen=22, close=2, connect=8, hello=7), "max_conns": 5,
                           "names": [b"com.example.A", b"org.x"]}, findings=findings, seed_salt=11, label="frozen-batches")
    # messages held back for a service that is being started reach it in the order they were sent
    from .. import actcheck, actdiff, actgen
    actcheck.run_histories(ctx, n // 2, 60, actdiff.Svc(actgen.DEFAULT_FILES), gen_kw={"max_conns": 4, "weights": {"call": 36, "request": 14, "svcexit": 2, "actsleep": 1}},
                           seed_salt=12, label="held-for-activation", oracle_fn=order_oracle, prop="C05")


def replay(path):
    import json
    with open(path) as f:
        d = json.load(f)
    if (d.get("replay") or d).get("kind") == "act-history":
        from .. import actcheck
        return actcheck.replay_history(path, oracle_fn=order_oracle, prop="C05")
    return buscheck.replay_history(path, oracle, "C05")
