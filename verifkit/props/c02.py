"""C02 — built messages serialise to valid wire format and round-trip exactly."""
import json, random, os
from concurrent.futures import ThreadPoolExecutor
from ..common import *
from .. import common, build, lean, check, script, wiregen

MODULE = "Dbus.Props.C02"
THEOREMS = ["marshal_roundtrip", "remarshal_identical", "byteswap_values", "byteswap_involutive", "byteswap_same_length",
            "copy_differs_only_in_serial", "pushTop_keeps_valid", "build_step_keeps_valid", "build_keeps_valid", "built_message_roundtrips",
            "serial_commutes_with_append"]


def emit(rng, t, v, ops):
    k = t[0]
    if k == 'b':
        c = t[1]
        ops.append("b:%s:%s" % (c, str(v) if c in wiregen.FIXED else (v.hex() or "-")))
    elif k == 'v':
        ops.append("open:v:" + wiregen.sig(v[0])); emit(rng, v[0], v[1], ops); ops.append("close")
    elif k == 'a':
        et = t[1]
        if et[0] == 'b' and et[1] in wiregen.FIXED and et[1] not in "bh" and rng.random() < 0.6:
            # the values go in as one block, or as several blocks and single values one after the other (the API allows appending to an
            # array that already holds elements)
            if len(v) >= 2 and rng.random() < 0.5:
                parts, i = [], 0
                while i < len(v):
                    if rng.random() < 0.3:
                        parts.append("b%d" % v[i]); i += 1
                    else:
                        n = rng.randint(1, len(v) - i); parts.append(",".join(str(x) for x in v[i:i + n])); i += n
                ops.append("fa:%s:%s" % (et[1], ";".join(parts)))
            else:
                ops.append("fa:%s:%s" % (et[1], ",".join(str(x) for x in v)))
        else:
            ops.append("open:a:" + wiregen.sig(et))
            for x in v: emit(rng, et, x, ops)
            ops.append("close")
    elif k == 'r':
        ops.append("open:r")
        for ft, fv in zip(t[1], v): emit(rng, ft, fv, ops)
        ops.append("close")
    elif k == 'e':
        ops.append("open:a:{%s%s}" % (t[1], wiregen.sig(t[2])))
        for kk, vv in v:
            ops.append("open:e"); emit(rng, ('b', t[1]), kk, ops); emit(rng, t[2], vv, ops); ops.append("close")
        ops.append("close")


def has_fd(t):
    return (t[0] == 'b' and t[1] == 'h') or (t[0] in 'a' and has_fd(t[1])) or (t[0] == 'r' and any(has_fd(f) for f in t[1])) or \
           (t[0] == 'e' and (t[1] == 'h' or has_fd(t[2])))


def gen_type_nofd(rng):
    while True:
        t = wiregen.gen_type(rng)
        if not has_fd(t):
            return t


def val_has_fd(t, v):
    if t[0] == 'v': return has_fd(v[0]) or val_has_fd(v[0], v[1])
    if t[0] == 'a': return any(val_has_fd(t[1], x) for x in v)
    if t[0] == 'r': return any(val_has_fd(ft, fv) for ft, fv in zip(t[1], v))
    if t[0] == 'e': return any(val_has_fd(t[2], b) for a, b in v)
    return False


def gen_val_nofd(rng, t):
    while True:
        v = wiregen.gen_val(rng, t)
        if not val_has_fd(t, v):
            return v


def gen_program(rng):
    mt = rng.choice([1, 2, 3, 4])
    ops = ["new:%d" % mt]
    hdr = []
    def h(code):
        if code in (1, 10): return "hdr:%d:o:%s" % (code, wiregen.gen_path(rng).hex())
        if code in (2, 4): return "hdr:%d:s:%s" % (code, wiregen.gen_iface(rng).hex())
        if code == 3: return "hdr:3:s:%s" % wiregen.gen_member(rng).hex()
        if code in (6, 7): return "hdr:%d:s:%s" % (code, wiregen.gen_busname(rng).hex())
        return "hdr:5:u:%d" % rng.choice([1, 9, 0xffffffff])
    need = {1: [1, 3], 2: [5], 3: [4, 5], 4: [1, 2, 3]}[mt]
    codes = list(need) + [c for c in (1, 2, 3, 4, 5, 6, 7, 10) if c not in need and rng.random() < 0.3]
    rng.shuffle(codes)
    hdr = [h(c) for c in codes]
    if rng.random() < 0.3: hdr.append(h(rng.choice(codes)))          # replace an existing field
    hdr.append("serial:%d" % rng.choice([1, 2, 0x7fffffff, 0xffffffff, rng.getrandbits(32) or 1]))
    for bit in (1, 2, 4):
        if rng.random() < 0.3: hdr.append("flag:%d:%d" % (bit, rng.choice([0, 1])))
    optional = [c for c in (2, 6, 7, 10) if c not in need]
    late = []
    if rng.random() < 0.35:
        late.append("clr:%d" % rng.choice(optional))           # clear a field that may be present or absent
    nvals = rng.choice([0, 1, 1, 2, 3, 4])
    vals = []
    for _ in range(nvals):
        t = gen_type_nofd(rng)
        o = []; emit(rng, t, gen_val_nofd(rng, t), o); vals.append(o)
    # interleave header operations between completed top-level values
    slots = [[] for _ in range(nvals + 1)]
    for x in hdr:
        slots[rng.randrange(nvals + 1) if rng.random() < 0.35 else 0].append(x)
    for i in range(nvals + 1):
        ops += slots[i]
        if i < nvals: ops += vals[i]
    if late and rng.random() < 0.5:
        ops += late                                            # as the very last header modification
    elif late:
        ops.insert(rng.randrange(1, len(ops) + 1) if all(not o.startswith(("open", "close", "b:", "fa:")) for o in ops[1:]) else 1 + len(slots[0]), late[0])
    return ops


def run(ctx):
    check.lean_obligations(ctx, MODULE, THEOREMS)
    exe = build.cc("h_wire", ["harness/lib/h_wire.c"])
    rng = random.Random(ctx.seed * 49979687 + 2)
    n = 2500 if ctx.quick() else 60000
    progs = []
    for _ in range(n):
        p = gen_program(rng)
        if len(p) < 400:
            progs.append("wire build " + " ".join(p))
    # variants whose contained type has a long signature (a struct of 100..253 members: the signature's length byte at and beyond 128),
    # between other values, so that stepping over the variant is exercised as well as entering it
    for nmem in (100, 125, 126, 127, 128, 200, 253):
        for mem in ("i", "y", "s"):
            val = "b:i:1000003" if mem == "i" else ("b:y:65" if mem == "y" else "b:s:6869")
            p = ["new:4", "hdr:1:o:" + b"/a".hex(), "hdr:2:s:" + b"a.b".hex(), "hdr:3:s:" + b"M".hex(), "serial:7", "b:s:" + (b"A" * 300).hex(),
                 "open:v:(" + mem * nmem + ")", "open:r"] + [val] * nmem + ["close", "close", "b:i:7", "b:s:" + b"tail".hex()]
            progs.append("wire build " + " ".join(p))
    def par(lines):
        k = max(1, (len(lines) + NCPU - 1) // NCPU)
        parts = [list(range(i, min(i + k, len(lines)))) for i in range(0, len(lines), k)]
        with ThreadPoolExecutor(max_workers=NCPU) as ex:
            return parts, list(ex.map(lambda idx: script.diff([exe], [lines[i] for i in idx]), parts))
    ok = True
    parts, results = par(progs)
    for idx, res in zip(parts, results):
        if res["rc"] != 0 or res["n_impl"] != len(idx) or res["n_model"] != len(idx):
            ok = False
            j = min(res["n_impl"], len(idx) - 1)
            ctx.violate("construction harness aborted", {"op": progs[idx[j]], "stderr": res["stderr"][-2000:]}, True)
            continue
        for (j, op, impl, model, spec) in res["rows"]:
            ok = False
            what = ("re-serialisation after parsing is not byte-identical" if " rt=0 " in impl else
                    "serialised bytes (or the copy's) differ from the specification encoding of the constructed values")
            ctx.violate("built message: " + what, {"op": op, "impl": impl, "model": model}, True)
    ctx.oblige("correspondence K:wire/build (construction programs: byte-identical serialisation, parse-reserialise identity, copy)", "correspondence", ok)
    # phase 2: the other byte order. The model converts each built message to big-endian; the
    # library must read the same values from it and convert it back to the very same bytes.
    model_out, _ = script.run_model("\n".join(progs) + "\n")
    les = [l.split()[0] for l in model_out if not l.startswith("bad")]
    tobig, _ = script.run_model("\n".join("wire tobig " + x for x in les) + "\n")
    lines2 = []
    for le, be in zip(les, tobig):
        lines2.append("wire swap " + be)
        lines2.append("wire demarshal " + be)
        lines2.append("wire reencode " + be)        # parsed and serialised again before anything has read it (and converted it to native order)
    ok2 = True
    parts, results = par(lines2)
    for idx, res in zip(parts, results):
        if res["rc"] != 0 or res["n_impl"] != len(idx) or res["n_model"] != len(idx):
            ok2 = False
            j = min(res["n_impl"], len(idx) - 1)
            ctx.violate("byte-order conversion aborted", {"op": lines2[idx[j]], "stderr": res["stderr"][-2000:]}, True)
            continue
        for (j, op, impl, model, spec) in res["rows"]:
            ok2 = False
            ctx.violate("other byte order: values read or bytes after conversion differ", {"op": op, "impl": impl, "model": model}, True)
    # swap must give back exactly the little-endian original
    swapped, _ = script.run_model("\n".join(lines2[0::3]) + "\n")
    for le, sw in zip(les, swapped):
        if le != sw:
            ok2 = False
            ctx.violate("model: converting to big-endian and back is not the identity (model defect)", {"le": le, "back": sw}, True)
    ctx.oblige("correspondence K:wire/byteswap (big-endian image read back, converted to native, and re-serialised untouched)", "correspondence", ok2)
    kinds = {}
    for p in progs:
        for o in p.split()[2:]:
            kk = o.split(":")[0] + (":" + o.split(":")[1] if o.startswith("open") else "")
            kinds[kk] = kinds.get(kk, 0) + 1
    ctx.coverage.update({
        "evaluations": len(progs) + len(lines2), "distinct_nontrivial": len(set(p for p in progs if "open:" in p or "fa:" in p)),
        "rule": "well-typed construction programs: dbus_message_new + header setters in random order (with replacements, flags, serial) interleaved between "
                "top-level values; values from the type-directed generator through append_basic / open-close container / append_fixed_array; for each program the "
                "C serialisation, parse+reserialise identity and dbus_message_copy are compared with encodeMsg of the abstract message; then the big-endian image "
                "(from the model) is read back by the library and converted to native order. non-trivial = distinct programs with a container",
        "samples": [progs[0][:300], progs[len(progs) // 2][:300]], "distribution": {"programs": len(progs), "ops": kinds},
        "traces_validated_against_impl": len(progs) + len(lines2)})
    ctx.assumptions += ["dbus_message_append_args (varargs) is a thin loop over append_basic/append_fixed_array and is exercised only through those",
                        "maximal strings are bounded by the generator (a few hundred bytes)",
                        "UNIX_FD values are not built (append_basic needs a real descriptor); they are covered on the parse side (C01) and by C15"]


def replay(path):
    data = json.load(open(path))
    op = data["replay"].get("op")
    if not op:
        print("replay: no input recorded: %s" % data["what"]); return 1
    exe = build.cc("h_wire", ["harness/lib/h_wire.c"]); lean.build_driver()
    res = script.diff([exe], [op])
    for r in res["rows"]:
        print("impl=%s\nmodel=%s" % (r[2], r[3]))
    bad = res["rows"] or res["rc"] != 0
    if bad:
        print("VIOLATION property=C02 replay=%s" % path)
    return 1 if bad else 0
