"""C14 — out-of-memory at any point leaves state unchanged and leaks nothing."""
import os, re, json
from concurrent.futures import ProcessPoolExecutor
import random, subprocess
from ..common import *
from .. import check, build, oomcheck, bus, wiregen, script, busdiff
from . import c02, c06, c07, c12

MODULE = "Dbus.Props.C14"
THEOREMS = ["oom_changes_nothing", "undo_addOwner", "undo_removePrimary", "undo_swap", "cancel_restores", "replace_then_cancel",
            "f22_witness", "f23_witness", "pending_cancel_restores", "cancelled_transaction_restores_pending", "cancel_order_matters"]


def queue_of(state, name):
    """connections in the owner queue of `name` according to the model's state line"""
    m = re.search(r"(?:^| )" + re.escape(name) + r"=\[([^\]]*)\]", state)
    if not m or not m.group(1):
        return []
    return [int(re.match(r"\d+", x).group(0)) for x in m.group(1).split(",")]


def classify(res, prob):
    """known-finding class of a problem, or None"""
    if res["family"] == "hello" and prob["kind"] in ("state-changed-although-NoMemory-was-reported", "retry-does-not-succeed", "neither-all-nor-nothing"):
        return "hello-half-done"
    if prob["kind"] != "state-changed-although-NoMemory-was-reported" or res["family"] not in ("request", "release"):
        return None
    try:
        m = wiregen.parse_message(bytes.fromhex(res["target_hex"]))
        name = m.body[0].decode("latin1")
    except Exception:
        return None
    q = queue_of(res["prior_state"], name)
    c = res["caller"]
    if res["family"] == "request" and c in q:
        return "requestname-by-queue-member-not-undone"
    if res["family"] == "release" and c in q[1:]:
        return "releasename-by-waiter-not-undone"
    return None


def library_half(ctx, findings):
    """allocation failures inside libdbus' message construction / editing, the match-rule parser and the configuration
    loader (in process, libdbus' own fault injector; answers compared with the Lean model of the operation, which a
    failed attempt must leave untouched)"""
    quick = ctx.quick()
    rng = random.Random(ctx.seed * 9176 + 14)
    wire = build.cc("h_wire", ["harness/lib/h_wire.c"])
    match = build.cc("h_match", ["harness/lib/h_match.c"], daemon=True)
    oom = build.cc("h_oom", ["harness/lib/h_oom.c"], daemon=True)
    cov = ctx.coverage.setdefault("library", {})
    import time as _t
    t0 = _t.time(); tm = cov.setdefault("seconds", {})
    def mark(name):
        nonlocal t0
        tm[name] = round(_t.time() - t0, 1); t0 = _t.time()
    # --- header edits
    lines = []
    for i in range(1500 if quick else 30000):
        m = wiregen.gen_message(rng, max_body_types=2); b = m.marshal()
        if len(b) <= 600:
            lines.append("wire oomedit %s %s" % (b.hex(), " ".join(c12.gen_ops(rng))))
    r = script.diff([wire], lines)
    known, bad = 0, []
    for (i, op, impl, mm, sp) in r["rows"]:
        toks = impl.split()
        ch = [t for t in toks if t.startswith("CHANGED-BY-FAILED-OP")]
        if ch and all(t.endswith(":unk") for t in ch) and "remove-unknown-fields-partial" in findings:
            known += 1
        else:
            bad.append((op, impl, mm))
    if known:
        e = findings["remove-unknown-fields-partial"]
        ctx.known_lines.append("%s %s — seen for %d generated messages of this run" % (e["key"], e["what"], known))
    if r["rc"] != 0 or r["n_impl"] != len(lines):
        ctx.violate("header-edit harness stopped under injected allocation failures (sanitizer/assertion?): " + r["stderr"][-500:],
                    {"kind": "lib-oom", "suite": "oomedit", "op": lines[r["n_impl"]] if r["n_impl"] < len(lines) else None, "stderr": r["stderr"][-2000:]}, True)
    for op, impl, mm in bad[:3]:
        ctx.violate("a header edit that ran out of memory changed the message, or the edit differs from the model afterwards: " + impl[:160],
                    {"kind": "lib-oom", "suite": "oomedit", "op": op, "impl": impl, "model": mm}, failing_input=True)
    ctx.oblige("correspondence (library/edit under allocation failure): %d messages x header edits, every allocation of every edit failed in turn: "
               "message bytes unchanged by a failed edit, edit = model when let through" % len(lines), "correspondence",
               r["rc"] == 0 and r["n_impl"] == len(lines) and not bad)
    cov["header_edit_messages"] = len(lines); mark("header_edits")
    # --- construction, copy, marshalling
    lines = []
    for i in range(600 if quick else 12000):
        p = c02.gen_program(rng)
        if sum(len(x) for x in p) <= 4000:
            lines.append("wire oombuild " + " ".join(p))
    r = script.diff([wire], lines)
    ok = r["rc"] == 0 and r["n_impl"] == len(lines) and not r["rows"]
    for (i, op, impl, mm, sp) in r["rows"][:3]:
        ctx.violate("building / copying / marshalling a message under allocation failure: " + impl[:160],
                    {"kind": "lib-oom", "suite": "oombuild", "op": op, "impl": impl, "model": mm}, failing_input=True)
    if r["rc"] != 0 or r["n_impl"] != len(lines):
        ctx.violate("message-construction harness stopped under injected allocation failures: " + r["stderr"][-500:],
                    {"kind": "lib-oom", "suite": "oombuild", "op": lines[r["n_impl"]] if r["n_impl"] < len(lines) else None, "stderr": r["stderr"][-2000:]}, True)
    ctx.oblige("correspondence (library/build under allocation failure): %d construction programs: header settings, copy and marshalling with every "
               "allocation failed in turn = model" % len(lines), "correspondence", ok)
    cov["construction_programs"] = len(lines); mark("construction")
    # --- the documented limitation of appends
    env = dict(os.environ); env.update(build.ASAN_ENV)
    out = subprocess.run([wire], input="wire oomappend\n", text=True, capture_output=True, env=env).stdout.strip()
    m = re.match(r"failed=(\d+) body-changed=(\d+)", out)
    if m and int(m.group(2)) > 0:
        if "append-leaves-message-unusable" in findings:
            e = findings["append-leaves-message-unusable"]
            ctx.known_lines.append("%s %s — %s of %s failing allocations of one dbus_message_iter_append_basic leave the value in the body" %
                                   (e["key"], e["what"], m.group(2), m.group(1)))
        else:
            ctx.violate("a failed dbus_message_iter_append_basic leaves the appended value in the body: " + out, {"kind": "lib-oom", "suite": "oomappend", "out": out}, True)
    cov["append_witness"] = out
    # --- whatever a failed append does to the message, releasing the message must leave nothing behind
    out = subprocess.run([wire], input="wire oomleak\n", text=True, capture_output=True, env=env).stdout.strip()
    m = re.match(r"trials=(\d+) failed=(\d+) fd-leaks=(\d+) block-leaks=(\d+) first=(.*)", out)
    okl = bool(m) and int(m.group(3)) == 0 and int(m.group(4)) == 0 and int(m.group(2)) > 0
    if not okl:
        ctx.violate("an append that ran out of memory leaks (a descriptor or heap block is still there after the message was released): " + out,
                    {"kind": "lib-oom", "suite": "oomleak", "out": out}, True)
    ctx.oblige("failed appends leak nothing: every basic type incl. UNIX_FD, every allocation failed in turn, message released, open descriptors "
               "and outstanding blocks compared (%s)" % out, "correspondence", okl)
    cov["append_leak_sweep"] = out; mark("append")
    # --- match rules
    lines = []
    for i in range(1500 if quick else 30000):
        t = c07.gen_rule(rng)
        t = t if isinstance(t, bytes) else t.encode()
        lines.append("match oomparse " + (t.hex() or "-"))
    r = script.diff([match], lines)
    ok = r["rc"] == 0 and r["n_impl"] == len(lines) and not r["rows"]
    for (i, op, impl, mm, sp) in r["rows"][:3]:
        ctx.violate("parsing a match rule under allocation failure: " + impl[:160], {"kind": "lib-oom", "suite": "oomparse", "op": op, "impl": impl, "model": mm}, True)
    if r["rc"] != 0 or r["n_impl"] != len(lines):
        ctx.violate("match-rule harness stopped under injected allocation failures: " + r["stderr"][-500:],
                    {"kind": "lib-oom", "suite": "oomparse", "stderr": r["stderr"][-2000:]}, True)
    ctx.oblige("correspondence (match-rule parser under allocation failure): %d rule texts, every allocation failed in turn: NoMemory, nothing left "
               "allocated, parse = model when let through" % len(lines), "correspondence", ok)
    cov["match_rules"] = len(lines); mark("match_rules")
    # --- configuration files
    work = os.path.join(bus.RUNROOT, "oomconf-%d" % os.getpid())
    os.makedirs(work, exist_ok=True)
    n_conf, allocs, problems = (12 if quick else 200), 0, []
    try:
        script_lines = []
        for i in range(n_conf):
            pol = c06.gen_policy(rng) if i % 2 else c06.gen_policy_dest(rng)
            pol = pol[0] if isinstance(pol, tuple) else pol
            xml = (pol.to_xml() if hasattr(pol, "to_xml") else busdiff.Policy(pol).to_xml())
            lim = "".join('  <limit name="%s">%d</limit>\n' % (k, rng.randint(1, 100000)) for k in rng.sample(
                ["max_incoming_bytes", "max_message_size", "service_start_timeout", "auth_timeout", "max_completed_connections", "max_names_per_connection",
                 "max_match_rules_per_connection", "max_replies_per_connection", "reply_timeout"], rng.randint(0, 5)))
            path = os.path.join(work, "c%d.conf" % i)
            with open(path, "w") as f:
                f.write(oomcheck.CONF % (xml + lim + "  <servicedir>/nonexistent/verif</servicedir>\n  <type>session</type>\n"))
            script_lines.append("oomconf " + path)
        p = subprocess.run([oom], input="\n".join(script_lines) + "\n", text=True, capture_output=True, env=env, timeout=1800)
        outs = p.stdout.splitlines()
        for path, o in zip(script_lines, outs):
            m = re.match(r"allocations=(\d+) failed=(\d+) loaded=(\d+) leak=(\d+) first-leak-at=(\d+) wrong-error=(\d+)", o)
            if not m or m.group(3) != "1" or m.group(4) != "0" or m.group(6) != "0":
                problems.append((path, o, open(path.split()[1]).read()))
            else:
                allocs += int(m.group(1))
        if p.returncode != 0 or len(outs) != len(script_lines):
            problems.append(("harness", "rc=%s after %d of %d files: %s" % (p.returncode, len(outs), len(script_lines), p.stderr[-800:]), ""))
    finally:
        import shutil
        shutil.rmtree(work, ignore_errors=True)
    mark("config_files")
    for path, o, text in problems[:3]:
        ctx.violate("loading a configuration file under allocation failure: " + o[:200], {"kind": "lib-oom", "suite": "oomconf", "result": o, "config": text}, True)
    ctx.oblige("configuration loader under allocation failure: %d generated configuration files, each of their %d allocations failed in turn: "
               "NoMemory, nothing left allocated, loads with memory available" % (n_conf, allocs), "correspondence", not problems)
    cov["config_files"] = n_conf; cov["config_allocation_points"] = allocs
    ctx.coverage["evaluations"] = ctx.coverage.get("evaluations", 0) + cov["header_edit_messages"] + cov["construction_programs"] + cov["match_rules"] + allocs


def run(ctx):
    if THEOREMS:
        check.lean_obligations(ctx, MODULE, THEOREMS)
    findings = {e["class"]: e for e in check.load_findings("C14") if e.get("status") == "known"}
    os.makedirs(bus.RUNROOT, exist_ok=True)
    library_half(ctx, findings)
    exe = build.cc("h_oom", ["harness/lib/h_oom.c"], daemon=True)
    n_cases, max_k, pairs = (56, 22, 2) if ctx.quick() else (400, 100, 8)      # the thorough tier: about 25 minutes on 16 cores
    jobs = [(exe, ctx.seed * 100003 + i, 12 if i % 3 else 20, max_k, pairs) for i in range(n_cases)]
    # spelled-out cases first: a queue behind an owner and a newcomer asking to replace, every allocation of that request failed in turn
    jobs = [(exe, 7000 + k, 0, 400, 0, k) for k in range(len(oomcheck.SCRIPTED))] + jobs
    with ProcessPoolExecutor(14) as ex:
        results = list(ex.map(oomcheck._job, jobs, chunksize=1))
    infra = [r for r in results if "infra" in r]
    if len(infra) > max(2, n_cases // 10):
        raise InfraError("OOM harness failed on %d/%d cases, e.g. %s" % (len(infra), n_cases, infra[0]["infra"][:800]))
    good = [r for r in results if "infra" not in r and not r.get("skip")]
    fam, trials, oom, full, agree = {}, 0, 0, 0, 0
    known_hits = {}
    for r in good:
        f = fam.setdefault(r["family"], {"cases": 0, "trials": 0, "oom": 0, "full": 0, "allocs_max": 0})
        f["cases"] += 1; f["trials"] += r["trials"]; f["oom"] += r["oom_outcomes"]; f["full"] += r["full_outcomes"]
        f["allocs_max"] = max(f["allocs_max"], r["allocs"] or 0)
        trials += r["trials"]; oom += r["oom_outcomes"]; full += r["full_outcomes"]
        unlisted = []
        for p in r["problems"]:
            cls = classify(r, p)
            if cls in findings:
                known_hits.setdefault(cls, []).append((r["seed"], p.get("k")))
            else:
                unlisted.append(p)
        if not unlisted:
            agree += 1
            continue
        p = unlisted[0]
        replay = {"kind": "oom-case", "seed": r["seed"], "family": r["family"], "prior": r.get("replay", {}).get("ops"), "target": r.get("replay", {}).get("target"),
                  "problem": p, "stderr": r.get("stderr", "")[-1200:]}
        model_only = p["kind"] in ("model-differs-prior", "model-differs-clean")
        ctx.violate(("bus model and the in-process bus differ without any failure injected (%s)" % p["kind"]) if model_only else
                    "allocation failure %s of %s while the bus handles a %s request: %s" % (p.get("k"), r.get("allocs"), r["family"], p["kind"]),
                    replay, failing_input=not model_only)
    ctx.oblige("correspondence (bus under allocation failure): %d prior states x every failing allocation (%d trials): each trial equals the model's "
               "full outcome or its out-of-memory outcome, nothing outstanding after teardown, retry succeeds" % (len(good), trials),
               "correspondence", agree == len(good), "" if agree == len(good) else "%d cases show a problem" % (len(good) - agree))
    ctx.coverage["oom"] = {"cases": len(good), "trials": trials, "oom_outcomes": oom, "full_outcomes": full, "by_family": fam,
                           "harness_failures": len(infra), "known_finding_hits": {k: len(v) for k, v in known_hits.items()}}
    ctx.coverage["evaluations"] = ctx.coverage.get("evaluations", 0) + trials
    ctx.coverage["distinct_nontrivial"] = oom
    for cls, hits in known_hits.items():
        e = findings[cls]
        ctx.known_lines.append("%s %s — seen in %d trials of this run, e.g. case %d failing allocation %s" % (e["key"], e["what"], len(hits), hits[0][0], hits[0][1]))


def replay(path):
    data = json.load(open(path))
    rp = data["replay"]
    if rp.get("kind") == "lib-oom" and rp.get("suite") == "oomleak":
        build.ensure_repo_build()
        wire = build.cc("h_wire", ["harness/lib/h_wire.c"])
        env = dict(os.environ); env.update(build.ASAN_ENV)
        out = subprocess.run([wire], input="wire oomleak\n", text=True, capture_output=True, env=env).stdout.strip()
        m = re.match(r"trials=(\d+) failed=(\d+) fd-leaks=(\d+) block-leaks=(\d+)", out)
        print("replay C14 (failed appends leak nothing): " + out)
        return 0 if m and int(m.group(3)) == 0 and int(m.group(4)) == 0 else 1
    if rp.get("kind") != "oom-case":
        print("replay: not an OOM case: %s" % data.get("what")); return 1
    os.makedirs(bus.RUNROOT, exist_ok=True)
    exe = build.cc("h_oom", ["harness/lib/h_oom.c"], daemon=True)
    if 7000 <= rp["seed"] < 7000 + len(oomcheck.SCRIPTED):
        r = oomcheck._job((exe, rp["seed"], 0, 400, 0, rp["seed"] - 7000))
    else:
        r = oomcheck._job((exe, rp["seed"], 12 if rp["seed"] % 100003 % 3 else 20, 400, 4))
    probs = [p for p in r.get("problems", []) if classify(r, p) is None]
    print("replay C14: case %s problems=%s" % (rp["seed"], [(p["kind"], p.get("k")) for p in probs][:6]))
    return 1 if probs or "infra" in r else 0
