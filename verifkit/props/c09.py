"""C09 — only the addressee of a pending call can answer it, once."""
import re
from ..common import *
from .. import check, buscheck, busdiff
from ..buscheck import fld, hexname, Tracker

MODULE = "Dbus.Props.C09"
THEOREMS = ["reply_without_slot_refused", "reply_consumes_slot", "second_reply_finds_no_slot", "no_reply_expected_no_slot",
            "outstanding_serial_refused", "pending_never_duplicated", "callee_gone_one_noreply_each", "timeout_one_noreply_each",
            "noReply_shape", "full_queue_opens_no_slot", "expire_due_one_noreply_each", "reply_deadline_is_fixed",
            "young_call_survives", "no_reply_timeout_nothing_expires", "timedInv_run", "young_call_survives_reachable",
            "slots_between_connected_clients"]
BUS = "org.freedesktop.DBus"
ERR = "org.freedesktop.DBus.Error."
# the system bus default as far as replies go: method calls and signals may be sent, replies only when requested
REQUESTED = busdiff.Policy([("default", True, {"user": "*"}), ("default", True, {"own": "*"}),
    ("default", True, {"send_type": "method_call"}), ("default", True, {"send_type": "signal"}),
    ("default", True, {"send_requested_reply": "true", "send_type": "method_return"}),
    ("default", True, {"send_requested_reply": "true", "send_type": "error"}),
    ("default", True, {"receive_type": "method_call"}), ("default", True, {"receive_type": "method_return"}),
    ("default", True, {"receive_type": "error"}), ("default", True, {"receive_type": "signal"})])
W = {"call": 32, "reply": 34, "signal": 4, "request": 10, "close": 6, "connect": 5, "hello": 4, "forged": 3, "release": 3,
     "addmatch": 0, "removematch": 0, "query": 1, "driver_edge": 1, "badtype": 1, "nodest": 1, "garbage": 1}


def frozen_step(i, op, per, closed, tk, slots, born, now, bad):
    """a batch the daemon found all at once (see C05): calls of the batch have exactly one outcome each (C05's clause); callers
    that were already waiting for a connection that hangs up in the batch get their NoReply; calls of the batch that were
    delivered to connections still there open slots"""
    from . import c05
    c05.frozen_clause(i, op, per, tk, bad, dropped=closed, used={c: {str(s[2]) for s in slots if s[0] == c} for c in {s[0] for s in slots}})
    closing = {s[1] for s in op[1] if s[0] == "close"} | set(closed)
    sends = [s for s in op[1] if s[0] == "send"]
    lines = buscheck.decode_sent([s[2] for s in sends])
    noreply = {}
    for to, ls in per.items():
        for l in ls:
            if fld(l, "t") == "3" and hexname(fld(l, "sender")) == BUS and hexname(fld(l, "err")) == ERR + "NoReply":
                noreply.setdefault(to, []).append(int(fld(l, "rs")))
    in_batch = {}
    for s, l in zip(sends, lines):
        if l is not None and fld(l, "t") == "1":
            in_batch.setdefault(s[1], set()).add(int(fld(l, "ser")))
    expected = {}
    for s in list(slots):
        if s[1] in closing and s[0] not in closing:
            expected.setdefault(s[0], []).append(s[2])
        if s[0] in closing or s[1] in closing:
            slots.remove(s)
    for c in set(noreply) | set(expected):
        got, want = sorted(noreply.get(c, [])), sorted(expected.get(c, []))
        extra = [x for x in got if x not in want]
        missing = [x for x in want if x not in got]
        if c in tk.live and c not in closing and c not in tk.stalled and (missing or any(x not in in_batch.get(c, set()) for x in extra) or len(set(got)) != len(got)):
            bad.append((None, "step %d (frozen batch): connection %d got NoReply for serials %s; calls outstanding to connections that hung up in the batch: %s" % (i, c, got, want)))
    for s, l in zip(sends, lines):
        a = s[1]
        if l is None or a in closing or a not in tk.names:
            continue
        d = hexname(fld(l, "dest"))
        if d is None or d == BUS or tk.primary(d) in (None, "?"):
            continue
        owner = tk.primary(d)
        me = tk.names[a]
        if fld(l, "t") == "1" and owner not in closing and int(fld(l, "f") or 0) % 2 == 0:
            got = len([x for x in per.get(owner, []) if hexname(fld(x, "sender")) == me and fld(x, "ser") == fld(l, "ser") and fld(x, "t") == "1"])
            sl = (a, owner, int(fld(l, "ser")))
            if got == 1 and sl not in slots:
                slots.append(sl); born[sl] = now
        elif fld(l, "t") in ("2", "3") and fld(l, "rs") not in (None, "-"):
            sl = (owner, a, int(fld(l, "rs")))
            if sl in slots:
                slots.remove(sl)


def oracle(tr, reply_timeout=None):
    bad = []
    tk = Tracker()
    slots = []          # (caller cid, callee cid, serial)
    born = {}           # slot -> the virtual time it was recorded at (histories with `advance` ops)
    now = 0
    unsure = set()      # callers that called a name whose owner the oracle does not know
    for i, (per, closed) in enumerate(tr.steps):
        tk.before(i, tr)
        op = tr.ops[i]
        if op[0] == "frozen":
            frozen_step(i, op, per, closed, tk, slots, born, now, bad)
            tk.after(i, tr)
            continue
        sent = tr.sent(i) if op[0] == "send" else None
        actor = op[1] if op[0] == "send" else None
        if op[0] == "send" and sent is None and actor in tk.names:
            # a method return or error that names no call at all (REPLY_SERIAL 0) answers nothing: it must never reach anybody
            try:
                from .. import wiregen as _wg
                pm = _wg.parse_message(op[2])
            except Exception:
                pm = None
            if pm is not None and pm.mtype in (2, 3) and pm.get(5) == 0:
                for to, ls in per.items():
                    for l in ls:
                        # (what arrives is itself no valid message: the receiving side's dump calls it corrupt)
                        if to != actor and (l.startswith("corrupt") or (hexname(fld(l, "sender")) == tk.names[actor] and fld(l, "t") in ("2", "3"))):
                            bad.append((None, "step %d: a reply that names no call (REPLY_SERIAL 0) from %s reached connection %s: %s" % (i, tk.names[actor], to, l[:120])))
        noreply = {}        # caller -> list of serials for which a NoReply from the bus arrived in this step
        for to, ls in per.items():
            for l in ls:
                if fld(l, "t") == "3" and hexname(fld(l, "sender")) == BUS and hexname(fld(l, "err")) == ERR + "NoReply":
                    noreply.setdefault(to, []).append(int(fld(l, "rs")))
        expected_noreply = {}
        if sent and actor in tk.names and fld(sent, "t") in ("1", "2", "3", "4"):
            d = hexname(fld(sent, "dest"))
            me = tk.names[actor]
            if d is not None and d != BUS and tk.primary(d) == "?" and fld(sent, "t") == "1":
                unsure.add(actor)       # (who owns that name is not known - it was requested by a connection that was not reading -: whether this call opened a slot is not known either)
            if d is not None and d != BUS and tk.primary(d) != "?":
                owner = tk.primary(d)
                def is_copy(l):
                    return hexname(fld(l, "sender")) == me and fld(l, "ser") == fld(sent, "ser") and fld(l, "t") == fld(sent, "t")
                got = len([l for l in per.get(owner, []) if is_copy(l)]) if owner is not None else 0
                rs = fld(sent, "rs")
                if fld(sent, "t") in ("2", "3") and rs not in (None, "-"):
                    s = (owner, actor, int(rs))
                    if owner is not None and s in slots:
                        slots.remove(s)          # used up whether or not it got through
                        if got != 1 and owner not in tk.stalled:      # (a caller that is not reading is refused the reply: queue full)
                            bad.append((None, "step %d: the requested reply %s -> %s (serial %s) was delivered %d times" % (i, me, d, rs, got)))
                    elif got and owner not in unsure:
                        bad.append((None, "step %d: a reply from %s with serial %s reached connection %s, which has no such call outstanding to it" % (i, me, rs, owner)))
                elif fld(sent, "t") == "1" and got == 1 and int(fld(sent, "f")) % 2 == 0:
                    s = (actor, owner, int(fld(sent, "ser")))
                    if s in slots:
                        bad.append((None, "step %d: a call reusing outstanding serial %d was delivered" % (i, s[2])))
                    slots.append(s); born[s] = now
        gone = set(closed) | ({op[1]} if op[0] == "close" else set())
        for c in gone:
            for s in list(slots):
                if s[1] == c and s[0] != c and s[0] not in gone:
                    expected_noreply.setdefault(s[0], []).append(s[2])
                if s[0] == c or s[1] == c:
                    slots.remove(s)
        if op[0] == "sleep":
            for s in slots:
                expected_noreply.setdefault(s[0], []).append(s[2])
            slots = []
        if op[0] == "advance" and reply_timeout:
            # the deadline of a call is fixed when it is delivered: exactly the calls older than the timeout have run out
            now += op[1]
            for s in list(slots):
                if born.get(s, 0) + reply_timeout <= now:
                    expected_noreply.setdefault(s[0], []).append(s[2])
                    slots.remove(s)
        for c in set(noreply) | set(expected_noreply):
            a, b = sorted(noreply.get(c, [])), sorted(expected_noreply.get(c, []))
            if c in unsure and set(b) <= set(a) and len(set(a)) == len(a):
                continue        # (this caller may have calls outstanding that the oracle could not follow)
            if a != b and c in tk.live and c not in gone and c not in tk.stalled and op[0] != "unstall":
                bad.append((None, "step %d: connection %d got NoReply for serials %s, outstanding calls say %s" % (i, c, a, b)))
        tk.after(i, tr)
    return bad


EAVES = busdiff.Policy(REQUESTED.rules + [("default", True, {"receive_type": "method_call", "eavesdrop": "true"}),
                                         ("default", True, {"receive_type": "signal", "eavesdrop": "true"})])


def eavesdropper_scripts():
    """somebody who listens in on a call is not its addressee: a reply of his is as unrequested as anybody else's, and his leaving
    costs the caller nothing"""
    from ..bus import method_call, reply_msg, BUS, BUS_PATH
    hello = lambda: method_call(1, BUS, BUS_PATH, BUS, "Hello").marshal()
    add = lambda s, r: method_call(s, BUS, BUS_PATH, BUS, "AddMatch", "s", [r]).marshal()
    call = lambda s, dest, mem="M": method_call(s, dest, "/a", "a.b", mem, "s", [b"x"]).marshal()
    ret = lambda s, dest, rs, err=None: reply_msg(s, rs, dest, error=err).marshal()
    base = [("connect", 0, 0, False), ("send", 0, hello())] + [x for c in (1, 2, 3) for x in (("connect", c, 0, False), ("send", c, hello()))]
    out = []
    for rule in (b"type='method_call',eavesdrop='true'", b"eavesdrop='true'"):
        out.append(base + [("send", 3, add(2, rule)), ("send", 1, call(100, ":1.2")), ("send", 3, ret(3, ":1.1", 100)), ("send", 3, ret(4, ":1.1", 100, "a.E")),
                           ("send", 2, ret(2, ":1.1", 100)), ("send", 1, call(101, ":1.2", "N")), ("send", 2, ret(3, ":1.1", 101)), ("close", 3),
                           ("send", 1, call(102, ":1.2", "O")), ("close", 2)])
    return out


def run(ctx):
    check.lean_obligations(ctx, MODULE, THEOREMS)
    n = 60 if ctx.quick() else 1200
    buscheck.run_histories(ctx, 0, 0, oracle, policy=EAVES, seed_salt=26, label="eavesdropper-scenarios", scripts=eavesdropper_scripts())
    buscheck.run_histories(ctx, n // 2, 80, oracle, gen_kw={"weights": dict(W, addmatch=8), "max_conns": 4}, policy=EAVES, seed_salt=27,
                           label="eavesdroppers")
    buscheck.run_histories(ctx, n, 90 if ctx.quick() else 150, oracle, gen_kw={"weights": W, "max_conns": 4},
                           policy=REQUESTED, label="requested-replies-only")
    buscheck.run_histories(ctx, n // 2, 80, oracle, gen_kw={"weights": W, "max_conns": 4}, policy=REQUESTED,
                           limits={"replies": 2}, seed_salt=21, label="replies-limit-2")
    # (a profile that let a real reply_timeout of 300 ms pass by sleeping was dropped: on a busy machine a history took longer than
    #  the timeout and the check raised false alarms; the virtual-clock profile below covers timeouts, whole and partial)
    # callees and callers that do not read: a call refused because the callee's queue is full opens no slot
    buscheck.run_histories(ctx, n // 2, 80, oracle, gen_kw={"weights": dict(W, stall=6, unstall=5), "max_conns": 4, "no_eavesdrop": True},
                           policy=REQUESTED, limits={"outgoing": 20000}, seed_salt=23, label="slow-readers")
    # schedules: the daemon is held while callers write and callees hang up (see C05)
    buscheck.run_histories(ctx, n // 2, 70, oracle, gen_kw={"weights": dict(W, frozen=20, close=2, connect=8, hello=7, reply=14), "max_conns": 5,
                           "names": [b"com.example.A", b"org.x"]}, policy=REQUESTED, seed_salt=25, label="frozen-batches")
    # deadlines: a finite reply timeout (800 s) against a virtual clock that moves in steps of 450 s and 700 s; many calls stay
    # unanswered, callees leave while younger calls are outstanding
    from .. import actcheck, actdiff, busgen
    actcheck.run_histories(ctx, n // 2, 70, actdiff.Svc([]), gen_kw={"max_conns": 4, "plain_names": busgen.NAMES,
                           "weights": dict(W, reply=12, close=9, connect=8, hello=7, advance=9, actsleep=0, svcexit=0, startsvc=0)},
                           policy=REQUESTED, limits={"reply_timeout": TIMED_REPLY_TIMEOUT}, seed_salt=24, label="reply-deadlines",
                           oracle_fn=timed_oracle, prop="C09")


def timed_oracle(tr):
    return oracle(tr, reply_timeout=TIMED_REPLY_TIMEOUT)


TIMED_REPLY_TIMEOUT = 800000


def replay(path):
    import json
    with open(path) as f:
        d = json.load(f)
    if (d.get("replay") or d).get("kind") == "act-history":
        from .. import actcheck
        return actcheck.replay_history(path, oracle_fn=timed_oracle, prop="C09")
    return buscheck.replay_history(path, oracle, "C09")
