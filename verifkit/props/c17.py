"""C17 — every call awaiting a reply completes exactly once."""
import json, random, os, re
from ..common import *
from .. import common, build, lean, check, script

MODULE = "Dbus.Props.C17"
THEOREMS = ["inv_run", "completes_at_most_once", "cancelled_never_notified", "reply_matches_serial", "counterAfter_eq",
            "serial_nonzero", "serials_distinct_before_wrap", "serial_fits", "f11_witness", "completes_by_reply_timeout_block",
            "registered_serials_distinct"]


def canon(line):
    """the order in which the connection-drop sweep walks its hash table is not observable per
    call: sort each run of synthesized timeout errors in the filter list"""
    m = re.search(r"filters=(\S+)", line)
    if not m or m.group(1) == "-":
        return line
    items = m.group(1).split(",")
    out, run = [], []
    for it in items:
        if it.startswith("T"):
            run.append(it)
        else:
            out += sorted(run, key=lambda x: int(x[1:])); run = []; out.append(it)
    out += sorted(run, key=lambda x: int(x[1:]))
    return line[:m.start(1)] + ",".join(out) + line[m.end(1):]


def gen_case(rng):
    ops = ["pc reset"]
    n = rng.randint(1, 6)
    calls = []          # dict(fin, notify, replied, cancelled, done?)
    closed = False
    tag = [10]
    def newtag(err):
        tag[0] += 2
        return tag[0] + (1 if err else 0)
    for i in range(n):
        fin, ntf = rng.random() < 0.6, rng.random() < 0.7
        calls.append({"fin": fin, "ntf": ntf, "sent": 0, "cancelled": False})
        if rng.random() < 0.18:
            # a send that fails after the message got its serial (the application's add-timeout function refuses once); the application
            # gives up, or tries again with the very same message
            ops.append("pc failsend")
            if rng.random() < 0.7:
                ops.append("pc retry %d %d" % (fin, ntf))
                continue
        if rng.random() < 0.2:
            # serial chosen by the application, including values with the top bit set
            ops.append("pc sendser %d %d %d" % (rng.choice([0x80000000, 0x80000001, 0xfffffffe, 0xffffffff, 0x7fffffff, 1000]) - i * 3, fin, ntf))
        else:
            ops.append("pc send %d %d" % (fin, ntf))
    steps = rng.randint(3, 18)
    for _ in range(steps):
        r = rng.random()
        i = rng.randrange(n)
        c = calls[i]
        if closed:
            r = 0.5 + r / 2
        if r < 0.28:
            ops.append("pc peer %d %d" % (i, newtag(rng.random() < 0.3))); c["sent"] += 1
            if rng.random() < 0.15:
                ops.append("pc peer %d %d" % (i, newtag(False))); c["sent"] += 1        # duplicate reply
        elif r < 0.31:
            ops.append("pc peer-stray %d %d" % (rng.choice([99, 1000, i + 1, 0x7fffffff]), newtag(False)))
        elif r < 0.35:
            ops.append("pc peer-signal %d %d" % (i, newtag(False))); c["sent"] += 1      # not a reply, but it names the call's serial
        elif r < 0.5:
            ops.append("pc pump")
        elif r < 0.72:
            # after the peer has closed, the order in which the connection-drop sweep walks its hash
            # table would become observable through partial dispatching: always drain completely then
            ops += ["pc dispatch"] * (1 if not closed else 3 * n + 8)
        elif r < 0.8:
            ops.append("pc fire %d" % i)
        elif r < 0.86 and not c["cancelled"]:
            ops.append("pc cancel %d" % i); c["cancelled"] = True
        elif r < 0.905 and not c["cancelled"] and not closed:
            # the wait is issued from inside a filter, while a dispatch is under way: the queue is drained first, then the peer writes a
            # stray message (the one the filter will be handed: replies that answer a registered call never reach the filters) and,
            # behind it, the reply the filter is going to wait for
            ops += ["pc pump"] + ["pc dispatch"] * (2 * n + 6)
            ops.append("pc peer-stray %d %d" % (rng.choice([99, 1000, 0x7ffffff0]), newtag(False)))
            ops.append("pc peer %d %d" % (i, newtag(rng.random() < 0.3))); c["sent"] += 1
            if rng.random() < 0.5:
                ops.append("pc pump")
            ops.append("pc dispatch-block %d" % i)
        elif r < 0.93 and not c["cancelled"] and (c["sent"] > 0 or closed):
            ops.append("pc block %d" % i)
        elif r < 0.97 and not closed:
            ops.append("pc close-peer"); closed = True
        else:
            ops.append("pc status")
    # settle: every call gets a reply, a fired timeout, or the connection is closed
    for i, c in enumerate(calls):
        if c["cancelled"]:
            continue
        if c["fin"]:
            ops.append("pc fire %d" % i)
        elif c["sent"] == 0 and not closed:
            if rng.random() < 0.5:
                ops.append("pc peer %d %d" % (i, newtag(False))); c["sent"] += 1
            else:
                ops.append("pc close-peer"); closed = True
    ops.append("pc pump")
    ops += ["pc dispatch"] * (3 * n + 8)
    ops += ["pc status", "pc final"]
    return ops


def run(ctx):
    check.lean_obligations(ctx, MODULE, THEOREMS)
    exe = build.cc("h_pcall", ["harness/lib/h_pcall.c"])
    findings = {e["class"]: e for e in check.load_findings("C17") if e.get("status") == "known"}
    rng = random.Random(ctx.seed * 67867979 + 17)
    ncases = 300 if ctx.quick() else 6000
    ops, starts = [], []
    for _ in range(ncases):
        starts.append(len(ops)); ops += gen_case(rng)
    text = "\n".join(ops) + "\n"
    rc, impl, err = script.run_impl([exe], text)
    model, _ = script.run_model(text)
    ok = rc == 0 and len(impl) == len(model) == len(ops)
    if not ok:
        k = min(len(impl), len(ops) - 1)
        s0 = max(s for s in starts if s <= k)
        ctx.violate("pending-call harness aborted or lost sync (rc=%s)" % rc, {"ops": ops[s0:k + 1], "stderr": err[-2500:]}, True)
    known = 0
    kinds = {}
    for i in range(min(len(impl), len(model))):
        m = model[i]
        mm, sp = m.split(" ; ", 1) if " ; " in m else (m, m)
        a, b, sp = canon(impl[i]), canon(mm), canon(sp)
        if a == b and a == sp:
            continue
        s0 = max(s for s in starts if s <= i)
        case = ops[s0:i + 1]
        if a != b:
            ok = False
            # completion counts are the property; anything else that differs is correspondence
            fails = ops[i] == "pc final" and a != sp
            ctx.violate("pending calls: implementation '%s' vs model '%s'%s" % (a[:120], b[:120], " (and the exactly-once specification)" if fails else ""),
                        {"ops": case, "impl": a, "model": b, "spec": sp}, fails)
        else:
            # impl == model != spec on the final line: must be the recorded class (connection dropped)
            cls = "pcall.not-completed-on-disconnect"
            if cls in findings and "pc close-peer" in case and all(
                    (x == y) or (x.split(":")[1].startswith("completions=0") and y.split(":")[1].startswith("completions=1"))
                    for x, y in zip(a.split(), sp.split())):
                known += 1
                findings[cls].setdefault("_ex", case)
            else:
                ok = False
                ctx.violate("a call did not complete exactly once (impl '%s', specification '%s') outside the recorded finding" % (a, sp),
                            {"ops": case, "impl": a, "spec": sp}, True)
    ctx.oblige("correspondence K:pcall (scripted peer, timeouts fired through callbacks)", "correspondence", ok)
    for cls, e in findings.items():
        if "_ex" in e:
            ctx.known_lines.append("%s %s — %d histories in this run, e.g. %s" % (e["key"], e["what"], known, " | ".join(o[3:] for o in e["_ex"] if not o.endswith(("dispatch", "status")))[:300]))
    for o in ops:
        k = o.split()[1]
        kinds[k] = kinds.get(k, 0) + 1
    ctx.coverage.update({
        "evaluations": len(ops), "distinct_nontrivial": len(set(" ".join(ops[s:e]) for s, e in zip(starts, starts[1:] + [len(ops)]))),
        "rule": "histories of 1-6 outstanding calls (finite/infinite timeout, with/without notify) with replies in any order, duplicated, stray or absent, "
                "timeouts fired through the timeout callbacks, cancel, blocking waits (when they cannot hang), peer close at any moment, reads and single "
                "dispatch steps interleaved; each history is settled (every call replied, timed out or the connection closed) and the per-call completion and "
                "notification counts are compared with the model and with 'exactly once unless cancelled'; distinct = distinct histories",
        "samples": [ops[starts[0]:starts[1]][:40]], "distribution": {"ops": kinds, "histories": ncases, "known_class_hits": known},
        "traces_validated_against_impl": ncases})
    ctx.assumptions += ["one thread; lock-level interleavings of several threads are outside the model (it assumes the atomicity the connection lock provides)",
                        "the 32-bit serial wrap cannot be reached through the public API in a test; it is covered by theorems over the modelled counter",
                        "blocking waits that would really wait are not generated"]


def replay(path):
    data = json.load(open(path))
    ops = data["replay"].get("ops")
    if not ops:
        print("replay: no history recorded: %s" % data["what"]); return 1
    exe = build.cc("h_pcall", ["harness/lib/h_pcall.c"]); lean.build_driver()
    text = "\n".join(ops) + "\n"
    rc, impl, err = script.run_impl([exe], text)
    model, _ = script.run_model(text)
    bad = rc != 0
    for o, a, m in zip(ops, impl, model):
        mm = m.split(" ; ")[0]
        if canon(a) != canon(mm):
            print("op %s: impl=%s model=%s" % (o, a, m)); bad = True
    if bad:
        print("VIOLATION property=C17 replay=%s" % path)
    return 1 if bad else 0
