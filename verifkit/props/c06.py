"""C06 — security policy decisions equal the documented rule semantics."""
import random, json
from ..common import *
from .. import check, buscheck, busdiff, busgen, bus
from ..buscheck import fld, hexname, Tracker

MODULE = "Dbus.Props.C06"
THEOREMS = ["lastVerdict_eq_decide", "lastVerdict_append", "send_rule_matches_as_documented", "receive_rule_matches_as_documented",
            "own_rule_matches_as_documented", "send_decision_as_documented", "receive_decision_as_documented",
            "own_decision_as_documented", "optimize_changes_no_send_decision", "optimize_changes_no_receive_decision", "optimize_changes_no_own_decision", "client_policy_decides_as_full_list", "reloaded_policy_governs", "own_denied_after_reload", "f16_witness", "contexts_in_order", "later_context_wins", "unmatched_context_transparent",
            "nothing_allowed_by_default", "gate_denies_with_access_denied", "gate_checks_sender_and_recipient",
            "denied_request_changes_nothing", "denied_message_reaches_no_one"]
BUS = "org.freedesktop.DBus"
UIDS = (0, 1000, 2)
NAMES = [n.decode() for n in busgen.NAMES]
IFACES = [i.decode() for i in busgen.IFACES]
MEMBERS = [m.decode() for m in busgen.MEMBERS]
PATHS = [p.decode() for p in busgen.PATHS]
TYPES = ["method_call", "method_return", "signal", "error"]
W = {"call": 26, "signal": 16, "reply": 16, "request": 14, "release": 3, "close": 3, "connect": 6, "hello": 6, "addmatch": 6,
     "forged": 2, "query": 2, "driver_edge": 0, "badtype": 1, "nodest": 0, "garbage": 0, "removematch": 1}
# what the harness itself needs, appended last in the mandatory context (so it wins): its barriers
# are Peer.Ping / NameHasOwner / Hello calls to the bus, and every connection must be able to
# receive what the bus driver sends it
HARNESS = [("mandatory", True, {"send_destination": BUS, "send_interface": "org.freedesktop.DBus.Peer"}),
           ("mandatory", True, {"send_destination": BUS, "send_interface": BUS, "send_member": "NameHasOwner"}),
           ("mandatory", True, {"send_destination": BUS, "send_interface": BUS, "send_member": "Hello"}),
           ("mandatory", True, {"receive_sender": BUS})]


def gen_send_rule(r):
    a = {}
    if r.random() < 0.45: a["send_type"] = r.choice(TYPES + ["*"])
    if r.random() < 0.3:
        a["send_interface"] = r.choice(IFACES + [BUS, "*"])
        if r.random() < 0.5: a["send_member"] = r.choice(MEMBERS + ["RequestName", "*"])
    elif r.random() < 0.15:
        a["send_error"] = r.choice(["com.example.Err", "a.E", "*"])
    if r.random() < 0.2: a["send_path"] = r.choice(PATHS + ["*"])
    x = r.random()
    if x < 0.35: a["send_destination"] = r.choice(NAMES + [BUS, "*", ":1.1", ":1.2"])
    elif x < 0.5: a["send_destination_prefix"] = r.choice(["com.example", "com.example.A", "org", "com.exam"])
    if r.random() < 0.12 and "send_destination" not in a: a["send_broadcast"] = r.choice(["true", "false"])
    elif r.random() < 0.06: a["send_broadcast"] = "false"
    if r.random() < 0.2: a["send_requested_reply"] = r.choice(["true", "false"])
    if r.random() < 0.12: a["eavesdrop"] = r.choice(["true", "false"])
    if r.random() < 0.05: a[r.choice(["min_fds", "max_fds"])] = r.choice(["0", "1"])
    if not any(k.startswith("send_") for k in a):
        a["send_destination"] = "*"
    return a


def gen_recv_rule(r):
    a = {}
    if r.random() < 0.45: a["receive_type"] = r.choice(TYPES + ["*"])
    if r.random() < 0.3:
        a["receive_interface"] = r.choice(IFACES + [BUS, "*"])
        if r.random() < 0.5: a["receive_member"] = r.choice(MEMBERS + ["NameOwnerChanged", "*"])
    elif r.random() < 0.15:
        a["receive_error"] = r.choice(["com.example.Err", "a.E", "*"])
    if r.random() < 0.2: a["receive_path"] = r.choice(PATHS + ["*"])
    if r.random() < 0.4: a["receive_sender"] = r.choice(NAMES + [BUS, "*", ":1.1", ":1.2"])
    if r.random() < 0.2: a["receive_requested_reply"] = r.choice(["true", "false"])
    if r.random() < 0.2: a["eavesdrop"] = r.choice(["true", "false"])
    if not any(k.startswith("receive_") for k in a) and "eavesdrop" not in a:
        a["receive_sender"] = "*"
    return a


def gen_own_rule(r):
    if r.random() < 0.6:
        return {"own": r.choice(NAMES + ["*"])}
    return {"own_prefix": r.choice(["com.example", "com.example.A", "org", "com.exam"])}


def gen_policy_dest(r):
    """session policy plus a few rules keyed on the destination's names: decisions hinge on which
    names the receiving connection is queued for"""
    rules = [("default", True, {"user": "*"})] + busdiff.SESSION.rules
    for _ in range(r.randint(2, 5)):
        ctx = r.choice(["default", "default", "mandatory", "user:0"])
        if r.random() < 0.7:
            a = {"send_destination": r.choice(NAMES[:3])}
        else:
            a = {"send_destination_prefix": r.choice(["com.example", "com.example.A"])}
        if r.random() < 0.3: a["send_type"] = r.choice(["method_call", "signal"])
        rules.append((ctx, r.random() < 0.4, a))
    rules.sort(key=lambda x: 0 if x[0] == "default" else 1)
    return busdiff.Policy(rules + HARNESS)


W_DEST = {"call": 34, "signal": 8, "reply": 4, "request": 30, "release": 4, "close": 3, "connect": 5, "hello": 6, "addmatch": 2,
          "forged": 0, "query": 2, "driver_edge": 0, "badtype": 0, "nodest": 0, "garbage": 0, "removematch": 0}


def gen_policy(r):
    rules = [("default", True, {"user": "*"})]
    if r.random() < 0.75:
        rules += busdiff.SESSION.rules
    ctxs = ["default"] * 5 + ["mandatory"] * 2 + ["user:%d" % u for u in UIDS] + ["group:0", "group:2", "group:1000"]
    body = []
    for _ in range(r.randint(2, 12)):
        ctx = r.choice(ctxs)
        allow = r.random() < 0.45
        k = r.random()
        attrs = gen_send_rule(r) if k < 0.5 else (gen_recv_rule(r) if k < 0.85 else gen_own_rule(r))
        body.append((ctx, allow, attrs))
    # rules of one context form one <policy> element: keep them grouped, in a random context order
    order = []
    for ctx, _, _ in body:
        if ctx not in order:
            order.append(ctx)
    grouped = [x for ctx in order for x in body if x[0] == ctx]
    # default rules first in the file keeps the SESSION block and the extra default rules in one element
    grouped.sort(key=lambda x: 0 if x[0] == "default" else 1)
    return busdiff.Policy(rules + grouped + HARNESS)


def _job(args):
    seed, n_ops = args
    try:
        r = random.Random(seed)
        if seed % 3 == 0:
            pol = gen_policy_dest(r)
            ops, stats = busgen.history(r, n_ops, weights=W_DEST, max_conns=5, uids=(0,), names=busgen.NAMES[:3])
        else:
            pol = gen_policy(r)
            ops, stats = busgen.history(r, n_ops, weights=W, max_conns=5, uids=UIDS)
        if seed % 3 == 0 and r.random() < 0.7:
            # an eavesdropper that owns nothing: every unicast is also judged for it as a proposed recipient, and rules keyed
            # on the destination's names must then look at *its* names, not at the DESTINATION field
            from ..bus import method_call as _mc, BUS_PATH as _bp
            ops[2:2] = [("connect", 90, 0, False), ("send", 90, _mc(1, BUS, _bp, BUS, "Hello").marshal()),
                        ("send", 90, _mc(2, BUS, _bp, BUS, "AddMatch", "s", [r.choice([b"eavesdrop='true'", b"eavesdrop='true',type='method_call'"])]).marshal())]
            stats["eavesdropper"] = 1
        if r.random() < 0.6:
            # the configuration is replaced while everybody stays connected: from then on the new rules decide, also about names
            # a connection already owns and calls that are already outstanding
            k = r.randint(len(ops) // 3, max(len(ops) // 3, 2 * len(ops) // 3))
            newpol = gen_policy_dest(r) if seed % 3 == 0 else gen_policy(r)
            ops.insert(k, ("reload", newpol.rules)); stats["reload"] = 1
        steps, died, unique = busdiff.run_impl(ops, pol, None, "")
        diff = busdiff.compare(ops, pol, None, "", impl=(steps, died, unique))
        isteps = busdiff.dump_steps(steps)
        denied = sum(1 for per, _ in isteps for ls in per.values() for l in ls if "4163636573734465" in (fld(l, "err") or ""))
        return {"seed": seed, "ops": [busdiff.show_op(o) for o in ops], "policy": pol.rules, "diff": diff, "died": died,
                "stats": stats, "denied": denied, "deliveries": sum(len(v) for per, _ in isteps for v in per.values()),
                "nrules": len(pol.rules)}
    except InfraError as e:
        return {"seed": seed, "infra": str(e)}
    except Exception as e:
        import traceback
        return {"seed": seed, "infra": "harness exception: " + traceback.format_exc()[-1500:]}


def _absent_job(args):
    try:
        rules, ops = args
        pol = busdiff.Policy([tuple(r) for r in rules])
        steps, died, unique = busdiff.run_impl(ops, pol, None, "")
        return {"diff": busdiff.compare(ops, pol, None, "", impl=(steps, died, unique)), "died": died, "rules": rules,
                "ops": [busdiff.show_op(o) for o in ops]}
    except InfraError as e:
        return {"infra": str(e)}


def absent_field_scenarios(ctx):
    """one small history per (direction, attribute, verdict order): a rule naming a header field, as the last match over a rule of
    the opposite verdict, against messages that carry that field with the named value, with another value, and not at all
    (a call without INTERFACE, a method return / error without PATH, MEMBER, INTERFACE or - for the return - ERROR_NAME)"""
    from ..bus import method_call, reply_msg, signal_msg, BUS_PATH
    from concurrent.futures import ProcessPoolExecutor
    hello = lambda: method_call(1, BUS, BUS_PATH, BUS, "Hello").marshal()
    base = [("connect", 0, 0, False), ("send", 0, hello()), ("connect", 1, 0, False), ("send", 1, hello()), ("connect", 2, 0, False), ("send", 2, hello())]
    jobs = []
    for d in ("send", "receive"):
        for attr, val in (("interface", "a.b"), ("member", "M"), ("path", "/open"), ("error", "a.E")):
            for first_allow in (False, True):
                for typ in ("method_call", "method_return", "error", "signal", None):
                    first = {("%s_type" % d): typ} if typ else ({"send_destination": "*"} if d == "send" else {"receive_sender": "*"})
                    named = dict(first); named["%s_%s" % (d, attr)] = val
                    if attr == "member":
                        named["%s_path" % d] = "/open"        # (the configuration parser wants an interface or a path next to a member)
                    rules = [("default", True, {"user": "*"})] + busdiff.SESSION.rules + \
                            [("default", first_allow, first), ("default", not first_allow, named)] + HARNESS
                    ops = list(base)
                    ops += [("send", 1, method_call(5, ":1.2", "/open", "a.b", "M").marshal()),        # everything named
                            ("send", 1, method_call(6, ":1.2", "/open", None, "M").marshal()),         # no interface
                            ("send", 1, method_call(7, ":1.2", "/other", "x.y", "N").marshal()),       # other values
                            ("send", 2, reply_msg(3, 5, ":1.1").marshal()),                            # a return: no path, interface, member, error name
                            ("send", 2, reply_msg(4, 6, ":1.1", error="a.E").marshal()),               # an error with the named name
                            ("send", 2, reply_msg(5, 7, ":1.1", error="x.Other").marshal()),
                            ("send", 1, signal_msg(8, "/open", "a.b", "M", dest=":1.2").marshal()),
                            ("send", 1, signal_msg(9, "/other", "x.y", "N", dest=":1.2").marshal())]
                    jobs.append((rules, ops))
    with ProcessPoolExecutor(14) as ex:
        res = list(ex.map(_absent_job, jobs, chunksize=2))
    infra = [r for r in res if "infra" in r]
    if len(infra) > 4:
        raise InfraError("absent-field scenarios failed: " + infra[0]["infra"][:500])
    bad = [r for r in res if "infra" not in r and (r["diff"] is not None or r["died"])]
    for r in bad[:3]:
        named = [x for x in r["rules"] if any(k.endswith(("_interface", "_member", "_path", "_error")) for k in x[2])]
        ctx.violate("the daemon's decision differs from the documented evaluation for a rule naming a header field (%s): step %s" %
                    (named[-1] if named else "?", (r["diff"] or {}).get("step")),
                    {"kind": "bus-history", "label": "absent-fields", "seed": 0, "policy": r["rules"], "limits": None, "extra": "", "ops": r["ops"],
                     "diff": r["diff"]}, failing_input=True)
    ctx.oblige("correspondence (absent header fields): %d configurations (send/receive x interface/member/path/error x allow-after-deny/deny-after-allow x "
               "message types) against messages with, without and with other values of the named field" % (len(res) - len(infra)), "correspondence", not bad)
    ctx.coverage["evaluations"] = ctx.coverage.get("evaluations", 0) + sum(len(j[1]) for j in jobs)
    ctx.coverage.setdefault("histories", {})["absent-fields"] = {"configurations": len(res) - len(infra), "ops_per_history": len(jobs[0][1])}


def reload_scenarios(ctx):
    """own rules after a reload: a connection that owns a name (or waits for it) under the old configuration asks again under a
    new one that denies it - the request must be refused and change nothing; and the other way round"""
    from ..bus import method_call, BUS_PATH
    from concurrent.futures import ProcessPoolExecutor
    hello = lambda: method_call(1, BUS, BUS_PATH, BUS, "Hello").marshal()
    def req(s, name, fl):
        return method_call(s, BUS, BUS_PATH, BUS, "RequestName", "su", [name.encode(), fl]).marshal()
    def q(s, name):
        return method_call(s, BUS, BUS_PATH, BUS, "ListQueuedOwners", "s", [name.encode()]).marshal()
    base = [("connect", 0, 0, False), ("send", 0, hello()), ("connect", 1, 0, False), ("send", 1, hello()), ("connect", 2, 0, False), ("send", 2, hello())]
    allow = [("default", True, {"user": "*"})] + busdiff.SESSION.rules + HARNESS + [("mandatory", True, {"send_destination": BUS, "send_interface": BUS})]
    jobs = []
    for deny_attr in ({"own": "com.example.A"}, {"own_prefix": "com.example"}, {"own": "*"}):
        deny = allow[:-len(HARNESS) - 1] + [("default", False, deny_attr)] + HARNESS + [("mandatory", True, {"send_destination": BUS, "send_interface": BUS})]
        for f1, f2, f3 in ((1, 0, 2), (0, 0, 3), (1, 0, 0), (3, 4, 7), (1, 1, 6)):
            ops = list(base)
            ops += [("send", 1, req(5, "com.example.A", f1)), ("send", 2, req(5, "com.example.A", f2)), ("send", 0, q(5, "com.example.A")),
                    ("reload", deny),
                    ("send", 2, req(6, "com.example.A", f3)), ("send", 1, req(6, "com.example.A", f3)), ("send", 0, q(6, "com.example.A")),
                    ("send", 0, req(7, "com.example.A", 0)),
                    ("reload", allow),
                    ("send", 2, req(7, "com.example.A", f3)), ("send", 0, q(7, "com.example.A"))]
            jobs.append((allow, ops))
    with ProcessPoolExecutor(14) as ex:
        res = list(ex.map(_absent_job, jobs, chunksize=1))
    infra = [r for r in res if "infra" in r]
    if len(infra) > 3:
        raise InfraError("reload scenarios failed: " + infra[0]["infra"][:500])
    bad = [r for r in res if "infra" not in r and (r["diff"] is not None or r["died"])]
    for r in bad[:3]:
        d = r["diff"] or {}
        a, b = d.get("impl", []), d.get("model", [])
        decision = d.get("kind") == "delivery" and (len(a) != len(b) or any(("4163636573734465" in x) != ("4163636573734465" in y) for x, y in zip(a, b)))
        ctx.violate("after the configuration was reloaded the daemon's answer to a RequestName differs from the documented evaluation of the new rules "
                    "(a denied request changes no ownership, whoever asks): step %s %s" % (d.get("step"), (d.get("op") or "")[:60]),
                    {"kind": "bus-history", "label": "reload-scenarios", "seed": 0, "policy": r["rules"], "limits": None, "extra": "", "ops": r["ops"],
                     "diff": r["diff"]}, failing_input=bool(decision) or bool(r["died"]))
    ctx.oblige("correspondence (reload scenarios): %d histories in which own rules change under a connection that owns or waits for the name" % (len(res) - len(infra)),
               "correspondence", not bad)
    ctx.coverage.setdefault("histories", {})["reload-scenarios"] = {"histories": len(res) - len(infra)}


def driver_reply_scenarios(ctx):
    """what the bus itself sends is subject to the recipient's receive rules like anything else: a configuration whose last matching
    receive rule for the driver's error replies is a deny (requested replies included) - no error from the bus reaches the caller"""
    from ..bus import method_call, BUS_PATH
    from concurrent.futures import ProcessPoolExecutor
    hello = lambda: method_call(1, BUS, BUS_PATH, BUS, "Hello").marshal()
    base = [("connect", 0, 0, False), ("send", 0, hello()), ("connect", 1, 0, False), ("send", 1, hello()), ("connect", 2, 1000, False), ("send", 2, hello())]
    ops = base + [("send", 1, method_call(5, BUS, BUS_PATH, BUS, "GetNameOwner", "s", [b"com.example.Nobody"]).marshal()),
                  ("send", 1, method_call(6, BUS, BUS_PATH, BUS, "NoSuchMethod").marshal()),
                  ("send", 1, method_call(7, BUS, BUS_PATH, BUS, "RequestName", "su", [b"not a name", 0]).marshal()),
                  ("send", 1, method_call(8, ":1.99", "/a", "a.b", "M").marshal()),
                  ("send", 2, method_call(5, BUS, BUS_PATH, BUS, "GetNameOwner", "s", [b"com.example.Nobody"]).marshal()),
                  ("send", 1, method_call(9, BUS, BUS_PATH, BUS, "GetId").marshal()),
                  ("send", 2, method_call(6, ":1.1", "/a", "a.b", "M").marshal())]
    jobs = []
    for ctxname, deny in (("default", {"receive_sender": BUS, "receive_type": "error", "receive_requested_reply": "true"}),
                          ("default", {"receive_type": "error", "receive_requested_reply": "true"}),
                          ("user:0", {"receive_sender": BUS, "receive_type": "error", "receive_requested_reply": "true"}),
                          ("mandatory", {"receive_sender": BUS, "receive_requested_reply": "true", "receive_type": "error"}),
                          ("default", {"receive_sender": BUS, "receive_type": "error"})):
        rules = [("default", True, {"user": "*"})] + busdiff.SESSION.rules + [(ctxname, False, deny)]
        jobs.append((rules, ops))
    with ProcessPoolExecutor(8) as ex:
        res = list(ex.map(_absent_job, jobs, chunksize=1))
    infra = [r for r in res if "infra" in r]
    if len(infra) > 1:
        raise InfraError("driver-reply scenarios failed: " + infra[0]["infra"][:500])
    bad = [r for r in res if "infra" not in r and (r["diff"] is not None or r["died"])]
    for r in bad[:3]:
        d = r["diff"] or {}
        ctx.violate("receive rules and what the bus itself sends: the daemon delivers (or withholds) a driver-made reply against the documented evaluation of "
                    "the recipient's receive rules: step %s %s: daemon %s, rules say %s" % (d.get("step"), (d.get("op") or "")[:60], [x[:80] for x in d.get("impl", [])][:2],
                                                                                         [x[:80] for x in d.get("model", [])][:2]),
                    {"kind": "bus-history", "label": "driver-reply-scenarios", "seed": 0, "policy": r["rules"], "limits": None, "extra": "", "ops": r["ops"],
                     "diff": r["diff"]}, failing_input=d.get("kind") == "delivery" or bool(r["died"]))
    ctx.oblige("correspondence (driver-reply scenarios): %d configurations that deny receiving the bus's own error replies" % (len(res) - len(infra)),
               "correspondence", not bad)
    ctx.coverage.setdefault("histories", {})["driver-reply-scenarios"] = {"histories": len(res) - len(infra)}


def f16_scenario(ctx):
    """the recorded departure F16 on the real daemon: <deny send_path=...> also hits messages that have no path"""
    pol = busdiff.Policy([("default", True, {"user": "*"})] + busdiff.SESSION.rules +
                         [("default", False, {"send_path": "/secret", "send_requested_reply": "true"})] + HARNESS)
    from ..bus import method_call, reply_msg, BUS_PATH
    hello = lambda: method_call(1, BUS, BUS_PATH, BUS, "Hello").marshal()
    ops = [("connect", 0, 0, False), ("send", 0, hello()), ("connect", 1, 0, False), ("send", 1, hello()),
           ("connect", 2, 0, False), ("send", 2, hello()),
           ("send", 1, method_call(5, ":1.2", "/open", "a.b", "M").marshal()),
           ("send", 2, reply_msg(3, 5, ":1.1").marshal())]
    steps, died, unique = busdiff.run_impl(ops, pol, None, "")
    diff = busdiff.compare(ops, pol, None, "", impl=(steps, died, unique))
    isteps = busdiff.dump_steps(steps)
    got_reply = any(fld(l, "t") == "2" and fld(l, "rs") == "5" and hexname(fld(l, "sender")) == ":1.2" for l in isteps[-1][0].get(1, []))
    refused = any(fld(l, "t") == "3" and "4163636573734465" in (fld(l, "err") or "") for l in isteps[-1][0].get(2, []))
    return diff, got_reply, refused


def run(ctx):
    check.lean_obligations(ctx, MODULE, THEOREMS)
    findings = {e["class"]: e for e in check.load_findings("C06") if e.get("status") == "known"}
    n = 80 if ctx.quick() else 2500
    L = 70 if ctx.quick() else 110
    from concurrent.futures import ProcessPoolExecutor
    jobs = [(ctx.seed * 1000003 + 31 * 7919 + i, L) for i in range(n)]
    with ProcessPoolExecutor(14) as ex:
        results = list(ex.map(_job, jobs, chunksize=1))
    infra = [r for r in results if "infra" in r]
    if len(infra) > max(2, n // 10):
        raise InfraError("policy harness failed on %d/%d histories, e.g. %s" % (len(infra), n, infra[0]["infra"][:800]))
    good = [r for r in results if "infra" not in r]
    agree = 0
    for r in good:
        replay = {"kind": "bus-history", "label": "generated-policy", "seed": r["seed"], "policy": r["policy"], "limits": None,
                  "extra": "", "ops": r["ops"]}
        if r["died"]:
            ctx.violate("dbus-daemon died during a generated history: " + r["died"][-400:], dict(replay, stderr=r["died"]), True)
        elif r["diff"] is not None:
            d = r["diff"]
            a, b = d.get("impl", []), d.get("model", [])
            decision = d.get("kind") == "delivery" and (len(a) != len(b) or any(("4163636573734465" in x) != ("4163636573734465" in y) for x, y in zip(a, b)))
            ctx.violate("the daemon's policy decision differs from the documented evaluation (model proved equal to it) at step %s: %s"
                        % (d.get("step"), d.get("op", "")[:80]), dict(replay, diff=d), failing_input=bool(decision))
        else:
            agree += 1
    ctx.oblige("correspondence (generated-policy): %d random configurations (default/mandatory/user/group contexts, 3 uids) x ~%d ops, "
               "model = dbus-daemon on every delivery, refusal and close" % (len(good), L), "correspondence", agree == len(good),
               "" if agree == len(good) else "%d histories differ" % (len(good) - agree))
    ctx.coverage["histories"] = {"generated-policy": {
        "histories": len(good), "ops_per_history": L, "rules_per_config_avg": round(sum(r["nrules"] for r in good) / max(1, len(good)), 1),
        "access_denied_errors_observed": sum(r["denied"] for r in good), "deliveries_observed": sum(r["deliveries"] for r in good),
        "harness_failures": len(infra)}}
    ctx.coverage["evaluations"] = len(good) * L
    absent_field_scenarios(ctx)
    reload_scenarios(ctx)
    driver_reply_scenarios(ctx)
    ctx.coverage["histories"]["generated-policy"]["histories_with_a_reload"] = sum(1 for r in good if r["stats"].get("reload"))
    ctx.coverage["histories"]["generated-policy"]["histories_with_an_eavesdropper_owning_nothing"] = sum(1 for r in good if r["stats"].get("eavesdropper"))
    diff, got_reply, refused = f16_scenario(ctx)
    ctx.oblige("F16 scenario: model = daemon on <deny send_path> against a reply without path", "correspondence", diff is None,
               json.dumps(diff)[:300] if diff else "")
    if refused and not got_reply:
        e = findings.get("c06.absent-field-matches")
        if e:
            ctx.known_lines.append("%s %s — reproduced on the daemon in this run" % (e["key"], e["what"]))
        else:
            ctx.violate("a send_path rule matched a message that has no path (documented semantics: by-value match)",
                        {"kind": "scenario", "name": "f16"}, True)


def replay(path):
    return buscheck.replay_history(path, None, "C06")
