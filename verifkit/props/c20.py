"""C20 — object-path handlers are chosen by exact path, then nearest fallback."""
import json, random
from ..common import *
from .. import common, build, lean, check, script

MODULE = "Dbus.Props.C20"
THEOREMS = ["step_refines", "tree_refines_set", "dispatch_order_eq_spec", "invoke_stops_at_first_taker",
            "error_choice_structural", "below_fallback_found", "registered_found", "no_dead_branch", "children_eq_spec"]
NAMES = ["a", "aa", "a_", "ab", "b", "B", "_", "a0", "z", "2", "10", "9", "a10", "a9", "02", "1_", "10a"]      # (digit runs: an order that is not byte order is a classic slip)


def rpath(rng, known):
    r = rng.random()
    if known and r < 0.55:
        base = list(rng.choice(known))
        r2 = rng.random()
        if r2 < 0.35:
            return base
        if r2 < 0.6 and base:
            return base[:rng.randrange(len(base))]
        if r2 < 0.85:
            return base + [rng.choice(NAMES) for _ in range(rng.randint(1, 2))]
        if base:
            base[-1] = rng.choice(NAMES)
        return base
    return [rng.choice(NAMES) for _ in range(rng.randint(0, 4))]


def ptxt(p):
    return "/" + "/".join(p)


def gen_case(rng, nid):
    ops = ["tree reset"]
    regs = {}
    for _ in range(rng.randint(6, 40)):
        r = rng.random()
        known = [list(k) for k in regs]
        if r < 0.38:
            p = rpath(rng, known)
            nid[0] += 1
            fb = 1 if rng.random() < 0.5 else 0
            ops.append("tree reg %s %d %d" % (ptxt(p), fb, nid[0]))
            regs.setdefault(tuple(p), (fb, nid[0]))
        elif r < 0.55:
            p = list(rng.choice(known)) if known and rng.random() < 0.85 else rpath(rng, known)
            ops.append("tree unreg %s" % ptxt(p))
            regs.pop(tuple(p), None)
        elif r < 0.85:
            p = rpath(rng, known)
            ids = [v[1] for v in regs.values()]
            takers = [i for i in ids if rng.random() < 0.25]
            ops.append("tree call %s %s" % (ptxt(p), ",".join(map(str, takers)) or "-"))
        elif r < 0.95:
            ops.append("tree list %s" % ptxt(rpath(rng, known)))
        else:
            ops.append("tree data %s" % ptxt(rpath(rng, known)))
    return ops


def run(ctx):
    check.lean_obligations(ctx, MODULE, THEOREMS)
    exe = build.cc("h_tree", ["harness/lib/h_tree.c"])
    findings = {e["class"]: e for e in check.load_findings("C20") if e.get("status") == "known"}
    rng = random.Random(ctx.seed * 7919 + 20)
    ncases = 400 if ctx.quick() else 8000
    nid = [0]
    ops, starts = [], []
    corpus = os.path.join(ROOT, "corpus", "C20")
    if os.path.isdir(corpus):
        for f in sorted(os.listdir(corpus)):
            starts.append(len(ops)); ops += json.load(open(os.path.join(corpus, f)))["ops"]
    for _ in range(ncases):
        starts.append(len(ops))
        ops += gen_case(rng, nid)
    res = script.diff([exe], ops, timeout=90 if ctx.quick() else 900)
    ok = res["rc"] == 0 and res["n_impl"] == res["n_model"] == len(ops)
    if not ok:
        ctx.violate("object-tree harness aborted or lost sync (rc=%s, %d/%d/%d lines)" % (res["rc"], res["n_impl"], res["n_model"], len(ops)),
                    {"stderr": res["stderr"], "ops_tail": ops[max(0, res["n_impl"] - 30):res["n_impl"] + 1]}, True)
    known = 0
    kinds = {}
    for (i, op, impl, model, spec) in res["rows"]:
        s0 = max(s for s in starts if s <= i)
        case = ops[s0:i + 1]
        if impl != model:
            ok = False
            if impl != spec:
                ctx.violate("object tree: implementation answers '%s' where the registration-set specification gives '%s' (op %s)" % (impl, spec, op),
                            {"ops": case, "impl": impl, "model": model, "spec": spec}, True)
            else:
                ctx.violate("object tree: model/implementation correspondence broken at op %s (impl '%s', model '%s')" % (op, impl, model),
                            {"ops": case, "impl": impl, "model": model, "spec": spec, "broken": "K:tree"}, False)
        else:
            # impl == model != spec : must be the recorded class
            cls = "tree.unknownmethod-for-uncovered-path"
            if cls in findings and impl.endswith("out=UnknownMethod") and spec.endswith("out=UnknownObject") and impl.split(" out=")[0] == spec.split(" out=")[0]:
                known += 1
                findings[cls].setdefault("_ex", case)
            else:
                ok = False
                ctx.violate("object tree deviates from the specification ('%s' vs '%s') outside the recorded finding" % (impl, spec),
                            {"ops": case, "impl": impl, "spec": spec}, True)
    ctx.oblige("correspondence K:tree (scripted histories over a real connection pair)", "correspondence", ok)
    for cls, e in findings.items():
        if "_ex" in e:
            ctx.known_lines.append("%s %s — %d instances in this run, e.g. history %s" % (e["key"], e["what"], known, " | ".join(e["_ex"][-4:])))
    for op in ops:
        k = op.split()[1]
        kinds[k] = kinds.get(k, 0) + 1
    calls = [o for o in ops if o.startswith("tree call")]
    ctx.coverage.update({
        "evaluations": len(ops), "distinct_nontrivial": len(set(" ".join(ops[s:e]) for s, e in zip(starts, starts[1:] + [len(ops)]))),
        "rule": "random histories of reg / reg-fallback / unreg / call / list / data over paths built from adjacent-sorting element names "
                "(a aa a_ ab b B _ a0 z), shared prefixes, the root, handlers that accept or decline; distinct = distinct histories; every "
                "history has >= 6 operations after a reset",
        "samples": [ops[starts[-1]:starts[-1] + 12]], "distribution": {"ops": kinds, "cases": len(starts), "calls": len(calls), "known_class_hits": known},
        "traces_validated_against_impl": len(starts)})
    ctx.assumptions += ["the peer connection is in the same process and both ends are pumped by one thread",
                        "Introspect/Peer built-ins are not exercised (the property sets them aside)"]


def replay(path):
    data = json.load(open(path))
    ops = data["replay"].get("ops")
    if not ops:
        print("replay: no operation sequence recorded: %s" % data["what"]); return 1
    exe = build.cc("h_tree", ["harness/lib/h_tree.c"]); lean.build_driver()
    if ops[0] != "tree reset":
        ops = ["tree reset"] + ops
    res = script.diff([exe], ops, timeout=90 if ctx.quick() else 900)
    for r in res["rows"]:
        print("op %d %s: impl=%s model=%s spec=%s" % r)
    bad = [r for r in res["rows"] if r[2] != r[3]] or res["rc"] != 0
    if bad:
        print("VIOLATION property=C20 replay=%s" % path)
    return 1 if bad else 0
