"""C19 — auto-started services get held messages once, in order, or callers get errors."""
from ..common import *
from .. import check, busdiff, actdiff, actcheck, actgen, helpercheck
from ..bus import method_call, BUS, BUS_PATH

MODULE = "Dbus.Props.C19"
THEOREMS = ["program_started_at_most_once_per_activation", "one_pending_activation_per_name", "activateService_fresh",
            "held_messages_once_in_arrival_order", "nothing_pending_nothing_sent", "allowed_held_message_is_delivered",
            "start_callers_answered_once", "failure_each_waiter_one_error", "connected_waiter_gets_the_error",
            "timeout_fails_every_waiter", "clean_exit_is_ignored", "stale_program_exit_is_silent",
            "helper_executes_iff", "helper_refuses_invalid_name", "helper_refuses_other_name",
            "joining_keeps_the_start_deadline", "start_deadline_is_fixed", "one_timeout_per_due_activation"]

RESTRICTIVE = busdiff.Policy(busdiff.SESSION.rules + [
    ("default", False, {"receive_interface": "a.b.c"}),                       # refused only once the recipient is known
    ("default", False, {"send_destination": "com.example.B", "send_interface": "a.b", "send_member": "N"}),   # refused when the message is held
    ("default", False, {"own": "org.x"}),
])


def H(s=1):
    return method_call(s, BUS, BUS_PATH, BUS, "Hello").marshal()


def scripts():
    """fixed scenarios run before the generated ones"""
    def call(s, dest, member="M", flags=0):
        return method_call(s, dest, "/x", "a.b", member, "s", [b"p"], flags=flags).marshal()
    def start(s, name):
        return method_call(s, BUS, BUS_PATH, BUS, "StartServiceByName", "su", [name.encode(), 0]).marshal()
    def req(s, name, fl=0):
        return method_call(s, BUS, BUS_PATH, BUS, "RequestName", "su", [name.encode(), fl]).marshal()
    base = [("connect", 0, 0, False), ("send", 0, H())] + [x for c in (1, 2, 3) for x in (("connect", c, 0, False), ("send", c, H()))]
    out = []
    # two names served by one command line: the failure of one program fails both activations
    out.append(base + [("send", 1, call(5, "com.example.S1")), ("send", 2, call(5, "com.example.S2")), ("send", 2, start(6, "com.example.S1")),
                       ("svcexit", "S", 3), ("send", 1, call(6, "com.example.S2")), ("actsleep",)])
    # waiters leave before the service arrives; the service arrives late; a second activation after the first ended
    out.append(base + [("send", 1, call(5, "com.example.A", "M1")), ("send", 2, call(5, "com.example.A", "M2")), ("send", 1, call(6, "com.example.A", "M3")),
                       ("close", 2), ("send", 3, req(5, "com.example.A")), ("send", 3, method_call(6, BUS, BUS_PATH, BUS, "ReleaseName", "s", [b"com.example.A"]).marshal()),
                       ("send", 1, call(7, "com.example.A", "M4")), ("svcexit", "A", 0), ("actsleep",), ("send", 1, call(8, "com.example.A", "M5")),
                       ("svcexit", "A", "segv")])
    # the program takes a different name, then exits with an error
    out.append(base + [("send", 1, call(5, "com.example.A")), ("send", 3, req(5, "com.example.B")), ("send", 2, start(5, "com.example.A")),
                       ("svcexit", "A", 1), ("send", 1, call(6, "com.example.B"))])
    return out


def deadline_scripts():
    """the start timeout is a property of the activation, fixed when the program is started: later waiters join it and do
    not move it (T = 1000 s; the clock only moves by 450 s or 700 s, so no deadline is ever closer than 100 s)"""
    def call(s, dest, member="M", flags=0):
        return method_call(s, dest, "/x", "a.b", member, "s", [b"p"], flags=flags).marshal()
    def start(s, name):
        return method_call(s, BUS, BUS_PATH, BUS, "StartServiceByName", "su", [name.encode(), 0]).marshal()
    base = [("connect", 0, 0, False), ("send", 0, H())] + [x for c in (1, 2, 3) for x in (("connect", c, 0, False), ("send", c, H()))]
    out = []
    out.append(base + [("send", 1, call(5, "com.example.A")), ("advance", 700000), ("send", 2, call(5, "com.example.A")), ("send", 3, start(5, "com.example.A")),
                       ("advance", 450000), ("send", 1, call(6, "com.example.A")), ("advance", 450000), ("advance", 700000)])
    out.append(base + [("send", 1, call(5, "com.example.A")), ("advance", 450000), ("send", 2, call(5, "com.example.B")), ("advance", 450000),
                       ("send", 3, call(5, "com.example.A")), ("send", 3, call(6, "com.example.B")), ("advance", 450000), ("advance", 450000), ("advance", 450000)])
    return out


SCRIPT_FILES = actgen.DEFAULT_FILES + [("s1.service", "com.example.S1", "shared", "S"), ("s2.service", "com.example.S2", "shared", "S")]


def run(ctx):
    if THEOREMS:
        check.lean_obligations(ctx, MODULE, THEOREMS)
    helpercheck.run_check(ctx)
    n = 70 if ctx.quick() else 1500
    svc = actdiff.Svc(actgen.DEFAULT_FILES)
    actcheck.run_histories(ctx, 0, 0, actdiff.Svc(SCRIPT_FILES), scripts=scripts(), label="scenarios")
    actcheck.run_histories(ctx, n, 70 if ctx.quick() else 120, svc, gen_kw={"max_conns": 5}, label="activation")
    actcheck.run_histories(ctx, n // 2, 70, svc, gen_kw={"max_conns": 5}, policy=RESTRICTIVE, seed_salt=3, label="activation-with-denials")
    actcheck.run_histories(ctx, n // 3, 60, actdiff.Svc(actgen.DEFAULT_FILES, pending=2), gen_kw={"max_conns": 4}, seed_salt=5,
                           label="pending-limit-2")
    # deadlines: the clock moves in steps of 450 s and 700 s against a start timeout of 1000 s
    # a bus with a <servicehelper>: service files without User= are refused at once (Spawn.FileInvalid) - and that is all that ever
    # happens for such a request: nothing stays pending, so no second error when the start timeout passes, nobody stalled
    actcheck.run_histories(ctx, n // 3, 60, actdiff.Svc(actgen.DEFAULT_FILES, helper=True),
                           gen_kw={"max_conns": 4, "weights": {"call": 30, "startsvc": 14, "actsleep": 8, "request": 10}}, seed_salt=9,
                           label="servicehelper-without-user")
    slow = actdiff.Svc(SCRIPT_FILES, start_timeout=1000000)          # (with the two names that share one command line)
    actcheck.run_histories(ctx, 0, 0, slow, scripts=deadline_scripts(), label="deadline-scenarios")
    actcheck.run_histories(ctx, n // 2, 60, slow, gen_kw={"max_conns": 4, "weights": {"advance": 9, "actsleep": 0, "svcexit": 3, "call": 30, "startsvc": 12}},
                           seed_salt=7, label="deadlines")


def replay(path):
    return actcheck.replay_history(path)
