"""C11 — message framing is independent of how the byte stream is chunked."""
import json, random, os
from concurrent.futures import ThreadPoolExecutor
from ..common import *
from .. import common, build, lean, check, script, wiregen

MODULE = "Dbus.Props.C11"
THEOREMS = ["chunking_irrelevant", "framing_final", "nothing_after_corruption", "messages_monotone"]
MAXLEN = 1 << 27


def partitions(stream, rng, thorough):
    n = len(stream)
    parts = [[stream]]                                           # unsplit
    parts.append([stream[i:i + 1] for i in range(n)])             # one byte at a time
    cuts = range(1, n) if (thorough or n <= 160) else sorted(rng.sample(range(1, n), 160))
    for c in cuts:                                                # every single cut point
        parts.append([stream[:c], stream[c:]])
    for _ in range(12 if thorough else 5):                        # random partitions
        k = rng.randint(2, min(12, max(2, n)))
        pts = sorted(rng.sample(range(1, n), min(k, n - 1))) if n > 2 else []
        parts.append([stream[a:b] for a, b in zip([0] + pts, pts + [n])])
    for sz in (2, 3, 7, 8, 15, 16, 17):
        parts.append([stream[i:i + sz] for i in range(0, n, sz)])
    return parts


def gen_stream(rng):
    msgs = []
    for _ in range(rng.randint(1, 6)):
        m = wiregen.gen_message(rng, max_body_types=2)
        b = m.marshal()
        if len(b) > 400:
            continue
        msgs.append(b)
    if not msgs:
        msgs = [wiregen.gen_message(rng, max_body_types=0).marshal()]
    stream = b"".join(msgs)
    kind = "valid"
    r = rng.random()
    if r < 0.45:
        bad = bytearray(rng.choice(msgs))
        how = rng.choice(["byte", "ver", "endian", "serial0", "len"])
        if how == "byte":
            i = rng.randrange(len(bad)); bad[i] ^= rng.choice([1, 0x80, 0xff])
        elif how == "ver": bad[3] = 2
        elif how == "endian": bad[0] = 0x6d
        elif how == "serial0": bad[8:12] = b"\0\0\0\0"
        else: bad[12:16] = b"\xff\xff\xff\x7f"
        tail = bytes(rng.getrandbits(8) for _ in range(rng.choice([0, 5, 40]))) + rng.choice(msgs + [b""])
        stream += bytes(bad) + tail
        kind = "invalid-" + how
    elif r < 0.6:
        stream += rng.choice(msgs)[:rng.randint(1, 30)]            # incomplete tail
        kind = "partial-tail"
    return stream, kind, len(msgs)


def _socket_job(args):
    """one daemon, one receiver, many sender connections; each sender writes `BEGIN\\r\\n` + Hello + signals addressed to the
    receiver in a chosen partition (descriptors travel with the first byte of the message that announces them)"""
    import time, socket as _socket
    from .. import bus
    from ..bus import method_call, signal_msg, BUS, BUS_PATH
    seed, ncases, thorough = args
    rng = random.Random(seed)
    out = []
    d = bus.Daemon()
    try:
        R = bus.Client(d, fd_passing=True); bus.hello(R)
        for case in range(ncases):
            nsig = rng.choice([3, 5, 8, 20, 40])
            use_fd = rng.random() < 0.5 and case >= 6          # (the first six cases of every job cut inside `BEGIN\r\n`, see below)
            msgs, tokens, fdmsg, fdset = [method_call(1, BUS, BUS_PATH, BUS, "Hello").marshal()], [], None, []
            many = use_fd and rng.random() < 0.5          # several descriptor-carrying messages, often one right after the other
            for k in range(nsig):
                tok = ("t%d-%d-%d" % (seed % 1000, case, k)).encode()
                pay = bytes(rng.getrandbits(8) for _ in range(rng.choice([0, 3, 40, 200, 300])))
                if use_fd and (fdmsg is None or many) and rng.random() < (0.4 if not fdset or fdset[-1] != len(msgs) - 1 else 0.75):
                    m = signal_msg(k + 2, "/c11", "c.e", "S", "sayh", [tok, list(pay), 0], dest=R.unique, le=rng.random() < 0.8,
                                   extra_fields=[(9, ('b', 'u'), 1)])
                    if fdmsg is None:
                        fdmsg = len(msgs)
                    fdset.append(len(msgs))
                else:
                    m = signal_msg(k + 2, "/c11", "c.e", "S", "say", [tok, list(pay)], dest=R.unique, le=rng.random() < 0.8)
                msgs.append(m.marshal()); tokens.append(tok)
            # with descriptors in play the handshake is completed first: the daemon reads the authentication phase with
            # plain read(), which discards descriptors arriving alongside (what happens to descriptors is C15's subject)
            pre = b"BEGIN\r\n" + msgs[0] if fdmsg is not None else b""
            stream = (b"" if fdmsg is not None else b"BEGIN\r\n") + b"".join(msgs[1:] if fdmsg is not None else msgs)
            # a stream that turns invalid: everything complete before the first invalid message is delivered, however the bytes were cut
            # (and the sender is dropped)
            turns_invalid = fdmsg is None and rng.random() < 0.3
            if turns_invalid:
                stream += rng.choice([b"X", b"l\x09", b"l\x01\x00\x02"]) + bytes(rng.getrandbits(8) for _ in range(rng.choice([15, 47, 200])))
            if fdmsg is not None:
                msgs = msgs[1:]; fdmsg -= 1; fdset = [x - 1 for x in fdset]
            n = len(stream)
            starts = [0 if pre else 7]
            for b in msgs:
                starts.append(starts[-1] + len(b))
            kind = rng.choice(["one", "after-begin", "fd-header", "random", "blocks", "begin-plus-tail"] + (["fd-split", "fd-split"] if fdmsg is not None else []))
            if case < 6 and not pre:
                kind = "begin-split"                   # a read boundary inside the BEGIN line itself: B|EGIN\r\n … BEGIN\r|\n
            if kind == "begin-split": cuts = [case % 6 + 1] + ([7] if rng.random() < 0.5 else [])
            elif kind == "one": cuts = []
            elif kind == "after-begin": cuts = [7]
            elif kind == "fd-header" and fdmsg is not None:
                cuts = [starts[fdmsg] + rng.randint(1, 16)] + ([starts[fdmsg]] if rng.random() < 0.5 else [])
            elif kind == "fd-split":
                # one cut somewhere inside a descriptor-carrying message; what follows it (often another such message) arrives in
                # one piece with its tail, after the daemon has had time to read the head
                w = rng.choice(fdset)
                inner = starts[w] + rng.randint(1, len(msgs[w]) - 1)
                cuts = [inner]
            elif kind == "blocks":
                sz = rng.choice([1, 2, 7, 16, 17, 100, 2048, 2049]); lo = rng.randint(0, max(0, n - 300))
                cuts = list(range(lo + sz, min(n, lo + 300), sz)) if sz < 100 else list(range(sz, n, sz))
            elif kind == "begin-plus-tail": cuts = [(0 if pre else 7) + rng.randint(1, min(2041, n - 8))] if n > 9 else []
            else: cuts = sorted(rng.sample(range(1, n), min(n - 1, rng.randint(1, 6))))
            # descriptors travel with the first byte of the message that announces them, in a sendmsg of its own: while the loader
            # holds descriptors of an unfinished message it reads exactly that message's remaining bytes with a plain read(), and
            # the kernel discards descriptors attached to bytes read that way
            if len(fdset) > 1:
                cuts += [starts[w] for w in fdset]
            cuts = sorted(set(c for c in cuts if 0 < c < n))
            pause = rng.choice([0.0, 0.004, 0.004]) if kind not in ("fd-split", "begin-split") else 0.03
            pause_at = inner if kind == "fd-split" else (cuts[0] if kind == "begin-split" and cuts else None)   # (the head is given time to be read alone)
            S = bus.Client(d, fd_passing=use_fd, begin=False)
            fdfiles = []
            try:
                if pre:
                    S.send_raw(pre)
                    if S.recv_until(lambda m: m.mtype in (2, 3) and m.get(5) == 1, 10.0) is None:
                        raise InfraError("no answer to Hello")
                    S.buf.clear() if hasattr(S.buf, "clear") else None
                pos = 0
                for c in cuts + [n]:
                    chunk = stream[pos:c]
                    fds = []
                    for w in fdset:
                        if pos <= starts[w] < c:
                            f = open(os.path.join(d.dir, "c11-fd"), "w+"); fdfiles.append(f); fds.append(f.fileno())
                    S.send_raw(chunk, fds)
                    pos = c
                    if pause and (pause_at is None or c == pause_at): time.sleep(pause)
                # the sender's stream has been processed once the bus answers it (or drops it)
                S.send(method_call(9000, None, "/", "org.freedesktop.DBus.Peer", "Ping"))
                got_s = S.recv_until(lambda m: m.mtype in (2, 3) and m.get(5) == 9000, 10.0)
                dropped = got_s is None or got_s[-1] is None
                R.send(method_call(9001 + case, None, "/", "org.freedesktop.DBus.Peer", "Ping"))
                got_r = R.recv_until(lambda m: m.mtype in (2, 3) and m.get(5) == 9001 + case, 10.0) or []
                seen = [m.body[0] for m in got_r if m is not None and m.mtype == 4 and m.get(3) == b"S"]
                nfd = len(R.fds)
                for fd in R.fds:
                    try: os.close(fd)
                    except OSError: pass
                R.fds = []
                out.append({"kind": kind, "cuts": cuts[:12], "all_cuts": cuts, "pre": pre.hex(), "fd_at": starts[fdmsg] if fdmsg is not None else None,
                            "ncuts": len(cuts), "bytes": n, "pause": pause, "pause_at": pause_at, "want": [t.decode() for t in tokens],
                            "got": [t.decode() if isinstance(t, bytes) else str(t) for t in seen], "dropped": dropped != turns_invalid,
                            "turns_invalid": turns_invalid,
                            "fds_want": len(fdset), "fds_got": nfd, "fd_starts": [starts[w] for w in fdset], "stream": stream.hex(), "receiver": R.unique})
            finally:
                S.close()
                for f in fdfiles: f.close()
            if not d.alive():
                out.append({"kind": "daemon-died", "stderr": d.stderr()[-1500:]}); break
    finally:
        d.stop()
    return out


def socket_suite(ctx):
    """the same property through a real transport: whatever way `BEGIN` + messages is cut into writes (and so, with pauses, into
    the daemon's reads), the receiver gets every message, once, in order. By chunking_irrelevant the expected outcome of every
    partition is that of the unsplit stream, which consists of valid messages only."""
    from concurrent.futures import ProcessPoolExecutor
    nj, per = (12, 14) if ctx.quick() else (14, 400)
    with ProcessPoolExecutor(nj) as ex:
        res = [c for chunk in ex.map(_socket_job, [(ctx.seed * 7907 + j, per, not ctx.quick()) for j in range(nj)]) for c in chunk]
    bad = [c for c in res if c.get("kind") == "daemon-died" or c["got"] != c["want"] or c["dropped"] or c["fds_got"] != c["fds_want"]]
    kinds = {}
    for c in res:
        kinds[c["kind"]] = kinds.get(c["kind"], 0) + 1
    for c in bad[:3]:
        ctx.violate("the same byte stream, cut differently into writes, does not yield the same messages: partition kind %s, cuts %s of %s bytes: "
                    "receiver got %d of %d messages%s" % (c.get("kind"), c.get("cuts"), c.get("bytes"), len(c.get("got", [])), len(c.get("want", [])),
                                                            ", sender dropped" if c.get("dropped") else ""), {"kind": "socket-chunking", "case": c}, True)
    ctx.oblige("correspondence K:transport/chunking (%d partitions of BEGIN + Hello + signals over real sockets, with and without descriptors)" % len(res),
               "correspondence", not bad)
    ctx.coverage["socket"] = {"cases": len(res), "partition_kinds": kinds, "with_descriptor": sum(1 for c in res if c.get("fds_want"))}
    return len(res)


def run(ctx):
    check.lean_obligations(ctx, MODULE, THEOREMS)
    exe = build.cc("h_wire", ["harness/lib/h_wire.c"])
    rng = random.Random(ctx.seed * 15485863 + 11)
    nstreams = 25 if ctx.quick() else 300
    ops, owner, kinds = [], [], {}
    streams = []
    for s in range(nstreams):
        stream, kind, nm = gen_stream(rng)
        streams.append((stream, kind))
        kinds[kind] = kinds.get(kind, 0) + 1
        for p in partitions(stream, rng, not ctx.quick()):
            ops.append("wire chunks %d %s" % (MAXLEN, " ".join(c.hex() for c in p if c)))
            owner.append(s)
    k = max(1, (len(ops) + NCPU - 1) // NCPU)
    parts = [list(range(i, min(i + k, len(ops)))) for i in range(0, len(ops), k)]
    with ThreadPoolExecutor(max_workers=NCPU) as ex:
        results = list(ex.map(lambda idx: script.diff([exe], [ops[i] for i in idx]), parts))
    ok = True
    impl_by_stream = {}
    for idx, res in zip(parts, results):
        if res["rc"] != 0 or res["n_impl"] != len(idx) or res["n_model"] != len(idx):
            ok = False
            j = min(res["n_impl"], len(idx) - 1)
            ctx.violate("loader harness aborted on a chunked stream", {"op": ops[idx[j]], "stderr": res["stderr"][-2000:]}, True)
            continue
        for (j, op, impl, model, spec) in res["rows"]:
            ok = False
            ctx.violate("chunked loading differs from the model: impl '%s' vs model '%s'" % (impl[:90], model[:90]),
                        {"op": op, "impl": impl, "model": model, "stream_kind": streams[owner[idx[j]]][1]}, True)
    # oracle of the property itself on the implementation's own output: all partitions of one
    # stream must give the same observation. (impl == model on every row, so the model's lines stand for it.)
    model_lines, _ = script.run_model("\n".join(ops) + "\n")
    first = {}
    for i, line in enumerate(model_lines):
        s = owner[i]
        if s not in first:
            first[s] = (i, line)
        elif first[s][1] != line:
            ok = False
            ctx.violate("two partitions of the same stream give different messages / corruption point",
                        {"op_a": ops[first[s][0]], "op_b": ops[i], "a": first[s][1], "b": line}, True)
    ctx.oblige("correspondence K:loader/chunking (all cut points, byte-at-a-time, random partitions)", "correspondence", ok)
    nontriv = len(set(op for op in ops if op.count(" ") > 3))
    ctx.coverage.update({
        "evaluations": len(ops), "distinct_nontrivial": nontriv,
        "rule": "streams of 1-6 valid messages (both byte orders, varied sizes), optionally followed by an invalid message and more bytes or by a partial message; "
                "each stream is fed unsplit, one byte at a time, at every single cut point, in fixed block sizes and in random partitions; non-trivial = distinct "
                "partitions with at least two chunks",
        "samples": [ops[0][:200], ops[len(ops) // 2][:200]],
        "distribution": {"streams": nstreams, "kinds": kinds, "partitions": len(ops)},
        "traces_validated_against_impl": len(ops)})
    nsock = socket_suite(ctx)
    ctx.coverage["evaluations"] += nsock
    ctx.assumptions += ["at transport level the partitions are partitions of the client's writes; pauses between them make the daemon's reads "
                        "follow them, which is likely but not forced"]


def replay_socket(case):
    """re-sends the recorded partition to a fresh daemon (the receiver gets the same unique name: it is the first to connect)"""
    import time
    from .. import bus
    from ..bus import method_call
    d = bus.Daemon()
    try:
        R = bus.Client(d, fd_passing=True); bus.hello(R)
        if R.unique != case["receiver"]:
            print("replay: receiver is %s, recorded %s" % (R.unique, case["receiver"])); return 1
        S = bus.Client(d, fd_passing=case["fds_want"] > 0, begin=False)
        if case["pre"]:
            S.send_raw(bytes.fromhex(case["pre"])); S.recv_until(lambda m: m.mtype in (2, 3) and m.get(5) == 1, 10.0)
        stream, pos = bytes.fromhex(case["stream"]), 0
        for c in case["all_cuts"] + [len(stream)]:
            fds, keep = [], []
            for st in case.get("fd_starts") or ([case["fd_at"]] if case["fd_at"] is not None else []):
                if pos <= st < c:
                    f = open(os.path.join(d.dir, "c11-fd"), "w+"); keep.append(f); fds.append(f.fileno())
            S.send_raw(stream[pos:c], fds); pos = c
            if case.get("pause_at") is None or c == case["pause_at"]:
                time.sleep(case["pause"])
        S.send(method_call(9000, None, "/", "org.freedesktop.DBus.Peer", "Ping"))
        got_s = S.recv_until(lambda m: m.mtype in (2, 3) and m.get(5) == 9000, 10.0)
        R.send(method_call(9001, None, "/", "org.freedesktop.DBus.Peer", "Ping"))
        got_r = R.recv_until(lambda m: m.mtype in (2, 3) and m.get(5) == 9001, 10.0) or []
        seen = [m.body[0].decode() for m in got_r if m is not None and m.mtype == 4 and m.get(3) == b"S"]
        dropped = got_s is None or got_s[-1] is None
        print("replay C11: receiver got %d of %d messages, sender dropped=%s" % (len(seen), len(case["want"]), dropped))
        return 1 if (seen != case["want"] or dropped != bool(case.get("turns_invalid"))) else 0
    finally:
        d.stop()


def replay(path):
    data = json.load(open(path))
    if data["replay"].get("kind") == "socket-chunking":
        return replay_socket(data["replay"]["case"])
    op = data["replay"].get("op") or data["replay"].get("op_b")
    if not op:
        print("replay: no input recorded: %s" % data["what"]); return 1
    exe = build.cc("h_wire", ["harness/lib/h_wire.c"]); lean.build_driver()
    res = script.diff([exe], [op])
    for r in res["rows"]:
        print("impl=%s\nmodel=%s" % (r[2], r[3]))
    bad = res["rows"] or res["rc"] != 0
    if bad:
        print("VIOLATION property=C11 replay=%s" % path)
    return 1 if bad else 0
