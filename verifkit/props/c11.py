"""C11 — message framing is independent of how the byte stream is chunked."""
import json, random, os
from concurrent.futures import ThreadPoolExecutor
from ..common import *
from .. import common, build, lean, check, script, wiregen

MODULE = "Dbus.Props.C11"
THEOREMS = ["chunking_irrelevant", "framing_final", "nothing_after_corruption", "messages_monotone"]
MAXLEN = 1 << 27


def partitions(stream, rng, thorough):
    n = len(stream)
    parts = [[stream]]                                           # unsplit
    parts.append([stream[i:i + 1] for i in range(n)])             # one byte at a time
    cuts = range(1, n) if (thorough or n <= 160) else sorted(rng.sample(range(1, n), 160))
    for c in cuts:                                                # every single cut point
        parts.append([stream[:c], stream[c:]])
    for _ in range(12 if thorough else 5):                        # random partitions
        k = rng.randint(2, min(12, max(2, n)))
        pts = sorted(rng.sample(range(1, n), min(k, n - 1))) if n > 2 else []
        parts.append([stream[a:b] for a, b in zip([0] + pts, pts + [n])])
    for sz in (2, 3, 7, 8, 15, 16, 17):
        parts.append([stream[i:i + sz] for i in range(0, n, sz)])
    return parts


def gen_stream(rng):
    msgs = []
    for _ in range(rng.randint(1, 6)):
        m = wiregen.gen_message(rng, max_body_types=2)
        b = m.marshal()
        if len(b) > 400:
            continue
        msgs.append(b)
    if not msgs:
        msgs = [wiregen.gen_message(rng, max_body_types=0).marshal()]
    stream = b"".join(msgs)
    kind = "valid"
    r = rng.random()
    if r < 0.45:
        bad = bytearray(rng.choice(msgs))
        how = rng.choice(["byte", "ver", "endian", "serial0", "len"])
        if how == "byte":
            i = rng.randrange(len(bad)); bad[i] ^= rng.choice([1, 0x80, 0xff])
        elif how == "ver": bad[3] = 2
        elif how == "endian": bad[0] = 0x6d
        elif how == "serial0": bad[8:12] = b"\0\0\0\0"
        else: bad[12:16] = b"\xff\xff\xff\x7f"
        tail = bytes(rng.getrandbits(8) for _ in range(rng.choice([0, 5, 40]))) + rng.choice(msgs + [b""])
        stream += bytes(bad) + tail
        kind = "invalid-" + how
    elif r < 0.6:
        stream += rng.choice(msgs)[:rng.randint(1, 30)]            # incomplete tail
        kind = "partial-tail"
    return stream, kind, len(msgs)


def run(ctx):
    check.lean_obligations(ctx, MODULE, THEOREMS)
    exe = build.cc("h_wire", ["harness/lib/h_wire.c"])
    rng = random.Random(ctx.seed * 15485863 + 11)
    nstreams = 25 if ctx.quick() else 300
    ops, owner, kinds = [], [], {}
    streams = []
    for s in range(nstreams):
        stream, kind, nm = gen_stream(rng)
        streams.append((stream, kind))
        kinds[kind] = kinds.get(kind, 0) + 1
        for p in partitions(stream, rng, not ctx.quick()):
            ops.append("wire chunks %d %s" % (MAXLEN, " ".join(c.hex() for c in p if c)))
            owner.append(s)
    k = max(1, (len(ops) + NCPU - 1) // NCPU)
    parts = [list(range(i, min(i + k, len(ops)))) for i in range(0, len(ops), k)]
    with ThreadPoolExecutor(max_workers=NCPU) as ex:
        results = list(ex.map(lambda idx: script.diff([exe], [ops[i] for i in idx]), parts))
    ok = True
    impl_by_stream = {}
    for idx, res in zip(parts, results):
        if res["rc"] != 0 or res["n_impl"] != len(idx) or res["n_model"] != len(idx):
            ok = False
            j = min(res["n_impl"], len(idx) - 1)
            ctx.violate("loader harness aborted on a chunked stream", {"op": ops[idx[j]], "stderr": res["stderr"][-2000:]}, True)
            continue
        for (j, op, impl, model, spec) in res["rows"]:
            ok = False
            ctx.violate("chunked loading differs from the model: impl '%s' vs model '%s'" % (impl[:90], model[:90]),
                        {"op": op, "impl": impl, "model": model, "stream_kind": streams[owner[idx[j]]][1]}, True)
    # oracle of the property itself on the implementation's own output: all partitions of one
    # stream must give the same observation. (impl == model on every row, so the model's lines stand for it.)
    model_lines, _ = script.run_model("\n".join(ops) + "\n")
    first = {}
    for i, line in enumerate(model_lines):
        s = owner[i]
        if s not in first:
            first[s] = (i, line)
        elif first[s][1] != line:
            ok = False
            ctx.violate("two partitions of the same stream give different messages / corruption point",
                        {"op_a": ops[first[s][0]], "op_b": ops[i], "a": first[s][1], "b": line}, True)
    ctx.oblige("correspondence K:loader/chunking (all cut points, byte-at-a-time, random partitions)", "correspondence", ok)
    nontriv = len(set(op for op in ops if op.count(" ") > 3))
    ctx.coverage.update({
        "evaluations": len(ops), "distinct_nontrivial": nontriv,
        "rule": "streams of 1-6 valid messages (both byte orders, varied sizes), optionally followed by an invalid message and more bytes or by a partial message; "
                "each stream is fed unsplit, one byte at a time, at every single cut point, in fixed block sizes and in random partitions; non-trivial = distinct "
                "partitions with at least two chunks",
        "samples": [ops[0][:200], ops[len(ops) // 2][:200]],
        "distribution": {"streams": nstreams, "kinds": kinds, "partitions": len(ops)},
        "traces_validated_against_impl": len(ops)})
    ctx.assumptions += ["the handshake-to-message boundary (bytes after BEGIN in the same read) is exercised by the C08 harness",
                        "descriptor arrival (SCM_RIGHTS) is not part of these streams"]


def replay(path):
    data = json.load(open(path))
    op = data["replay"].get("op") or data["replay"].get("op_b")
    if not op:
        print("replay: no input recorded: %s" % data["what"]); return 1
    exe = build.cc("h_wire", ["harness/lib/h_wire.c"]); lean.build_driver()
    res = script.diff([exe], [op])
    for r in res["rows"]:
        print("impl=%s\nmodel=%s" % (r[2], r[3]))
    bad = res["rows"] or res["rc"] != 0
    if bad:
        print("VIOLATION property=C11 replay=%s" % path)
    return 1 if bad else 0
