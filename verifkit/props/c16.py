"""C16 — name, path, signature and UTF-8 checks accept exactly the specified grammars."""
import os, re, json, subprocess
from concurrent.futures import ThreadPoolExecutor
from ..common import *
from .. import common
from .. import build, lean, check

MODULE = "Dbus.Props.C16"
THEOREMS = ["validateMember_iff", "validateInterface_iff", "validateErrorName_iff", "validateBusName_iff",
            "uniqueNameLaxity_witness", "validateBusNamespace_iff", "validatePath_iff", "validateUtf8_iff",
            "validateSignature_iff", "validateSignature_iff_spec_of_shallow", "validateSingle_iff_lax",
            "specBusName_iff", "specUniqueName_iff", "specSignature_iff", "specSingle_iff"]
TABLES = ["nameChar_table", "initialNameChar_table", "busNameChar_table", "initialBusNameChar_table",
          "utf8Lead_table", "utf8Point_table", "typeTab_table", "limits_table"]
SYN_BITS = ["member", "interface", "error", "busname", "namespace", "path", "utf8"]
SIG_BITS = ["signature", "single"]


def suites(ctx):
    q = ctx.quick()
    return [("names", ["names", "6" if q else "7"]),
            ("sigcore", ["sigcore", "8" if q else "9"]),
            ("sigext", ["sigext", "5" if q else "6"]),
            ("utf8", ["utf8"]),
            ("deep", ["deep"]),
            ("random", ["random", str(ctx.seed), "20000" if q else "400000"])]


def run_suite(exe, args):
    """h_syntax args | dbus-model ; returns parsed output"""
    env = dict(os.environ); env.update(build.ASAN_ENV)
    import tempfile
    with tempfile.TemporaryFile() as errf:          # (a pipe would fill up and block the harness when it has much to complain about)
        h = subprocess.Popen([exe] + args, stdout=subprocess.PIPE, stderr=errf, env=env)
        d = subprocess.Popen([DRIVER], stdin=h.stdout, stdout=subprocess.PIPE, text=True)
        h.stdout.close()
        out, _ = d.communicate()
        hrc = h.wait()
        errf.seek(0)
        herr = errf.read().decode(errors="replace")
    if len(herr) > 4000000:
        herr = herr[:2000000] + herr[-2000000:]
    res = {"mismatch": [], "known": [], "samples": [], "done": None, "harness_rc": hrc, "harness_err": herr[-2000:],
           "inconsistent": [l for l in herr.splitlines() if l.startswith("INCONSISTENT")]}
    for line in out.splitlines():
        if line.startswith("MISMATCH"):
            res["mismatch"].append(line)
        elif line.startswith("KNOWN"):
            res["known"].append(line)
        elif line.startswith("SAMPLE"):
            res["samples"].append(line[7:])
        elif line.startswith("DONE"):
            res["done"] = dict(kv.split("=") for kv in line.split()[1:])
    m = re.search(r"lines=(\d+)", herr)
    res["harness_lines"] = int(m.group(1)) if m else -1
    return res


def parse_case(line):
    # MISMATCH syn <hex> impl=.. model=.. spec=..
    t = line.split()
    d = {"cmd": t[1], "hex": t[2]}
    for kv in t[3:]:
        k, v = kv.split("=")
        d[k] = v
    return d


def classify(case):
    """positions where impl differs from the strict specification and from the model"""
    names = SYN_BITS if case["cmd"] == "syn" else SIG_BITS
    vs_spec = [names[i] for i in range(len(names)) if case["impl"][i] != case["spec"][i]]
    vs_model = [names[i] for i in range(len(names)) if case["impl"][i] != case["model"][i]]
    return vs_spec, vs_model


def run(ctx):
    check.lean_obligations(ctx, MODULE, THEOREMS, TABLES)
    exe = build.cc("h_syntax", ["harness/lib/h_syntax.c"])
    findings = check.load_findings("C16")
    known_classes = {e["class"]: e for e in findings if e.get("status") == "known"}
    sl = suites(ctx)
    with ThreadPoolExecutor(max_workers=min(NCPU, len(sl))) as ex:
        results = list(ex.map(lambda s: run_suite(exe, s[1]), sl))
    total = nontriv = 0
    dist = {}
    samples = []
    known_counts = {}
    for (name, args), r in zip(sl, results):
        ok = True
        detail = ""
        if r["done"] is None or r["harness_rc"] != 0 or int(r["done"]["lines"]) != r["harness_lines"] or int(r["done"]["bad"]) != 0:
            # the implementation aborted (sanitizer/assertion) or the pipe broke
            ok = False
            detail = "harness rc=%s lines=%s driver=%s stderr=%s" % (r["harness_rc"], r["harness_lines"], r["done"], r["harness_err"][-800:])
            if r["harness_rc"] != 0:
                ctx.violate("validator harness aborted in suite %s (sanitizer/assertion)" % name,
                            {"suite": name, "args": args, "stderr": r["harness_err"]}, failing_input=True)
        n = int(r["done"]["lines"]) if r["done"] else 0
        total += n
        nontriv += int(r["done"].get("nontrivial", 0)) if r["done"] else 0
        dist[name] = {"cases": n, "accepted_by_some_grammar": int(r["done"].get("nontrivial", 0)) if r["done"] else 0,
                      "mismatches": len(r["mismatch"]), "known_class_hits": len(r["known"])}
        samples += [name + ": " + s for s in r["samples"][:2]]
        for line in r["inconsistent"][:8]:
            ok = False
            ctx.violate("public and internal validators disagree: " + line, {"suite": name, "line": line,
                        "replay_cmd": ".cache/bin/h_syntax one ..."}, failing_input=True)
        for line in r["mismatch"][:12]:
            ok = False
            c = parse_case(line)
            vs_spec, vs_model = classify(c)
            fresh = [b for b in vs_spec if b in vs_model]
            if fresh:
                ctx.violate("validator verdict differs from the specification grammar for %s on input %s (impl=%s spec=%s)" % (
                    ",".join(fresh), c["hex"], c["impl"], c["spec"]), {"suite": name, "case": c, "differs_from_spec": fresh}, True)
            else:
                ctx.violate("model/implementation correspondence broken on input %s (impl=%s model=%s) though the spec verdict is met" % (
                    c["hex"], c["impl"], c["model"]), {"suite": name, "case": c, "broken": "K:" + name}, False)
        for line in r["known"]:
            c = parse_case(line)
            vs_spec, _ = classify(c)
            for b in vs_spec:
                cls = "%s.%s.accepts-beyond-spec" % (c["cmd"], b)
                if cls in known_classes and c["impl"][(SYN_BITS if c["cmd"] == "syn" else SIG_BITS).index(b)] == "1":
                    known_counts.setdefault(cls, [0, c["hex"]])[0] += 1
                else:
                    ok = False
                    ctx.violate("validator differs from the specification for %s on %s and no known finding covers it" % (b, c["hex"]),
                                {"suite": name, "case": c}, True)
        if r["inconsistent"] or r["mismatch"]:
            ok = False
        ctx.oblige("correspondence K:syntax/" + name, "correspondence", ok, detail)
    for cls, (n, hx) in sorted(known_counts.items()):
        e = known_classes[cls]
        ctx.known_lines.append("%s %s — %d instances in this run, e.g. hex %s (witness %s)" % (e["key"], e["what"], n, hx, e.get("witness")))
    ctx.coverage.update({
        "evaluations": total, "distinct_nontrivial": nontriv, "exhaustive": True,
        "rule": "exhaustive enumeration of all strings up to a fixed length over class-representative alphabets "
                "(names: A a 0 _ - . : / NUL 0x80; signatures: 'a(){}s' and 'a(){}sivyxZ'), all UTF-8 lead x continuation class "
                "combinations and code-point boundaries (correct, over-long, truncated, embedded), nesting builders around 32/33, "
                "random strings around the 255 limit; distinct by construction; non-trivial = accepted by at least one grammar",
        "samples": samples, "distribution": dist,
        "traces_validated_against_impl": total})
    ctx.assumptions += ["strings are passed to the internal predicates with explicit length (embedded NUL allowed) and to the public wrappers when NUL-free",
                        "message-parser / match-rule / RequestName call sites of the same predicates are exercised by C01/C07/C04"]


def replay(path):
    data = json.load(open(path))
    c = data["replay"].get("case")
    exe = build.cc("h_syntax", ["harness/lib/h_syntax.c"])
    lean.build_driver()
    if not c:
        print("replay: no single input recorded (broken obligation): %s" % data["what"])
        return 1
    p = common.run([exe, "one", c["cmd"], c["hex"]], env=build.ASAN_ENV)
    q = common.run([DRIVER], input=p.stdout)
    print(p.stdout.strip()); print(q.stdout.strip())
    bad = "MISMATCH" in q.stdout or p.returncode != 0
    if bad:
        print("VIOLATION property=C16 replay=%s" % path)
    return 1 if bad else 0
