"""C04 — name ownership follows the specification's state machine."""
import json, re
from ..common import *
from .. import check, buscheck, busdiff
from ..buscheck import fld, hexname

MODULE = "Dbus.Props.C04"
THEOREMS = ["requestName_queue", "requestName_reply", "requestName_signals", "releaseName_queue_and_reply",
            "releaseName_signals", "disconnect_queue", "disconnect_signals", "queue_jump_same_primary", "f15_witness",
            "queues_well_formed", "queues_well_formed_with_activation_and_time", "looked_up_queue_ok", "reserved_names_not_requestable", "reserved_names_not_releasable",
            "refused_request_changes_nothing", "reply_after_signals", "getNameOwner_reports_primary",
            "listQueuedOwners_reports_queue", "nameHasOwner_reports_registry", "queue_members_are_connected", "owned_names_cover_queues",
            "gone_connection_in_no_queue"]
BUS = "org.freedesktop.DBus"
WEIGHTS = {"request": 40, "release": 14, "query": 12, "close": 6, "connect": 6, "hello": 5, "addmatch": 3, "signal": 2,
           "call": 3, "reply": 1, "forged": 1, "driver_edge": 2, "garbage": 0, "badtype": 0, "nodest": 0, "removematch": 1}
ERR = "org.freedesktop.DBus.Error."


def valid_bus_name(n):
    if not n or len(n) > 255 or n.startswith(":"):
        return bool(n) and n.startswith(":") and False
    parts = n.split(".")
    if len(parts) < 2:
        return False
    for p in parts:
        if not p or not re.match(r"^[A-Za-z_-][A-Za-z0-9_-]*$", p):
            return False
    return True


def spec_request(q, c, allow, replace, noqueue):
    """doc/dbus-specification.xml, RequestName rules 1-5; q = list of [conn, allow, noqueue]; returns (q', jumped)"""
    e = [c, allow, noqueue]
    if not q:
        q1 = [e]
    elif q[0][0] == c:
        q1 = [e] + q[1:]
    elif q[0][1] and replace:
        q1 = [e, q[0]] + [x for x in q[1:] if x[0] != c]
    elif any(x[0] == c for x in q[1:]):
        q1 = [q[0]] + [e if x[0] == c else x for x in q[1:]]
    else:
        q1 = q + [e]
    return [q1[0]] + [x for x in q1[1:] if not x[2]]


def code_request(q, c, allow, replace, noqueue):
    """what bus/services.c does in the queue-jump case (F15): second place"""
    e = [c, allow, noqueue]
    return [q[0], e] + [x for x in q[1:] if x[0] != c]


def body_strs(l):
    b = fld(l, "body") or ""
    return b


def oracle(tr, max_names=512):
    bad = []
    names = {}      # cid -> unique name
    queues = {}     # name -> list of [cid, allow, noqueue]
    live = set()
    for i, (per, closed) in enumerate(tr.steps):
        op = tr.ops[i]
        if op[0] == "connect":
            live.add(op[1]); continue
        gone = set(closed)
        if op[0] == "close":
            gone.add(op[1])
        actor = op[1] if op[0] == "send" else None
        sent = tr.sent(i) if op[0] == "send" else None
        if sent and actor in live and actor not in gone:
            member, dest, t = hexname(fld(sent, "member")), hexname(fld(sent, "dest")), fld(sent, "t")
            iface = hexname(fld(sent, "iface"))
            mine = per.get(actor, [])
            replies = [l for l in mine if fld(l, "rs") == fld(sent, "ser") and hexname(fld(l, "sender")) == BUS and fld(l, "t") in ("2", "3")]
            if t == "1" and dest == BUS and iface in (BUS, None) and member == "Hello" and actor not in names:
                for l in replies:
                    if fld(l, "t") == "2" and fld(l, "sig") == "73":
                        names[actor] = bytes.fromhex(fld(l, "body")[2:]).decode("latin1")
            elif t == "1" and dest == BUS and iface in (BUS, None) and actor in names and fld(sent, "path") is not None:
                sig = hexname(fld(sent, "sig")) or ""
                body = fld(sent, "body") or ""
                if member == "RequestName" and sig == "su":
                    m = re.match(r"^s:([0-9a-f]*|-),u:(\d+)$", body)
                    if m:
                        name = bytes.fromhex(m.group(1)).decode("latin1") if m.group(1) != "-" else ""
                        flags = int(m.group(2))
                        allow, replace, noqueue = bool(flags & 1), bool(flags & 2), bool(flags & 4)
                        if len(replies) != 1:
                            bad.append((None, "step %d: RequestName got %d replies" % (i, len(replies)))); continue
                        r = replies[0]
                        if name == BUS or name.startswith(":") or not valid_bus_name(name):
                            if not (fld(r, "t") == "3" and hexname(fld(r, "err")) == ERR + "InvalidArgs"):
                                bad.append((None, "step %d: RequestName(%r) was not refused with InvalidArgs" % (i, name)))
                            continue
                        n_owned = 1 + sum(1 for qq in queues.values() if any(x[0] == actor for x in qq))
                        if n_owned >= max_names:
                            if not (fld(r, "t") == "3" and hexname(fld(r, "err")) == ERR + "LimitsExceeded"):
                                bad.append((None, "step %d: RequestName(%s) by %d at the names limit (%d) was not refused with LimitsExceeded" % (i, name, actor, max_names)))
                            continue
                        if fld(r, "t") != "2":
                            bad.append((None, "step %d: RequestName(%s) by %d refused: %s" % (i, name, actor, hexname(fld(r, "err"))))); continue
                        q = queues.get(name, [])
                        old = q[0][0] if q else None
                        q2 = spec_request(q, actor, allow, replace, noqueue)
                        if q and q[0][0] != actor and replace and not noqueue and not q[0][1]:
                            qc = code_request(q, actor, allow, replace, noqueue)
                            if qc != q2:
                                bad.append(("c04.replace-existing-jumps-queue",
                                            "step %d: RequestName(%s, REPLACE_EXISTING) by %d cannot replace and is put ahead of earlier waiters" % (i, name, actor)))
                                q2 = qc
                        code = 4 if old == actor else (1 if q2[0][0] == actor else (2 if any(x[0] == actor for x in q2) else 3))
                        got = fld(r, "body")
                        if got != "u:%d" % code:
                            bad.append((None, "step %d: RequestName(%s, flags %d) by %d: reply %s, specification says %d (queue %s)" %
                                        (i, name, flags, actor, got, code, [x[0] for x in q])))
                        new = q2[0][0]
                        if new != old:
                            # NameAcquired to the new owner (before its reply when it is the requester), NameLost to the old one
                            want = "member=" + b"NameAcquired".hex()
                            idx = [k for k, l in enumerate(per.get(new, [])) if want in l and ("s:" + name.encode().hex()) in l]
                            if not idx:
                                bad.append((None, "step %d: no NameAcquired(%s) to connection %d" % (i, name, new)))
                            elif new == actor and idx[0] > mine.index(r):
                                bad.append((None, "step %d: NameAcquired(%s) arrived after the reply" % (i, name)))
                            if old is not None and old in live:
                                wantl = "member=" + b"NameLost".hex()
                                if not any(wantl in l and ("s:" + name.encode().hex()) in l for l in per.get(old, [])):
                                    bad.append((None, "step %d: no NameLost(%s) to connection %d" % (i, name, old)))
                        queues[name] = q2
                elif member == "ReleaseName" and sig == "s":
                    m = re.match(r"^s:([0-9a-f]*|-)$", body)
                    if m and len(replies) == 1:
                        name = bytes.fromhex(m.group(1)).decode("latin1") if m.group(1) != "-" else ""
                        r = replies[0]
                        if name == BUS or name.startswith(":") or not valid_bus_name(name):
                            if not (fld(r, "t") == "3" and hexname(fld(r, "err")) == ERR + "InvalidArgs"):
                                bad.append((None, "step %d: ReleaseName(%r) was not refused with InvalidArgs" % (i, name)))
                            continue
                        q = queues.get(name, [])
                        code = 2 if not q else (1 if any(x[0] == actor for x in q) else 3)
                        if fld(r, "body") != "u:%d" % code:
                            bad.append((None, "step %d: ReleaseName(%s) by %d: reply %s, specification says %d" % (i, name, actor, fld(r, "body"), code)))
                        old = q[0][0] if q else None
                        q2 = [x for x in q if x[0] != actor]
                        new = q2[0][0] if q2 else None
                        if new != old and new is not None:
                            want = "member=" + b"NameAcquired".hex()
                            if not any(want in l and ("s:" + name.encode().hex()) in l for l in per.get(new, [])):
                                bad.append((None, "step %d: no NameAcquired(%s) to connection %d after release" % (i, name, new)))
                        if q2: queues[name] = q2
                        else: queues.pop(name, None)
                elif member in ("GetNameOwner", "ListQueuedOwners", "NameHasOwner") and sig == "s" and len(replies) == 1:
                    m = re.match(r"^s:([0-9a-f]*|-)$", body)
                    name = bytes.fromhex(m.group(1)).decode("latin1") if m and m.group(1) != "-" else ""
                    r = replies[0]
                    if name in queues:
                        q = queues[name]
                        if member == "GetNameOwner" and fld(r, "body") != "s:" + names.get(q[0][0], "?").encode().hex():
                            bad.append((None, "step %d: GetNameOwner(%s) = %s, owner is connection %d (%s)" % (i, name, fld(r, "body"), q[0][0], names.get(q[0][0]))))
                        if member == "ListQueuedOwners":
                            want = "A[s|" + ",".join("s:" + names.get(x[0], "?").encode().hex() for x in q) + "]"
                            if fld(r, "body") != want:
                                bad.append((None, "step %d: ListQueuedOwners(%s) = %s, queue is %s" % (i, name, fld(r, "body"), [x[0] for x in q])))
                        if member == "NameHasOwner" and fld(r, "body") != "b:1":
                            bad.append((None, "step %d: NameHasOwner(%s) false for an owned name" % (i, name)))
                    elif valid_bus_name(name) and name != BUS:
                        if member == "NameHasOwner" and fld(r, "body") != "b:0":
                            bad.append((None, "step %d: NameHasOwner(%s) true for an unowned name" % (i, name)))
                        if member == "GetNameOwner" and fld(r, "t") != "3":
                            bad.append((None, "step %d: GetNameOwner(%s) answered for an unowned name" % (i, name)))
        for c in gone:
            if c in live:
                live.discard(c)
                for name in list(queues):
                    q = queues[name]
                    old = q[0][0]
                    q2 = [x for x in q if x[0] != c]
                    if q2 and q2[0][0] != old:
                        want = "member=" + b"NameAcquired".hex()
                        if not any(want in l and ("s:" + name.encode().hex()) in l for l in per.get(q2[0][0], [])):
                            bad.append((None, "step %d: no NameAcquired(%s) to connection %d after connection %d vanished" % (i, name, q2[0][0], c)))
                    if q2: queues[name] = q2
                    else: queues.pop(name)
                names.pop(c, None)
    return bad


def oracle3(tr):
    return oracle(tr, 3)


def run(ctx):
    check.lean_obligations(ctx, MODULE, THEOREMS)
    findings = {e["class"]: e for e in check.load_findings("C04") if e.get("status") == "known"}
    n = 60 if ctx.quick() else 1500
    buscheck.run_histories(ctx, n, 90 if ctx.quick() else 140, oracle, gen_kw={"weights": WEIGHTS, "max_conns": 5},
                           findings=findings, label="names")
    buscheck.run_histories(ctx, n, 120 if ctx.quick() else 200, oracle,
                           gen_kw={"weights": dict(WEIGHTS, request=50, release=10, close=5), "max_conns": 4,
                                   "names": [b"com.example.A", b"org.x"]},
                           findings=findings, seed_salt=3, label="two-names-contention")
    buscheck.run_histories(ctx, n // 3, 70, oracle3, gen_kw={"weights": WEIGHTS, "max_conns": 4}, limits={"names": 3},
                           findings=findings, seed_salt=2, label="names-limit-3")


def replay(path):
    return buscheck.replay_history(path, oracle, "C04")
