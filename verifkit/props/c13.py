"""C13 — configured resource limits are never exceeded."""
import re
from ..common import *
from .. import check, buscheck, busdiff, wiregen
from ..buscheck import fld, hexname, Tracker

MODULE = "Dbus.Props.C13"
THEOREMS = ["limits_never_exceeded", "limits_constant", "names_limit_refuses", "names_limit_error", "rules_limit_refuses",
            "connections_limit_refuses", "per_user_limit_refuses", "replies_limit_refuses", "below_names_limit_proceeds",
            "below_replies_limit_records", "oversized_only_sender_dropped", "limits_never_exceeded_with_activation_and_time",
            "removed_rule_frees_room", "below_rules_limit_not_refused", "answered_call_frees_slot", "departure_frees_connection"]
BUS = "org.freedesktop.DBus"
ERR = "org.freedesktop.DBus.Error."
ANYUSER = busdiff.Policy(busdiff.SESSION.rules + [("default", True, {"user": "*"})])


def make_oracle(lim):
    def oracle(tr):
        bad = []
        tk = Tracker()
        rules = {}        # cid -> number of acknowledged rules
        texts = {}        # cid -> their texts, oldest first
        unsure_rules = set()
        uid = {}
        slots = []        # (caller, callee, serial): calls delivered and not yet answered
        for i, (per, closed) in enumerate(tr.steps):
            tk.before(i, tr)
            op = tr.ops[i]
            if op[0] == "connect":
                uid[op[1]] = op[2]
            sent = tr.sent(i) if op[0] == "send" else None
            actor = op[1] if op[0] == "send" else None
            n_named_before = len([c for c in tk.names if c in tk.live])
            if op[0] == "send" and "maxmsg" in lim and actor in tk.live:
                n = wiregen.message_length(op[2])
                if n is not None and n > lim["maxmsg"] and len(op[2]) >= 16:
                    if actor not in closed:
                        bad.append((None, "step %d: a %d-byte message (limit %d) did not cost its sender the connection" % (i, n, lim["maxmsg"])))
                    if set(closed) - {actor}:
                        bad.append((None, "step %d: over-long message from %d disconnected %s" % (i, actor, sorted(set(closed) - {actor}))))
                    if any(hexname(fld(l, "sender")) != BUS for to, ls in per.items() if to != actor for l in ls):
                        bad.append((None, "step %d: something of an over-long message reached another connection" % i))
            if sent and actor in tk.live and fld(sent, "t") == "1" and hexname(fld(sent, "dest")) == BUS:
                member = hexname(fld(sent, "member"))
                mine = per.get(actor, [])
                rep = [l for l in mine if fld(l, "rs") == fld(sent, "ser") and hexname(fld(l, "sender")) == BUS and fld(l, "t") in ("2", "3")]
                ok = [l for l in rep if fld(l, "t") == "2"]
                err = [hexname(fld(l, "err")) for l in rep if fld(l, "t") == "3"]
                if member in ("AddMatch", "RemoveMatch"):
                    b_ = fld(sent, "body") or ""
                    try:
                        rtext = bytes.fromhex(b_[2:]).decode("latin1") if b_.startswith("s:") and b_ != "s:-" else ""
                    except ValueError:
                        rtext = "?"
                if member == "AddMatch" and actor in tk.names and hexname(fld(sent, "iface")) in (BUS, None):
                    if ok and not err:
                        rules[actor] = rules.get(actor, 0) + 1
                        texts.setdefault(actor, []).append(rtext)
                        if "rules" in lim and rules[actor] > lim["rules"] and actor not in unsure_rules:
                            bad.append((None, "step %d: connection %d now has %d match rules, limit %d" % (i, actor, rules[actor], lim["rules"])))
                    elif ERR + "LimitsExceeded" in err and "rules" in lim and rules.get(actor, 0) < lim["rules"] and len(rtext) <= 1024 and actor not in unsure_rules:
                        # (the count kept here is never below the bus's: rules the bus drops on its own are taken off below)
                        bad.append((None, "step %d: AddMatch of connection %d refused with LimitsExceeded although it holds %d rules, limit %d: capacity "
                                    "that was given back is not usable" % (i, actor, rules.get(actor, 0), lim["rules"])))
                elif member == "RemoveMatch" and actor in tk.names and hexname(fld(sent, "iface")) in (BUS, None):
                    if ok and not err:
                        rules[actor] = max(0, rules.get(actor, 0) - 1)
                        if rtext in texts.get(actor, []):
                            ts = texts[actor]; ts.reverse(); ts.remove(rtext); ts.reverse()
                        elif texts.get(actor):
                            unsure_rules.add(actor)        # removed by a text that is merely equal as a rule: which one went is not known here
                elif member == "Hello" and actor not in tk.names and hexname(fld(sent, "iface")) in (BUS, None):
                    if ok:
                        if "completed" in lim and n_named_before + 1 > lim["completed"]:
                            bad.append((None, "step %d: %d registered connections, limit %d" % (i, n_named_before + 1, lim["completed"])))
                        same = len([c for c in tk.names if c in tk.live and uid.get(c) == uid.get(actor)])
                        if "peruser" in lim and same + 1 > lim["peruser"]:
                            bad.append((None, "step %d: %d registered connections of uid %s, limit %d" % (i, same + 1, uid.get(actor), lim["peruser"])))
                    elif ERR + "LimitsExceeded" in err:
                        same = len([c for c in tk.names if c in tk.live and uid.get(c) == uid.get(actor)])
                        if not (("completed" in lim and n_named_before >= lim["completed"]) or ("peruser" in lim and same >= lim["peruser"])):
                            bad.append((None, "step %d: Hello refused with LimitsExceeded below every limit (%d registered, %d of this user)" % (i, n_named_before, same)))
            # outstanding calls per caller (max_replies_per_connection): a call that is delivered while its caller already has
            # `limit` calls outstanding - to whomever - exceeds the limit
            if "replies" in lim and sent and actor in tk.names and fld(sent, "t") in ("1", "2", "3"):
                d = hexname(fld(sent, "dest"))
                if d is not None and d != BUS and tk.primary(d) not in (None, "?"):
                    owner = tk.primary(d)
                    me = tk.names[actor]
                    got = len([l for l in per.get(owner, []) if hexname(fld(l, "sender")) == me and fld(l, "ser") == fld(sent, "ser") and fld(l, "t") == fld(sent, "t")])
                    if fld(sent, "t") == "1" and got == 1 and int(fld(sent, "f") or 0) % 2 == 0:
                        mine = [s for s in slots if s[0] == actor]
                        if len(mine) >= lim["replies"] and (actor, owner, int(fld(sent, "ser"))) not in slots:
                            bad.append((None, "step %d: a call of connection %d was delivered although it already has %d calls outstanding (%s), limit %d" %
                                        (i, actor, len(mine), [(s[1], s[2]) for s in mine], lim["replies"])))
                        if (actor, owner, int(fld(sent, "ser"))) not in slots:
                            slots.append((actor, owner, int(fld(sent, "ser"))))
                    elif fld(sent, "t") in ("2", "3") and fld(sent, "rs") not in (None, "-"):
                        s = (owner, actor, int(fld(sent, "rs")))
                        if s in slots:
                            slots.remove(s)
            gone_now = set(closed) | ({op[1]} if op[0] == "close" else set())
            slots = [s for s in slots if s[0] not in gone_now and s[1] not in gone_now]
            # a connection that leaves with rules of its own takes with it every rule of others that names its unique name
            # (the name is never used again): those rules no longer count against their owners
            gone_conns = (set(closed) | ({op[1]} if op[0] == "close" else set())) & set(tk.names)
            for g in gone_conns:
                gname = tk.names.get(g)
                if gname and rules.get(g, 0) > 0:
                    pat = re.compile(r"(?:^|,)\s*(?:sender|destination)='%s'\s*(?:,|$)" % re.escape(gname))
                    for c2 in list(texts):
                        if c2 == g:
                            continue
                        keep = [t_ for t_ in texts[c2] if not pat.search(t_)]
                        dropped = len(texts[c2]) - len(keep)
                        if dropped:
                            texts[c2] = keep; rules[c2] = max(0, rules.get(c2, 0) - dropped)
            tk.after(i, tr)
            for c in list(rules):
                if c not in tk.live:
                    rules.pop(c); texts.pop(c, None)
            if "names" in lim:
                for c in tk.live:
                    if c in tk.names:
                        k = 1 + sum(1 for q in tk.queues.values() if any(x[0] == c for x in q))
                        if k > max(1, lim["names"]):
                            bad.append((None, "step %d: connection %d is in %d owner queues (unique name included), limit %d" % (i, c, k, lim["names"])))
        return bad
    return oracle


W_RULES = {"addmatch": 30, "removematch": 12, "signal": 8, "close": 5, "connect": 5, "hello": 5, "request": 6, "call": 4, "query": 2}
W_CONNS = {"connect": 20, "hello": 22, "close": 14, "request": 6, "signal": 4, "call": 4, "addmatch": 4}
W_CALLS = {"call": 40, "reply": 18, "close": 5, "connect": 4, "hello": 4, "request": 8, "signal": 3}
W_NAMES = {"request": 40, "release": 14, "close": 6, "connect": 5, "hello": 5, "query": 6, "call": 3}


def burst_case(maxinc=3, nclients=8):
    """max_incomplete_connections when many clients arrive between two turns of the main loop: the daemon is held (SIGSTOP) while they
    connect and start to authenticate, and continued; it may serve `maxinc` of them, the others wait in the listen queue until one leaves"""
    import signal as _sig, time
    from .. import bus
    from .c10 import Pre
    d = bus.Daemon(limits={"max_incomplete_connections": maxinc, "auth_timeout": 120000})
    cl = []
    try:
        warm = Pre(d.path); warm.poll(0.2); warm.s.close(); time.sleep(0.05)        # (the first accept has happened: everything is set up)
        os.kill(d.proc.pid, _sig.SIGSTOP)
        try:
            cl = [Pre(d.path) for _ in range(nclients)]
        finally:
            os.kill(d.proc.pid, _sig.SIGCONT)
        for _ in range(60):           # (up to a few seconds on a busy machine; more than the limit is wrong at any moment)
            for c in cl: c.poll(0.02)
            if len([c for c in cl if c.accepted() and not c.eof]) >= min(maxinc, nclients):
                break
        for c in cl: c.poll(0.05)
        served = [i for i, c in enumerate(cl) if c.accepted() and not c.eof]
        alive1 = d.alive()
        after = None
        if alive1 and served:
            cl[served[0]].s.close()
            for _ in range(6):
                for i, c in enumerate(cl):
                    if i != served[0]: c.poll(0.05)
            after = [i for i, c in enumerate(cl) if i != served[0] and c.accepted() and not c.eof]
        return {"max": maxinc, "clients": nclients, "served_at_once": len(served), "alive": d.alive(), "served_after_one_left": None if after is None else len(after),
                "stderr": "" if d.alive() else d.stderr()[-600:]}
    finally:
        for c in cl:
            try: c.s.close()
            except OSError: pass
        d.stop()


def run_burst(ctx):
    res = []
    for maxinc, n in ((3, 8), (1, 5), (5, 5)):
        try:
            res.append(burst_case(maxinc, n))
        except (OSError, InfraError) as e:
            res.append({"infra": repr(e)})
    good = [r for r in res if "infra" not in r]
    if len(good) < 2:
        raise InfraError("burst scenarios failed: %s" % res)
    ok = True
    for r in good:
        want = min(r["max"], r["clients"])
        if not r["alive"] or r["served_at_once"] > r["max"] or (r["served_after_one_left"] is not None and r["served_after_one_left"] > r["max"]):
            ok = False
            ctx.violate("max_incomplete_connections=%d: %d clients arrived between two turns of the main loop and %d were served at once (daemon alive: %s) %s" %
                        (r["max"], r["clients"], r["served_at_once"], r["alive"], r["stderr"][-200:]), {"kind": "burst", "case": [r["max"], r["clients"]], "observed": r}, True)
        elif r["served_at_once"] != want:
            ok = False
            ctx.violate("max_incomplete_connections=%d: of %d clients that arrived together only %d are served" % (r["max"], r["clients"], r["served_at_once"]),
                        {"kind": "burst", "case": [r["max"], r["clients"]], "observed": r}, True)
    ctx.oblige("scenario: clients arriving in a burst (daemon held, continued): never more than max_incomplete_connections served at once (%s)" %
               ", ".join("%d of %d, limit %d" % (r["served_at_once"], r["clients"], r["max"]) for r in good), "correspondence", ok)
    ctx.coverage.setdefault("distribution", {})["burst"] = res


def acceptor_script(L):
    """fill the limit, one more waits; a slot is freed by a Hello, by a departure, by a Hello again - each time the waiting client must
    be served and the next one must wait"""
    return ([("arrive",)] * L + [("arrive",), ("complete", 1), ("arrive",), ("gone", L + 1), ("arrive",), ("complete", L + 2),
                                 ("arrive",), ("gone", L + 3), ("gone", L + 4)])


def _acc13_job(args):
    from .c10 import acceptor_case
    try:
        return acceptor_case(*args[:3], scripted=args[3])
    except (OSError, InfraError) as e:
        return {"infra": repr(e)}


def run_acceptor13(ctx):
    """the limit on not-yet-authenticated connections over histories: clients arrive, complete and leave around limits 1, 2 and 3; the
    daemon against Model/Bus/Accept.lean and against the property (never more than the limit served; nobody waits while there is room,
    i.e. capacity freed by a Hello or a departure becomes usable again)"""
    from concurrent.futures import ProcessPoolExecutor
    from .c10 import judge_acceptor
    n = 6 if ctx.quick() else 90
    jobs = [(1, 0, L, acceptor_script(L)) for L in (1, 2, 3)]
    jobs += [(ctx.seed * 1000003 + 877 * j, 24 if ctx.quick() else 60, 1 + j % 3, None) for j in range(n)]
    with ProcessPoolExecutor(9) as ex:
        res = list(ex.map(_acc13_job, jobs))
    good = [r for r in res if "infra" not in r]
    if len(good) < len(res) * 0.8:
        raise InfraError("acceptor harness failed: %s" % [r for r in res if "infra" in r][:2])
    ok = judge_acceptor(ctx, good)
    ctx.oblige("correspondence K:acceptor (%d histories of clients arriving, completing and leaving around max_incomplete_connections 1..3, "
               "3 of them scripted: a slot freed by Hello / by a departure is usable again)" % len(good), "correspondence", ok)
    ctx.coverage.setdefault("distribution", {})["acceptor"] = {"histories": len(good), "limits": sorted(set(r["max"] for r in good)),
                                                                 "steps": sum(len(r["ops"]) for r in good)}
    ctx.coverage["evaluations"] = ctx.coverage.get("evaluations", 0) + sum(len(r["ops"]) for r in good)


def run(ctx):
    check.lean_obligations(ctx, MODULE, THEOREMS)
    n = 40 if ctx.quick() else 800
    L = 80 if ctx.quick() else 140
    for label, lim, kw, pol, salt in [
            ("rules-limit", {"rules": 3}, {"weights": W_RULES, "max_conns": 4, "rule_uniques": False}, busdiff.SESSION, 11),
            # rules naming other connections' unique names: the bus drops them when that connection leaves, and the room is free again
            ("rules-limit-unique-names", {"rules": 3}, {"weights": dict(W_RULES, addmatch=34, close=9, connect=8, hello=8), "max_conns": 4, "rule_uniques": True}, busdiff.SESSION, 16),
            ("names-limit", {"names": 3}, {"weights": W_NAMES, "max_conns": 4}, busdiff.SESSION, 12),
            ("connections-limit", {"completed": 3, "peruser": 2}, {"weights": W_CONNS, "max_conns": 6, "uids": (0, 0, 1000, 2)}, ANYUSER, 13),
            ("replies-limit", {"replies": 2}, {"weights": W_CALLS, "max_conns": 4}, busdiff.SESSION, 14),
            ("message-size", {"maxmsg": 1024}, {"max_conns": 4, "big": (1024, 0.35)}, busdiff.SESSION, 15)]:
        buscheck.run_histories(ctx, n, L, make_oracle(lim), gen_kw=kw, policy=pol, limits=lim, seed_salt=salt, label=label)
    run_burst(ctx)
    run_acceptor13(ctx)


def replay(path):
    import json
    rp = json.load(open(path))["replay"]
    if rp.get("kind") == "acceptor":
        from .c10 import replay_acceptor
        return replay_acceptor(rp)
    if rp.get("kind") == "burst":
        r = burst_case(*rp["case"])
        print("replay C13: %s" % r)
        return 1 if (not r["alive"] or r["served_at_once"] != min(r["max"], r["clients"])) else 0
    lim = json.load(open(path))["replay"].get("limits") or {}
    return buscheck.replay_history(path, make_oracle(lim), "C13")
