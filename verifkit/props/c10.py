"""C10 — one misbehaving client cannot crash, corrupt or stall the bus."""
import json, random, os, re, time, socket, select
from concurrent.futures import ProcessPoolExecutor
from ..common import *
from .. import common, build, lean, check, script, bus, busdiff, busgen, buscheck

MODULE = "Dbus.Props.C10"
THEOREMS = ["hostile_history_is_event_history", "only_validated_messages_reach_the_core", "corrupt_stream_is_silenced",
            "write_contributes_framed_messages_only", "invalid_input_drops_only_its_sender", "bookkeeping_survives_hostile_input",
            "bystander_ping_is_answered", "incomplete_connections_bounded_and_fair"]

BUS_HEX = busdiff.BUS_HEX
fld, hexname = buscheck.fld, buscheck.hexname


def oracle(tr):
    """on the implementation's own trace: whatever reaches a bystander at a step in which a client wrote raw bytes
    carries as sender either the bus or the writer's own unique name (never anything else made of those bytes),
    and a bystander is never disconnected by somebody else's bytes"""
    bad = []
    writers = set()          # unique names of connections that have written raw bytes so far
    for i, op in enumerate(tr.ops):
        if op[0] != "raw" or i >= len(tr.steps):
            continue
        per, closed = tr.steps[i]
        actor = op[1]
        me = tr.unique.get(actor)
        if me is not None:
            writers.add(me)
        for c in closed:
            if c != actor:
                bad.append((None, "step %d: connection %d was closed by the bus while connection %d was writing raw bytes" % (i, c, actor)))
        for cid, lines in per.items():
            if cid == actor:
                continue
            for l in lines:
                snd = hexname(fld(l, "sender"))
                if snd not in ("org.freedesktop.DBus", me) and snd not in writers and not (me is None and snd is None):
                    bad.append((None, "step %d: connection %d received a message with sender %r while connection %d (%s) was writing raw bytes: %s" % (i, cid, snd, actor, me, l[:160])))
    # a client that does not read: once its queue at the bus is over max_outgoing_bytes nothing more is queued for it, whether addressed to it
    # or matched by one of its rules - so nothing that was sent while it was stalled may turn up when it reads again
    stalled_at = {}
    for i, op in enumerate(tr.ops):
        if i >= len(tr.steps):
            break
        per, closed = tr.steps[i]
        if op[0] == "stall":
            stalled_at[op[1]] = i
        for c in closed:
            stalled_at.pop(c, None)
        if op[0] == "unstall" and op[1] in stalled_at:
            since = stalled_at.pop(op[1])
            if any(tr.ops[j][0] == "raw" and tr.ops[j][1] == op[1] for j in range(i)):
                continue        # (a client that has written raw bytes is watched for a hang-up by reading its socket: it is not "not reading")
            late = {}
            for j in range(since + 1, i):
                if tr.ops[j][0] == "send":
                    sent = tr.sent(j)
                    nm = tr.unique.get(tr.ops[j][1])
                    if sent and nm:
                        late[(nm, fld(sent, "ser"))] = j
            for j in range(0, since + 1):        # a sender that uses a serial twice cannot be told apart from itself: such keys say nothing
                if tr.ops[j][0] == "send":
                    sent = tr.sent(j)
                    if sent:
                        late.pop((tr.unique.get(tr.ops[j][1]), fld(sent, "ser")), None)
            for l in per.get(op[1], []):
                key = (hexname(fld(l, "sender")), fld(l, "ser"))
                if key in late and fld(l, "t") in ("1", "4"):
                    bad.append((None, "step %d: connection %d, whose queue was over max_outgoing_bytes since step %d, is handed a message sent at step %d "
                                      "(the bus went on queueing for a client that does not read): %s" % (i, op[1], since, late[key], l[:160])))
    return bad


PROFILES = [
    ("hostile-bytes", {"weights": {"hostile": 16, "preauth": 5, "garbage": 2, "badtype": 2, "forged": 3, "signal": 10, "call": 8, "request": 8, "addmatch": 8,
                                   "close": 3, "connect": 5}, "max_conns": 5}, None),
    ("hostile-bytes-small-limits", {"weights": {"hostile": 14, "preauth": 4, "signal": 10, "call": 8, "request": 8, "addmatch": 8, "close": 3, "connect": 5},
                                    "max_conns": 4, "big": (4096, 0.2)}, {"maxmsg": 4096, "rules": 8, "names": 4}),
    # clients that stop reading while subscribed to broadcasts: what the bus queues for them is bounded (max_outgoing_bytes holds for every copy,
    # addressed or not), and what they find when they read again is what the model says was queued
    ("stalled-subscribers", {"weights": {"stall": 6, "unstall": 5, "signal": 22, "addmatch": 12, "call": 8, "request": 5, "close": 2, "connect": 5,
                                         "reply": 4}, "max_conns": 4, "no_eavesdrop": True}, {"outgoing": 20000}),
]


def corpus():
    """the classics, run first on every change: every header field of every kind of valid message removed in
    turn, and the length words at their limit values — each from a fresh connection, with two bystanders"""
    from ..bus import method_call, signal_msg, reply_msg, BUS, BUS_PATH
    hello = lambda: method_call(1, BUS, BUS_PATH, BUS, "Hello").marshal()
    templates = [
        lambda: method_call(2, BUS, BUS_PATH, BUS, "GetId"),
        lambda: method_call(2, BUS, BUS_PATH, BUS, "RequestName", "su", [b"com.example.A", 0]),
        lambda: method_call(2, ":1.1", "/a", "a.b", "M", "s", [b"x"]),
        lambda: method_call(2, "com.example.Nobody", "/a", "a.b", "M"),
        lambda: signal_msg(2, "/a", "a.b", "Changed", "s", [b"x"]),
        lambda: signal_msg(2, "/a", "a.b", "Changed", "s", [b"x"], dest=":1.1"),
        lambda: reply_msg(2, 7, ":1.1"),
        lambda: reply_msg(2, 7, ":1.1", error="a.E"),
        lambda: reply_msg(2, 7, BUS, error="a.E"),
    ]
    variants = []
    for t in templates:
        m0 = t()
        for i in range(len(m0.fields)):
            m = t(); del m.fields[i]; variants.append(m.marshal())
        for off in (4, 12):
            for v in (0, 1, 0x7fffffff, 0xffffffff, (1 << 27) + 1, (1 << 26) + 1):
                d = bytearray(t().marshal()); d[off:off + 4] = v.to_bytes(4, "little"); variants.append(bytes(d))
        d = t().marshal(); variants.append(d[:len(d) // 2]); variants.append(d + d[:7])
    scripts = []
    per = 14
    for k in range(0, len(variants), per):
        ops = [("connect", 0, 0, False), ("send", 0, hello()), ("connect", 1, 0, False), ("send", 1, hello()),
               ("send", 1, method_call(2, BUS, BUS_PATH, BUS, "AddMatch", "s", [b"type='signal'"]).marshal())]
        cid = 2
        for v in variants[k:k + per]:
            ops += [("connect", cid, 0, False), ("send", cid, hello()), ("raw", cid, v)]
            cid += 1
        scripts.append(ops)
    return scripts


# ---------------------------------------------------------------- incomplete connections

class Pre:
    def __init__(self, path):
        self.s = socket.socket(socket.AF_UNIX, socket.SOCK_STREAM)
        t0 = time.time()
        while True:
            try:
                self.s.connect(path); break
            except ConnectionRefusedError:      # the socket file appears at bind(), a moment before listen()
                if time.time() - t0 > 5:
                    raise
                time.sleep(0.01)
        self.s.sendall(b"\0AUTH\r\n")
        self.buf = b""
        self.eof = False

    def poll(self, quiet=0.12):
        while True:
            r, _, _ = select.select([self.s], [], [], quiet)
            if not r:
                return
            try:
                d = self.s.recv(4096)
            except OSError:
                d = b""
            if not d:
                self.eof = True
                return
            self.buf += d

    def accepted(self):
        return len(self.buf) > 0


def acceptor_case(seed, nops, maxinc, scripted=None):
    """clients arriving, completing (authenticating and saying Hello) and leaving around max_incomplete_connections; `scripted`
    (a list of ("arrive",) / ("complete", k) / ("gone", k)) replaces the random choice of operations"""
    rng = random.Random(seed)
    d = bus.Daemon(limits={"max_incomplete_connections": maxinc, "auth_timeout": 120000})
    ops, impl = [], []
    conns, done = {}, set()
    nxt = 1
    try:
        for step in range(len(scripted) if scripted is not None else nops):
            live = [k for k in conns if k not in done]
            x = rng.random()
            acc = [k for k in live if conns[k].accepted()]
            if scripted is not None:
                what = scripted[step][0]
                k = scripted[step][1] if len(scripted[step]) > 1 else None
            elif not live or (x < 0.5 and len(live) < maxinc + 4):
                what, k = "arrive", None
            elif x < 0.72 and acc:
                what, k = "complete", rng.choice(acc)
            else:
                what, k = "gone", rng.choice(live)
            if what == "arrive":
                k = nxt; nxt += 1
                conns[k] = Pre(d.path); ops.append("acc arrive %d" % k)
            elif what == "complete":
                hello = bus.method_call(1, bus.BUS, bus.BUS_PATH, bus.BUS, "Hello").marshal()
                conns[k].s.sendall(b"AUTH EXTERNAL 30\r\nBEGIN\r\n" + hello)
                done.add(k); ops.append("acc complete %d" % k)
            else:
                conns[k].s.close(); del conns[k]; ops.append("acc gone %d" % k)
            time.sleep(0.03)
            for k, c in conns.items():
                c.poll(0.05)
            for _ in range(40):         # (a waiting client with room left: give a busy machine up to two more seconds before calling it stuck)
                inc = sorted(k for k, c in conns.items() if k not in done and c.accepted() and not c.eof)
                back = sorted(k for k, c in conns.items() if k not in done and not c.accepted() and not c.eof)
                if not (back and len(inc) < maxinc) or not d.alive():
                    break
                for k, c in conns.items():
                    c.poll(0.05)
            impl.append((inc, back))
            if not d.alive():
                break
        return {"seed": seed, "ops": ops, "impl": impl, "alive": d.alive(), "max": maxinc}
    finally:
        for c in conns.values():
            try:
                c.s.close()
            except OSError:
                pass
        d.stop()


def _acc_job(args):
    try:
        return acceptor_case(*args)
    except (OSError, InfraError) as e:
        return {"infra": repr(e)}


def expiry_case(maxinc=3, timeout_ms=2000, flood=False):
    """incomplete connections that stay silent are expired by auth_timeout, after which waiting clients are served - also while
    other clients keep the bus busy without a pause (`flood`: two authenticated clients stream broadcast signals nobody listens
    to, so that every poll() of the main loop returns with something to read)"""
    import threading
    d = bus.Daemon(limits={"max_incomplete_connections": maxinc, "auth_timeout": timeout_ms})
    stop = threading.Event()
    threads, flooders, sent = [], [], [0]
    try:
        if flood:
            def pour(cl):
                blob = b"".join(bus.signal_msg(100 + k, "/flood", "verif.f", "Tick", "s", [b"x" * 200]).marshal() for k in range(40))
                cl.sock.setblocking(True)
                while not stop.is_set():
                    try:
                        cl.sock.sendall(blob); sent[0] += 40
                    except OSError:
                        return
            for _ in range(2):
                cl = bus.Client(d)
                cl.send(bus.method_call(1, bus.BUS, bus.BUS_PATH, bus.BUS, "Hello"))
                cl.recv_until(lambda m: m.mtype in (2, 3) and m.get(5) == 1, 5.0)
                flooders.append(cl)
                th = threading.Thread(target=pour, args=(cl,), daemon=True); th.start(); threads.append(th)
            time.sleep(0.1)
        first = [Pre(d.path) for _ in range(maxinc)]
        for c in first: c.poll(0.1)
        late = Pre(d.path); late.poll(0.15)
        before = late.accepted()
        time.sleep(timeout_ms / 1000.0 * 1.6)
        for c in first: c.poll(0.05)
        late.poll(0.3)
        if flood and not late.accepted():
            late.poll(1.5)          # (a busy bus may take a little longer; it must not take for ever)
            for c in first: c.poll(0.05)
        res = {"first_accepted": [c.accepted() for c in first], "late_accepted_while_full": before,
               "first_closed_after_timeout": [c.eof for c in first], "late_accepted_after_timeout": late.accepted(), "alive": d.alive()}
        if flood:
            res["flood_signals_sent"] = sent[0]
        for c in first + [late]:
            c.s.close()
        return res
    finally:
        stop.set()
        for cl in flooders:
            cl.close()
        for th in threads:
            th.join(2)
        d.stop()


def judge_acceptor(ctx, good):
    """each history of arrivals / completions / departures against the model (Model/Bus/Accept.lean) and against the property:
    never more than the limit served, nobody left waiting while there is room"""
    ok = True
    full_seen = 0
    for r in good:
        lines = ["acc reset %d" % r["max"]] + r["ops"]
        outs, _ = script.run_model("\n".join(lines) + "\n")
        replay = {"kind": "acceptor", "max_incomplete_connections": r["max"], "ops": r["ops"], "impl": r["impl"]}
        if not r["alive"]:
            ok = False
            ctx.violate("dbus-daemon died while clients were connecting and leaving before authentication", replay, True); continue
        for i, ((inc, back), m) in enumerate(zip(r["impl"], outs[1:])):
            minc = sorted(int(x) for x in fld(m, "inc").split(",")) if fld(m, "inc") != "-" else []
            mback = sorted(int(x) for x in fld(m, "back").split(",")) if fld(m, "back") != "-" else []
            if mback: full_seen += 1
            # the bus never serves more than its limit; a client waits only while the limit is reached (the property)
            if len(inc) > r["max"]:
                ok = False
                ctx.violate("%d unauthenticated connections are being served, the limit is %d" % (len(inc), r["max"]), dict(replay, step=i), True); break
            if back and len(inc) < r["max"]:
                ok = False
                ctx.violate("after '%s' client(s) %s are left waiting although only %d of %d incomplete connections exist: the bus has stopped accepting" %
                            (r["ops"][i], back, len(inc), r["max"]), dict(replay, step=i), True); break
            if (inc, back) != (minc, mback):
                ok = False
                ctx.violate("incomplete-connection bookkeeping: daemon serves %s / leaves waiting %s, model %s / %s after '%s'" % (inc, back, minc, mback, r["ops"][i]),
                            dict(replay, step=i), False); break
    return ok


def replay_acceptor(rp):
    """re-runs a recorded history of arrivals / completions / departures on the current tree"""
    scripted = []
    for o in rp["ops"]:
        w = o.split()
        scripted.append(("arrive",) if w[1] == "arrive" else (w[1], int(w[2])))
    r = acceptor_case(1, 0, rp["max_incomplete_connections"], scripted=scripted)
    bad = not r["alive"]
    for (inc, back), op in zip(r["impl"], r["ops"]):
        print("replay: after '%s' served %s waiting %s" % (op, inc, back))
        if len(inc) > r["max"] or (back and len(inc) < r["max"]):
            bad = True
    return 1 if bad else 0


def run_acceptor(ctx):
    n = 10 if ctx.quick() else 120
    jobs = [(ctx.seed * 1000003 + 613 * j, 28 if ctx.quick() else 60, 1 + j % 4) for j in range(n)]
    with ProcessPoolExecutor(10) as ex:
        res = list(ex.map(_acc_job, jobs))
    good = [r for r in res if "infra" not in r]
    if len(good) < len(res) * 0.8:
        raise InfraError("acceptor harness failed: %s" % [r for r in res if "infra" in r][:2])
    ok = judge_acceptor(ctx, good)
    ctx.oblige("correspondence K:acceptor (%d histories of clients arriving, completing and leaving around max_incomplete_connections)" % len(good),
               "correspondence", ok)
    ex = expiry_case()
    eok = all(ex["first_accepted"]) and not ex["late_accepted_while_full"] and all(ex["first_closed_after_timeout"]) and ex["late_accepted_after_timeout"] and ex["alive"]
    if not eok:
        ctx.violate("silent unauthenticated connections were not expired by auth_timeout, or a waiting client was not served afterwards: %s" % ex,
                    {"kind": "expiry", "observed": ex}, True)
    ctx.oblige("scenario: auth_timeout expires silent incomplete connections and the waiting client is then served", "correspondence", eok)
    fx = expiry_case(flood=True)
    fok = all(fx["first_accepted"]) and not fx["late_accepted_while_full"] and all(fx["first_closed_after_timeout"]) and fx["late_accepted_after_timeout"] and fx["alive"]
    if not fok:
        ctx.violate("while two clients flooded the bus with signals, silent unauthenticated connections were not expired by auth_timeout, or a waiting "
                    "client was not served afterwards (the bus's timers must run however busy its sockets are): %s" % fx, {"kind": "expiry-under-flood", "observed": fx}, True)
    ctx.oblige("scenario: the same while two clients flood the bus (%d signals during the scenario): timers still fire" % fx.get("flood_signals_sent", 0),
               "correspondence", fok)
    ctx.coverage.setdefault("distribution", {})["expiry_under_flood"] = fx
    ctx.coverage.setdefault("distribution", {})["acceptor"] = {"histories": len(good), "steps_with_clients_waiting": sum(1 for r in good for (_i, b) in r["impl"] if b), "expiry": ex}


SPIN_KINDS = ["reader-half-closed", "reader-half-closed-mid-message", "half-closed-before-auth", "writer-half-closed-with-backlog",
              "stalled-reader-with-backlog"]


def _cpu_seconds(pid):
    with open("/proc/%d/stat" % pid) as f:
        t = f.read().rsplit(")", 1)[1].split()
    return (int(t[11]) + int(t[12])) / os.sysconf("SC_CLK_TCK")


def spin_case(kind, quiet=1.0):
    """a client does something odd with its socket and falls silent; for `quiet` seconds nothing at all happens on the bus: the daemon
    must sit in poll() (CPU time ~ 0), and a bystander's call afterwards must be answered"""
    import socket as _so
    d = bus.Daemon(limits={"max_outgoing_bytes": 200000})
    try:
        o = bus.Client(d); bus.hello(o)
        pid = d.proc.pid
        c0 = _cpu_seconds(pid); time.sleep(0.5); idle = _cpu_seconds(pid) - c0
        if kind == "half-closed-before-auth":
            s = _so.socket(_so.AF_UNIX, _so.SOCK_STREAM); s.connect(d.path)
            s.shutdown(_so.SHUT_RD)
            s.sendall(b"\0AUTH EXTERNAL " + str(os.getuid()).encode().hex().encode() + b"\r\n")
            keep = s
        else:
            c = bus.Client(d); bus.hello(c)
            keep = c
            big = bus.method_call(50, bus.BUS, bus.BUS_PATH, bus.BUS, "NameHasOwner", "s", [b"a.b" + b"c" * 200])
            if kind == "reader-half-closed":
                c.sock.shutdown(_so.SHUT_RD)
                c.send(bus.method_call(c.next_serial(), bus.BUS, bus.BUS_PATH, bus.BUS, "GetId"))
            elif kind == "reader-half-closed-mid-message":
                c.sock.shutdown(_so.SHUT_RD)
                blob = bus.method_call(c.next_serial(), bus.BUS, bus.BUS_PATH, bus.BUS, "GetId").marshal() + big.marshal()
                c.sock.sendall(blob[:len(blob) - 7])
            elif kind == "writer-half-closed-with-backlog":
                for k in range(300):
                    c.send(bus.method_call(c.next_serial(), bus.BUS, bus.BUS_PATH, bus.BUS, "ListNames"))
                c.sock.shutdown(_so.SHUT_WR)
            elif kind == "stalled-reader-with-backlog":
                c.sock.setblocking(True)
                try:
                    c.sock.settimeout(2.0)
                    for k in range(3000):
                        c.sock.sendall(bus.method_call(1000 + k, bus.BUS, bus.BUS_PATH, bus.BUS, "ListNames").marshal())
                except OSError:
                    pass
        time.sleep(0.3)
        c0 = _cpu_seconds(pid); w0 = time.time(); time.sleep(quiet); used = _cpu_seconds(pid) - c0; wall = time.time() - w0
        r, _ = bus.bus_call(o, "GetId", timeout=10.0)
        served = r is not None and r.mtype == 2
        try:
            keep.close()
        except Exception:
            pass
        return {"kind": kind, "cpu_idle_before": round(idle, 3), "cpu_during_quiet_second": round(used, 3), "wall": round(wall, 2),
                "bystander_served": served, "alive": d.alive()}
    finally:
        d.stop()


def run_spin(ctx):
    res = []
    for k in SPIN_KINDS:
        try:
            res.append(spin_case(k))
        except (OSError, InfraError) as e:
            res.append({"kind": k, "infra": repr(e)})
    good = [r for r in res if "infra" not in r]
    if len(good) < len(res) - 1:
        raise InfraError("spin scenarios failed: %s" % [r for r in res if "infra" in r][:2])
    ok = True
    for r in good:
        # a daemon asleep in poll() uses no CPU at all; one that spins uses all it can get (a loaded machine still gives it a good share)
        if r["cpu_during_quiet_second"] > 0.3 * r["wall"] or not r["bystander_served"] or not r["alive"]:
            ok = False
            ctx.violate("the bus spins (or stops serving) after a client's '%s': %.2f s of CPU in a quiet %.2f s, bystander served: %s" %
                        (r["kind"], r["cpu_during_quiet_second"], r["wall"], r["bystander_served"]), {"kind": "spin", "case": r["kind"], "observed": r}, True)
    ctx.oblige("scenarios: the bus sleeps while nothing happens, whatever a client did to its socket before falling silent (%s)" %
               ", ".join("%s: %.2f s CPU" % (r["kind"], r["cpu_during_quiet_second"]) for r in good), "correspondence", ok)
    ctx.coverage.setdefault("distribution", {})["spin"] = res


def driver_edge_case():
    """unusual but legal requests to the bus driver's less-travelled interfaces (Properties with an empty or foreign interface name, unknown
    and empty property names, Set on read-only properties): every one is answered - with a reply or an error -, the bus lives on and a
    bystander is served. (What the answers say is not modelled: the Properties interface is among the driver methods whose replies are opaque.)"""
    from ..bus import method_call, BUS, BUS_PATH
    PROPS = "org.freedesktop.DBus.Properties"
    d = bus.Daemon()
    try:
        c = bus.Client(d); bus.hello(c)
        o = bus.Client(d); bus.hello(o)
        asked, unanswered = 0, []
        for iface in (b"", b"org.freedesktop.DBus", b"org.freedesktop.DBus.Monitoring", b"org.example.Nope", b"org.freedesktop.DBus.Properties"):
            reqs = [("Get", "ss", [iface, p]) for p in (b"Features", b"Interfaces", b"Nope", b"")] + [("GetAll", "s", [iface]),
                    ("Set", "ssv", [iface, b"Nope", (('b', 's'), b"v")]), ("Set", "ssv", [iface, b"Features", (('b', 'u'), 1)])]
            for member, sig, body in reqs:
                asked += 1
                r, _ = bus.bus_call(c, member, sig, body, timeout=5.0, iface=PROPS)
                if r is None:
                    unanswered.append("%s(%s)" % (member, ", ".join(repr(x) for x in body[:2])))
                    if not d.alive():
                        break
            if not d.alive():
                break
        r, _ = bus.bus_call(o, "GetId", timeout=10.0) if d.alive() else (None, None)
        # libdbus' own argument checks ("arguments to dbus_set_error() were incorrect, assertion ... failed") abort the process unless
        # DBUS_FATAL_WARNINGS=0, as it is for the daemons the harness starts: a tripped check is an assertion failure all the same
        err = d.stderr()
        tripped = [l for l in err.splitlines() if "assertion" in l and "failed" in l or "were incorrect" in l]
        return {"asked": asked, "unanswered": unanswered[:5], "bystander_served": r is not None and r.mtype == 2, "alive": d.alive(),
                "checks_tripped": tripped[:3], "stderr": "" if d.alive() else err[-500:]}
    finally:
        d.stop()


def run_driver_edge(ctx):
    try:
        r = driver_edge_case()
    except (OSError, InfraError) as e:
        raise InfraError("driver-edge scenario failed: %r" % (e,))
    ok = r["alive"] and r["bystander_served"] and not r["unanswered"] and not r["checks_tripped"]
    if not ok:
        ctx.violate("a legal request to the bus driver's Properties interface %s: unanswered %s, bystander served: %s %s %s" %
                    ("kills the bus" if not r["alive"] else "trips a libdbus check (fatal by default)" if r["checks_tripped"] else "is not answered",
                     r["unanswered"], r["bystander_served"], r["checks_tripped"][:1], r["stderr"][-200:]),
                    {"kind": "driver-edge", "observed": r}, True)
    ctx.oblige("scenario: %d unusual but legal Properties requests to the driver are all answered, the bus lives on" % r["asked"], "correspondence", ok)
    ctx.coverage.setdefault("distribution", {})["driver_edge"] = r


def stalled_scripts():
    """a subscriber that stops reading: once its queue is over max_outgoing_bytes the bus queues nothing more for it - broadcast copies
    included -, keeps serving everybody else, and hands it exactly what was queued before when it reads again"""
    from ..bus import method_call, signal_msg, BUS, BUS_PATH
    hello = lambda: method_call(1, BUS, BUS_PATH, BUS, "Hello").marshal()
    add = lambda s, r: method_call(s, BUS, BUS_PATH, BUS, "AddMatch", "s", [r]).marshal()
    base = [("connect", 0, 0, False), ("send", 0, hello())] + [x for c in (1, 2, 3) for x in (("connect", c, 0, False), ("send", c, hello()))]
    out = []
    out.append(base + [("send", 1, add(2, b"type='signal',interface='x.y'")), ("stall", 1)] +
               [("send", 2, signal_msg(10 + k, "/a", "x.y", "Tick", "s", [b"n%d" % k]).marshal()) for k in range(6)] +
               [("unstall", 1), ("send", 3, signal_msg(30, "/a", "x.y", "After", "s", [b"z"]).marshal())])
    out.append(base + [("send", 1, add(2, b"type='signal'")), ("send", 3, add(2, b"type='signal'")), ("stall", 1),
                       ("send", 2, signal_msg(10, "/a", "x.y", "One", "s", [b"a"]).marshal()),
                       ("send", 2, method_call(11, ":1.1", "/a", "x.y", "Call", "s", [b"b"]).marshal()),
                       ("send", 2, signal_msg(12, "/a", "x.y", "Two", "s", [b"c"], dest=":1.1").marshal()),
                       ("stall", 3), ("send", 2, signal_msg(13, "/a", "x.y", "Three", "s", [b"d"]).marshal()),
                       ("unstall", 3), ("send", 2, signal_msg(14, "/a", "x.y", "Four", "s", [b"e"]).marshal()), ("unstall", 1),
                       ("send", 2, signal_msg(15, "/a", "x.y", "Five", "s", [b"f"]).marshal())])
    return out


def run(ctx):
    check.lean_obligations(ctx, MODULE, THEOREMS)
    nh = 10 if ctx.quick() else 90
    nops = 70 if ctx.quick() else 160
    buscheck.run_histories(ctx, 0, 0, oracle, seed_salt=99, label="corpus-of-classics", scripts=corpus())
    for i, (label, kw, limits) in enumerate(PROFILES):
        good = buscheck.run_histories(ctx, nh, nops, oracle, gen_kw=kw, limits=limits, seed_salt=100 + i, label=label)
    buscheck.run_histories(ctx, 0, 0, oracle, limits={"outgoing": 20000}, seed_salt=98, label="stalled-subscriber-scenarios", scripts=stalled_scripts())
    run_driver_edge(ctx)
    run_acceptor(ctx)
    run_spin(ctx)
    ctx.coverage["rule"] = ("histories of ordinary bus traffic interleaved with hostile clients: mutated messages (fields dropped/duplicated/retyped/unknown/invalid, "
                            "length words and fixed header bytes at limit values, bit flips), truncated messages left half-sent, garbage, valid+invalid+valid in one write, "
                            "floods of 50-600 messages in one write, messages split across writes with other traffic in between, abrupt close after any prefix, and "
                            "unauthenticated sockets (nothing, no NUL byte, partial AUTH, rejected seven times, 20 kB line, BEGIN then garbage, never Hello); after every "
                            "operation every other connection must get its Peer.Ping answered (10 s watchdog) and every delivery and every close is compared with the model")
    ctx.assumptions += ["crash, memory-safety and assertion failures are observations of the ASan/UBSan build of the working tree under these histories, not theorems",
                        "'bounded time' is a 10 s watchdog on every bystander's Ping after every operation; the model has no clock",
                        "what a client that wrote raw bytes still receives is not compared (it is never synchronised with again); that it is or is not "
                        "disconnected is asked of the bus (NameHasOwner on its unique name)"]


def replay(path):
    data = json.load(open(path))
    rp = data["replay"]
    if rp.get("kind") == "bus-history":
        rc = buscheck.replay_history(path, oracle, "C10")
    elif rp.get("kind") == "driver-edge":
        r = driver_edge_case()
        print("replay C10: %s" % r)
        return 0 if (r["alive"] and r["bystander_served"] and not r["unanswered"] and not r["checks_tripped"]) else 1
    elif rp.get("kind") == "spin":
        r = spin_case(rp["case"])
        bad = r["cpu_during_quiet_second"] > 0.3 * r["wall"] or not r["bystander_served"] or not r["alive"]
        print("replay C10: %s" % r)
        return 1 if bad else 0
    elif rp.get("kind") in ("expiry", "expiry-under-flood"):
        fx = expiry_case(flood=rp["kind"] == "expiry-under-flood")
        ok = all(fx["first_accepted"]) and not fx["late_accepted_while_full"] and all(fx["first_closed_after_timeout"]) and fx["late_accepted_after_timeout"] and fx["alive"]
        print("replay C10 (%s): %s" % (rp["kind"], fx)); rc = 0 if ok else 1
    elif rp.get("kind") == "acceptor":
        rc = replay_acceptor(rp)
    else:
        print("replay: %s" % data.get("what")); rc = 1
    if rc:
        print("VIOLATION property=C10 replay=%s" % path)
    return rc
