"""C01 — untrusted bytes become a message only if spec-valid, and always safely."""
import json, random, os, hashlib
from concurrent.futures import ThreadPoolExecutor
from ..common import *
from .. import common, build, lean, check, script, wiregen

MODULE = "Dbus.Props.C01"
THEOREMS = ["decode_accepts_only_encodings", "decode_encode", "decodeFields_iff", "validate_prefix_stable", "validate_prefix_reflects",
            "demarshal_accepts_iff_spec", "accessors_eq_independent_decoding", "message_size_limit"]
TABLES = ["typeTab_table", "limits_table"]


def byte_mutations(b, rng, positions=None):
    out = []
    n = len(b)
    pos = range(n) if positions is None else positions
    for i in pos:
        o = b[i]
        for v in {o ^ 1, o ^ 0x80, 0, 0xff, (o + 1) & 0xff}:
            if v != o:
                out.append(("byte@%d=%02x" % (i, v), b[:i] + bytes([v]) + b[i + 1:]))
    return out


def word_mutations(b, le):
    out = []
    for i in range(0, len(b) - 3, 4):
        for v in (0xffffffff, 1 << 26, (1 << 26) + 1, 1 << 27, (1 << 27) + 1, len(b), len(b) - i - 4):
            w = (v & 0xffffffff).to_bytes(4, 'little' if le else 'big')
            if w != b[i:i + 4]:
                out.append(("word@%d=%x" % (i, v), b[:i] + w + b[i + 4:]))
    return out


def struct_mutations(m, rng):
    """field-level corruptions re-marshalled by the Python marshaller"""
    out = []
    f = list(m.fields)
    if f:
        out.append(("dup-field", m.marshal(fields_override=f + [rng.choice(f)])))
        k = rng.randrange(len(f))
        out.append(("drop-field-%d" % f[k][0], m.marshal(fields_override=f[:k] + f[k + 1:])))
        c, t, v = f[k]
        out.append(("code0", m.marshal(fields_override=f[:k] + [(0, t, v)] + f[k + 1:])))
        out.append(("unknown-code", m.marshal(fields_override=f[:k] + [(rng.randint(11, 255), t, v)] + f[k + 1:])))
        wt = rng.choice([('b', 'u'), ('b', 's'), ('b', 'o'), ('b', 'g'), ('b', 'y'), ('a', ('b', 'y')), ('v',)])
        wv = wiregen.gen_val(rng, wt, 1)
        out.append(("wrong-type-%d-%s" % (c, wiregen.sig(wt)), m.marshal(fields_override=f[:k] + [(c, wt, wv)] + f[k + 1:])))
    out.append(("unix-fds-1", m.marshal(fields_override=f + [(9, ('b', 'u'), 1)])))
    out.append(("unix-fds-0", m.marshal(fields_override=f + [(9, ('b', 'u'), 0)])))
    out.append(("reply-serial-0", m.marshal(fields_override=[x for x in f if x[0] != 5] + [(5, ('b', 'u'), 0)])))
    for name, code, val in (("local-iface", 2, b"org.freedesktop.DBus.Local"), ("local-iface-ext", 2, b"org.freedesktop.DBus.LocalFoo"),
                            ("local-path", 1, b"/org/freedesktop/DBus/Local"), ("local-path-ext", 1, b"/org/freedesktop/DBus/Local/x"),
                            ("local-path-ext2", 1, b"/org/freedesktop/DBus/Localx"), ("bad-member", 3, b"a.b"), ("bad-iface", 2, b"nodots"),
                            ("dest-unique-lax", 6, b":"), ("dest-unique", 6, b":1.5"), ("empty-dest", 6, b"")):
        ty = ('b', 'o' if code == 1 else 's')
        out.append((name, m.marshal(fields_override=[x for x in f if x[0] != code] + [(code, ty, val)])))
    body = m.body_bytes()
    out.append(("body-len+1", m.marshal(body_len=len(body) + 1)))
    if body:
        out.append(("body-len-1", m.marshal(body_len=len(body) - 1)))
    return out


def special_bodies(rng):
    """targeted shapes: fixed-size arrays with ragged byte lengths, deep nesting, empty arrays of every alignment"""
    out = []
    for le in (True, False):
        for code in "nqiuxtdbh":
            size = wiregen.FIXED[code]
            for nbytes in (0, size, size + 1, 2 * size - 1, 2 * size, 3 * size + size // 2):
                m = wiregen.Message(); m.le = le; m.mtype = 4
                m.fields = [(1, ('b', 'o'), b"/a"), (2, ('b', 's'), b"a.b"), (3, ('b', 's'), b"M"), (8, ('b', 'g'), b"a" + code.encode())]
                hdr = m.marshal()
                body = bytearray(); wiregen.put_uint(body, nbytes, 4, le); wiregen.pad(body, size); body += bytes(1 if code == 'b' and i % 4 == (0 if le else 3) else 0 for i in range(nbytes))
                h = bytearray(hdr); h[4:8] = len(body).to_bytes(4, 'little' if le else 'big')
                out.append(("ragged-a%s-%d" % (code, nbytes), bytes(h) + bytes(body)))
        # nesting through variants: v(v(v(...y))) depth k
        for k in (1, 30, 62, 63, 64, 65, 66):
            ty = ('b', 'y'); val = 7
            for _ in range(k):
                val = (ty, val); ty = ('v',)
            m = wiregen.Message(); m.le = le; m.mtype = 2
            m.fields = [(5, ('b', 'u'), 9), (8, ('b', 'g'), b"v")] if k >= 1 else []
            m.body_types = [ty]; m.body = [val]
            out.append(("variant-depth-%d" % k, m.marshal()))
        # the value-nesting limit counts every level, whatever it is made of: chains of variants with a container (array of
        # strings, struct, dict, array of arrays) under the innermost one, around the limit of 64
        for k in (60, 61, 62, 63, 64, 65):
            for name, ity, ival in (("as", ('a', ('b', 's')), [b"x"]), ("struct", ('r', [('b', 's')]), [b"x"]),
                                    ("dict", ('e', 's', ('b', 's')), [(b"k", b"v")]), ("aas", ('a', ('a', ('b', 's'))), [[b"x"]]),
                                    ("empty-as", ('a', ('b', 's')), []), ("a(ai)", ('a', ('r', [('a', ('b', 'i'))])), [[[1, 2]]])):
                ty, val = ity, ival
                for _ in range(k):
                    val = (ty, val); ty = ('v',)
                m = wiregen.Message(); m.le = le; m.mtype = 2
                m.fields = [(5, ('b', 'u'), 9), (8, ('b', 'g'), b"v")]
                m.body_types = [ty]; m.body = [val]
                out.append(("variant-chain-%d-over-%s" % (k, name), m.marshal()))
        # headers far larger than usual: known fields that lie beyond 32 KiB and 64 KiB of header (an unknown field, or a very long
        # path, in front of them), and a field given twice with 64 KiB in between
        for name, front, both in (("unknown-ay-65540", [(200, ('a', ('b', 'y')), [0x2f, 0x65] * 32770)], False),
                                  ("unknown-s-33000", [(201, ('b', 's'), b"/evil\0" * 5500)], True), ("long-path-40000", [(1, ('b', 'o'), b"/" + b"p" * 40000)], False)):
            if not both and not le:
                continue        # (the model takes seconds over a 64 KiB header: the largest ones in one byte order only)
            m = wiregen.Message(); m.le = le; m.mtype = 1; m.serial = 7
            m.fields = list(front) + ([] if front[0][0] == 1 else [(1, ('b', 'o'), b"/x")]) + [(3, ('b', 's'), b"Ping"), (2, ('b', 's'), b"a.b")]
            out.append(("big-header-" + name, m.marshal()))
            if both:
                m2 = wiregen.Message(); m2.le = le; m2.mtype = 1; m2.serial = 8
                m2.fields = [(3, ('b', 's'), b"First")] + list(front) + [(1, ('b', 'o'), b"/x"), (3, ('b', 's'), b"Second")]
                out.append(("big-header-duplicate-member-" + name, m2.marshal()))
        # structs 31..33 deep, arrays 31..33 deep (signature limits), mixed 32+32
        for k in (31, 32, 33):
            ty = ('b', 'y'); val = 1
            for _ in range(k):
                ty = ('r', [ty]); val = [val]
            m = wiregen.Message(); m.le = le; m.mtype = 2
            m.body_types = [ty]; m.body = [val]
            m.fields = [(5, ('b', 'u'), 9), (8, ('b', 'g'), wiregen.sig(ty).encode())]
            out.append(("struct-depth-%d" % k, m.marshal()))
            ty = ('b', 'y'); val = 1
            for _ in range(k):
                ty = ('a', ty); val = [val]
            m = wiregen.Message(); m.le = le; m.mtype = 2
            m.body_types = [ty]; m.body = [val]
            m.fields = [(5, ('b', 'u'), 9), (8, ('b', 'g'), wiregen.sig(ty).encode())]
            out.append(("array-depth-%d" % k, m.marshal()))
        for ka, ks in ((32, 32), (32, 31), (31, 32)):
            ty = ('b', 'y'); val = 1
            for _ in range(ks):
                ty = ('r', [ty]); val = [val]
            for _ in range(ka):
                ty = ('a', ty); val = [val]
            m = wiregen.Message(); m.le = le; m.mtype = 2
            m.body_types = [ty]; m.body = [val]
            m.fields = [(5, ('b', 'u'), 9), (8, ('b', 'g'), wiregen.sig(ty).encode())]
            out.append(("mixed-depth-%d-%d" % (ka, ks), m.marshal()))
        # the signature grammar where the message parser meets it: as the SIGNATURE field (with an empty array as body), as a `g`
        # value in the body and as the type of a variant - dict entries with every kind of key, entries outside arrays, wrong arity
        for sg in (b"a{vs}", b"a{ya{vu}}", b"a{sv}", b"a{(s)s}", b"a{ass}", b"a{s}", b"a{sss}", b"{ss}", b"a{ss}", b"a{}", b"a(a{vs})",
                   b"a{sa{sv}}", b"a{hs}", b"a{gs}", b"a{os}", b"a{ds}", b"a{bs}", b"aa{ys}", b"a{s(vv)}", b"a{a{ss}s}", b"a{{ss}s}", b"a(s{ss})",
                   b"a{vv}", b"a(v)", b"a{yv}", b"a{s", b"as}", b"a{s)", b"a(s}"):
            m = wiregen.Message(); m.le = le; m.mtype = 2
            m.fields = [(5, ('b', 'u'), 9), (8, ('b', 'g'), b"g")]
            m.body_types = [('b', 'g')]; m.body = [sg]
            out.append(("sig-as-value-%s" % sg.decode(), m.marshal()))
            if sg[:2] in (b"a{", b"a("):
                m = wiregen.Message(); m.le = le; m.mtype = 2
                m.fields = [(5, ('b', 'u'), 9), (8, ('b', 'g'), sg)]
                h = bytearray(m.marshal()); h[4:8] = (8).to_bytes(4, 'little' if le else 'big')
                out.append(("sig-as-field-%s" % sg.decode(), bytes(h) + bytes(8)))
                m = wiregen.Message(); m.le = le; m.mtype = 2
                m.fields = [(5, ('b', 'u'), 9), (8, ('b', 'g'), b"v")]
                body = bytearray([len(sg)]) + sg + b"\0"
                while len(body) % 4: body.append(0)
                body += bytes(4)
                while len(body) % 8: body.append(0)
                h = bytearray(m.marshal()); h[4:8] = len(body).to_bytes(4, 'little' if le else 'big')
                out.append(("sig-as-variant-type-%s" % sg.decode(), bytes(h) + bytes(body)))
        # a variant whose contained type has a long signature (length byte at and beyond 128), with values after it
        for nmem in (126, 127, 128, 253):
            m = wiregen.Message(); m.le = le; m.mtype = 2
            sty = ('r', [('b', 'i')] * nmem)
            m.body_types = [('b', 's'), ('v',), ('b', 'i'), ('b', 's')]; m.body = [b"A" * 300, (sty, [1000003] * nmem), 7, b"tail"]
            m.fields = [(5, ('b', 'u'), 9), (8, ('b', 'g'), b"svis")]
            out.append(("variant-with-%d-byte-signature" % (nmem + 2), m.marshal()))
        # names at 255/256
        for n in (254, 255, 256):
            m = wiregen.Message(); m.le = le; m.mtype = 1
            m.fields = [(1, ('b', 'o'), b"/a"), (3, ('b', 's'), b"M" * n)]
            out.append(("member-len-%d" % n, m.marshal()))
            m = wiregen.Message(); m.le = le; m.mtype = 1
            m.fields = [(1, ('b', 'o'), b"/a"), (3, ('b', 's'), b"M"), (2, ('b', 's'), b"a." + b"b" * (n - 2))]
            out.append(("iface-len-%d" % n, m.marshal()))
        for n in (254, 255):
            m = wiregen.Message(); m.le = le; m.mtype = 2
            m.body_types = [('b', 'y')] * n; m.body = [3] * n
            m.fields = [(5, ('b', 'u'), 9), (8, ('b', 'g'), b"y" * n)]
            out.append(("sig-len-%d" % n, m.marshal()))
    return out


def chunks(lst, n):
    k = max(1, (len(lst) + n - 1) // n)
    return [lst[i:i + k] for i in range(0, len(lst), k)]


def run(ctx):
    check.lean_obligations(ctx, MODULE, THEOREMS, TABLES)
    exe = build.cc("h_wire", ["harness/lib/h_wire.c"])
    rng = random.Random(ctx.seed * 104729 + 1)
    nbase = 120 if ctx.quick() else 1500
    cases = []          # (label, bytes)
    valid_expected = {}
    dist = {"valid": 0, "byte": 0, "word": 0, "struct": 0, "trunc": 0, "trailing": 0, "special": 0, "garbage": 0}
    corpus = os.path.join(ROOT, "corpus", "C01")
    if os.path.isdir(corpus):
        for f in sorted(os.listdir(corpus)):
            cases.append(("corpus:" + f, bytes.fromhex(json.load(open(os.path.join(corpus, f)))["hex"])))
    for lab, b in special_bodies(rng):
        cases.append(("special:" + lab, b)); dist["special"] += 1
    for i in range(nbase):
        m = wiregen.gen_message(rng, max_body_types=3)
        b = m.marshal()
        if len(b) > 700 and ctx.quick():
            continue
        valid_expected[len(cases)] = m.expected_dump()
        cases.append(("valid#%d" % i, b)); dist["valid"] += 1
        full = ctx.tier == "thorough" or i % 4 == 0
        muts = byte_mutations(b, rng, None if full else sorted(rng.sample(range(len(b)), min(len(b), 40))))
        for lab, x in muts:
            cases.append(("valid#%d:%s" % (i, lab), x))
        dist["byte"] += len(muts)
        if full:
            wm = word_mutations(b, m.le)
            for lab, x in wm:
                cases.append(("valid#%d:%s" % (i, lab), x))
            dist["word"] += len(wm)
            for k in range(len(b)):
                cases.append(("valid#%d:trunc@%d" % (i, k), b[:k]))
            dist["trunc"] += len(b)
        sm = struct_mutations(m, rng)
        for lab, x in sm:
            cases.append(("valid#%d:%s" % (i, lab), x))
        dist["struct"] += len(sm)
        for lab, tail in (("1", b"\0"), ("15", bytes(rng.getrandbits(8) for _ in range(15))), ("16z", bytes(16)),
                          ("16r", bytes(rng.getrandbits(8) for _ in range(16))), ("copy", b), ("copy-corrupt", b[:3] + b"\x07" + b[4:])):
            cases.append(("valid#%d:trailing-%s" % (i, lab), b + tail))
        dist["trailing"] += 6
    for i in range(300 if ctx.quick() else 5000):
        n = rng.choice([0, 1, 15, 16, 17, 24, 32, 64, 100])
        g = bytes(rng.getrandbits(8) for _ in range(n))
        if n >= 16 and rng.random() < 0.7:
            le = rng.random() < 0.5
            fal = rng.choice([0, 0, 8, n - 16, 3])
            g = (b'l' if le else b'B') + bytes([rng.randint(0, 5), rng.getrandbits(8), 1]) + \
                rng.choice([0, n - 16, 4]).to_bytes(4, 'little' if le else 'big') + (1).to_bytes(4, 'little' if le else 'big') + \
                max(0, fal).to_bytes(4, 'little' if le else 'big') + g[16:]
        cases.append(("garbage#%d" % i, g)); dist["garbage"] += 1
    ops = ["wire demarshal " + (b.hex() or "-") for _, b in cases]
    parts = chunks(list(range(len(ops))), NCPU)
    with ThreadPoolExecutor(max_workers=NCPU) as ex:
        results = list(ex.map(lambda idx: script.diff([exe], [ops[i] for i in idx]), parts))
    ok = True
    accepted = rejected = nontrivial = 0
    seen = set()
    for idx, res in zip(parts, results):
        if res["rc"] != 0 or res["n_impl"] != len(idx) or res["n_model"] != len(idx):
            ok = False
            k = min(res["n_impl"], len(idx) - 1)
            lab, b = cases[idx[k]]
            ctx.violate("message parser aborted (sanitizer / assertion / crash) on input '%s'" % lab,
                        {"label": lab, "hex": b.hex(), "stderr": res["stderr"][-2500:]}, True)
            continue
        for (j, op, impl, model, spec) in res["rows"]:
            ok = False
            lab, b = cases[idx[j]]
            kind = ("accepted but not spec-valid" if impl.startswith("ok") and not model.startswith("ok") else
                    "rejected though spec-valid" if model.startswith("ok") and not impl.startswith("ok") else
                    "accessor values differ from independent decoding")
            ctx.violate("parser %s: '%s' (impl '%s' vs model '%s')" % (kind, lab, impl[:80], model[:80]),
                        {"label": lab, "hex": b.hex(), "impl": impl, "model": model}, True)
    # expected dumps of the valid stream (three-way: generator, implementation, model)
    # and coverage counts come from a second, cheap pass over the model output only
    script_all = "\n".join(ops) + "\n"
    model_lines, _ = script.run_model(script_all)
    for i, line in enumerate(model_lines):
        h = hashlib.sha1(cases[i][1]).digest()
        if line.startswith("ok"):
            accepted += 1
            if "[" in line and h not in seen:
                nontrivial += 1
        else:
            rejected += 1
            if len(cases[i][1]) >= 16 and h not in seen and (":byte@" in cases[i][0] or ":word@" in cases[i][0] or ":" in cases[i][0]):
                nontrivial += 1
        seen.add(h)
        if i in valid_expected and line != valid_expected[i]:
            ok = False
            ctx.violate("generator's own marshalling disagrees with the model on a valid message (harness defect or model defect)",
                        {"label": cases[i][0], "hex": cases[i][1].hex(), "expected": valid_expected[i], "model": line}, True)
    ctx.oblige("correspondence K:wire/demarshal (valid stream, single-site corruptions, boundaries, garbage)", "correspondence", ok)
    ctx.coverage.update({
        "evaluations": len(cases), "distinct_nontrivial": nontrivial,
        "rule": "type-directed valid messages (all type codes, nesting, empty arrays, variants of containers, dict entries, unknown fields, both byte orders); "
                "for each: every single-byte corruption (5 variants per site), every 4-aligned length-word replacement, every truncation, trailing bytes, "
                "field-level corruptions (dup/missing/code 0/unknown/wrong type/fds/local names); boundary builders (ragged fixed arrays, depth 31..33 / 62..66, "
                "255/256-byte names, 254/255-byte signatures); random bytes, partly behind a plausible fixed header. non-trivial = distinct inputs that are "
                "accepted with a container value, or rejected corruptions of at least 16 bytes",
        "samples": [{"label": cases[i][0], "hex": cases[i][1].hex()[:160], "model": model_lines[i][:160]} for i in (0, len(cases) // 3, len(cases) // 2, len(cases) - 1)],
        "distribution": dict(dist, accepted=accepted, rejected=rejected),
        "traces_validated_against_impl": len(cases)})
    ctx.assumptions += ["messages larger than a few KiB (the 2^26 / 2^27 limits themselves) are covered by theorems and the loader max-size tests, not by the differential run",
                        "UNIX_FD values are compared as 'h:*' (the public iterator cannot show the raw index without descriptors)"]


def replay(path):
    data = json.load(open(path))
    hx = data["replay"].get("hex")
    if hx is None:
        print("replay: no input recorded: %s" % data["what"]); return 1
    exe = build.cc("h_wire", ["harness/lib/h_wire.c"]); lean.build_driver()
    res = script.diff([exe], ["wire demarshal " + (hx or "-")])
    for r in res["rows"]:
        print("impl=%s\nmodel=%s" % (r[2], r[3]))
    bad = res["rows"] or res["rc"] != 0
    if res["rc"] != 0:
        print(res["stderr"][-1500:])
    if bad:
        print("VIOLATION property=C01 replay=%s" % path)
    return 1 if bad else 0
