"""C03 — the bus stamps the true sender; unique names are unique for ever."""
import json
from ..common import *
from .. import check, buscheck, busdiff
from ..buscheck import fld, hexname

MODULE = "Dbus.Props.C03"
THEOREMS = ["delivered_sender_and_fields", "loader_guarantees_hypothesis", "disconnect_outputs_bus_made", "f14_witness",
            "hello_twice_refused", "unique_names", "names_injective", "name_is_for_life"]
BUS = "org.freedesktop.DBus"
WEIGHTS = {"forged": 26, "hello": 10, "connect": 6, "close": 4, "signal": 10, "call": 10, "addmatch": 9, "removematch": 2,
           "nodest": 5, "reply": 6, "badtype": 3, "driver_edge": 3, "request": 5, "release": 2, "query": 2, "garbage": 1}


def oracle(tr):
    """C03 read off the implementation's trace alone."""
    bad = []
    names = {}          # cid -> unique name, learnt from the reply to its first Hello
    ever = {}           # name -> cid it was given to
    for i, (per, closed) in enumerate(tr.steps):
        op = tr.ops[i]
        actor = op[1] if op[0] == "send" else None
        sent = tr.sent(i) if op[0] == "send" else None
        before = names.get(actor)
        # a Hello reply to the actor names it
        if sent and hexname(fld(sent, "member")) == "Hello" and hexname(fld(sent, "dest")) == BUS and fld(sent, "t") == "1":
            for l in per.get(actor, []):
                if fld(l, "t") == "2" and hexname(fld(l, "sender")) == BUS and fld(l, "rs") == fld(sent, "ser") and fld(l, "sig") == "73":
                    nm = bytes.fromhex(fld(l, "body")[2:]).decode("latin1") if fld(l, "body").startswith("s:") else None
                    if nm is None or not nm.startswith(":"):
                        bad.append((None, "step %d: Hello reply carries %r, not a ':' name" % (i, nm)))
                    elif actor in names:
                        bad.append((None, "step %d: connection %d named %s was given a second name %s" % (i, actor, names[actor], nm)))
                    elif nm in ever:
                        bad.append((None, "step %d: name %s given to connection %d was given to %d before" % (i, nm, actor, ever[nm])))
                    else:
                        names[actor] = nm; ever[nm] = actor
        after = names.get(actor)
        for to, lines in per.items():
            for l in lines:
                if fld(l, "uk") not in ("-", None):
                    bad.append((None, "step %d: unknown header field(s) %s reached connection %d" % (i, fld(l, "uk"), to)))
                if fld(l, "ci") not in ("-", None):
                    bad.append((None, "step %d: CONTAINER_INSTANCE reached connection %d" % (i, to)))
                s = hexname(fld(l, "sender"))
                if s == BUS:
                    continue
                if s is None:
                    if actor is not None and to == actor and sent and fld(sent, "dest") == "-" and fld(sent, "t") == "1":
                        bad.append(("c03.builtin-reply-without-sender",
                                    "step %d: reply to a method call without destination carries no sender" % i))
                    else:
                        bad.append((None, "step %d: message without sender reached connection %d" % (i, to)))
                    continue
                if actor is None or s not in (before, after):
                    bad.append((None, "step %d: connection %d received sender=%s, but the message came from connection %s (%s)" %
                                (i, to, s, actor, after)))
    return bad


def oracle_names(tr):
    """the sender clauses, and: whatever the bus says about a unique name (NameAcquired, NameOwnerChanged, GetNameOwner, ListQueuedOwners)
    never makes a connection other than the one it was minted for its owner"""
    bad = oracle(tr)
    mine = {}           # connection -> the unique name it was told it acquired (at Hello)
    for i, (per, closed) in enumerate(tr.steps):
        op = tr.ops[i]
        sent = tr.sent(i) if op[0] == "send" else None
        if sent and hexname(fld(sent, "member")) == "RequestName" and hexname(fld(sent, "dest")) == BUS and (fld(sent, "body") or "").startswith("s:3a"):
            for l in per.get(op[1], []):
                if fld(l, "t") == "2" and fld(l, "rs") == fld(sent, "ser") and (fld(l, "body") or "") in ("u:1", "u:2") and \
                        mine.get(op[1]) != hexname((fld(sent, "body") or "").split(",")[0][2:]):
                    bad.append((None, "step %d: RequestName for the unique name %s by connection %d (%s) was granted (reply %s): the name is given, or promised, "
                                "to another connection" % (i, hexname((fld(sent, "body") or "").split(",")[0][2:]), op[1], mine.get(op[1]), fld(l, "body"))))
        for to, lines in per.items():
            for l in lines:
                if hexname(fld(l, "sender")) != BUS:
                    continue
                mem, body = hexname(fld(l, "member")), fld(l, "body") or ""
                args = []
                for part in body.split(","):
                    if part.startswith("s:"):
                        try: args.append(bytes.fromhex(part[2:]).decode("latin1"))
                        except ValueError: args.append(None)
                if mem == "NameAcquired" and args and args[0] and args[0].startswith(":") and mine.setdefault(to, args[0]) != args[0]:
                    bad.append((None, "step %d: NameAcquired(%s) sent to connection %d, which is %s: a unique name changed hands" % (i, args[0], to, mine[to])))
                if mem == "NameLost" and args and args[0] and args[0].startswith(":"):
                    bad.append((None, "step %d: NameLost(%s) sent to connection %d: a unique name changed hands" % (i, args[0], to)))
                if mem == "NameOwnerChanged" and len(args) == 3 and args[0] and args[0].startswith(":"):
                    if (args[1] or "") not in ("", args[0]) or (args[2] or "") not in ("", args[0]):
                        bad.append((None, "step %d: NameOwnerChanged(%s, %s, %s): a unique name is owned by another connection" % (i, args[0], args[1], args[2])))
    return bad


def oracle_fields(tr):
    """header hygiene alone, for histories in which messages are held and delivered later (the sender is then not the
    connection acting at that step)"""
    bad = []
    for i, (per, closed) in enumerate(tr.steps):
        for to, lines in per.items():
            for l in lines:
                if fld(l, "uk") not in ("-", None):
                    bad.append((None, "step %d: unknown header field(s) %s reached connection %d" % (i, fld(l, "uk"), to)))
                if fld(l, "ci") not in ("-", None):
                    bad.append((None, "step %d: CONTAINER_INSTANCE reached connection %d" % (i, to)))
    return bad


def run(ctx):
    check.lean_obligations(ctx, MODULE, THEOREMS)
    findings = {e["class"]: e for e in check.load_findings("C03") if e.get("status") == "known"}
    n = 60 if ctx.quick() else 1200
    buscheck.run_histories(ctx, n, 70 if ctx.quick() else 110, oracle, gen_kw={"weights": WEIGHTS, "max_conns": 5},
                           findings=findings, label="forged-headers")
    buscheck.run_histories(ctx, n // 3, 60, oracle, gen_kw={"max_conns": 4}, findings=findings, seed_salt=1, label="mixed")
    # "never given to another connection": connections asking for each other's (and their own) unique names, the holders leaving, others
    # then talking to and asking about those names
    buscheck.run_histories(ctx, n // 2, 70, oracle_names, gen_kw={"max_conns": 5, "request_uniques": True,
                                                                  "weights": {"request": 22, "release": 5, "close": 12, "connect": 10, "hello": 12, "query": 16, "call": 14, "signal": 4}},
                           findings=findings, seed_salt=4, label="unique-names-requested")
    # every way a message can leave the bus: also as a copy for a monitor (captured whether or not it is relayed) ...
    buscheck.run_histories(ctx, n // 2, 70, oracle_fields, gen_kw={"weights": dict(WEIGHTS, monitor=4), "max_conns": 5}, findings=findings,
                           seed_salt=2, label="forged-headers-with-monitors")
    # ... and, held for a service that is being started, when the service has taken the name
    from .. import actcheck, actdiff, actgen
    actcheck.run_histories(ctx, n // 2, 60, actdiff.Svc(actgen.DEFAULT_FILES), gen_kw={"max_conns": 4, "weights": {"forged": 22, "call": 10, "request": 18}},
                           seed_salt=3, label="forged-headers-held-for-activation", oracle_fn=oracle_fields)


def replay(path):
    import json
    with open(path) as f:
        d = json.load(f)
    if (d.get("replay") or d).get("kind") == "act-history":
        from .. import actcheck
        return actcheck.replay_history(path, oracle_fn=oracle_fields, prop="C03")
    return buscheck.replay_history(path, oracle, "C03")
