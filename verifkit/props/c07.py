"""C07 — broadcasts reach exactly the connections whose match rules match (unit level: rule
grammar, equality, matcher; the delivery side runs in the bus histories)."""
import json, random, os, re
from concurrent.futures import ThreadPoolExecutor
from ..common import *
from .. import common, build, lean, check, script, wiregen

MODULE = "Dbus.Props.C07"
THEOREMS = ["quoted_value_roundtrip", "unbalanced_quote_rejected", "applyToken_interface", "applyToken_member",
            "duplicate_interface_rejected", "unknown_key_rejected", "too_long_rejected", "path_namespace_semantics",
            "arg_plain_semantics", "arg_namespace_semantics", "arg_path_semantics", "unicast_needs_eavesdrop",
            "tokenize_iff_bounded_grammar", "tokenize_complete", "tokenize_sound", "parse_accepts_iff",
            "remove_removes_one", "remove_fails_iff", "remove_after_add"]

IFACES = [b"a.b", b"a.b.c", b"org.x", b"a"]
MEMBERS = [b"M", b"Changed", b"a.b", b""]
PATHS = [b"/", b"/a", b"/a/b", b"/a/b/c", b"/ab", b"/a/", b""]
NAMES = [b"a.b", b":1.5", b"org.freedesktop.DBus", b":", b"a", b"a..b"]
ARGV = [b"", b"x", b"a.b", b"a.b.c", b"a.bc", b"/", b"/a", b"/a/", b"/a/b", b"/ab", b"a,b", b"it's", b"a\\b", b"sp ace",
        # runs of backslashes, a trailing one, one in front of an apostrophe: outside apostrophes only \' is an escape, every other backslash stands for itself
        b"a\\\\b", b"\\\\", b"\\\\\\", b"x\\", b"\\'q", b"a\\,b"]


def quote(v, rng):
    r = rng.random()
    if r < 0.6:
        return b"'" + v.replace(b"'", b"'\\''") + b"'"
    if r < 0.8 and not any(c in v for c in b",'\\ "):
        return v
    if r < 0.9:
        return v.replace(b"'", b"\\'")
    return b"'" + v              # unbalanced


def gen_rule(rng):
    parts = []
    keys = rng.sample(["type", "sender", "interface", "member", "path", "path_namespace", "destination", "eavesdrop",
                       "arg", "argpath", "arg0namespace", "junk"], rng.randint(0, 5))
    for k in keys:
        if k == "type": parts.append(b"type=" + quote(rng.choice([b"signal", b"method_call", b"method_return", b"error", b"sig", b""]), rng))
        elif k == "sender": parts.append(b"sender=" + quote(rng.choice(NAMES), rng))
        elif k == "interface": parts.append(b"interface=" + quote(rng.choice(IFACES), rng))
        elif k == "member": parts.append(b"member=" + quote(rng.choice(MEMBERS), rng))
        elif k == "path": parts.append(b"path=" + quote(rng.choice(PATHS), rng))
        elif k == "path_namespace": parts.append(b"path_namespace=" + quote(rng.choice(PATHS), rng))
        elif k == "destination": parts.append(b"destination=" + quote(rng.choice(NAMES), rng))
        elif k == "eavesdrop": parts.append(b"eavesdrop=" + quote(rng.choice([b"true", b"false", b"yes", b""]), rng))
        elif k == "arg": parts.append(b"arg" + rng.choice([b"0", b"1", b"2", b"63", b"64", b"", b"00", b"0x1", b"-1", b"1x"]) + b"=" + quote(rng.choice(ARGV), rng))
        elif k == "argpath": parts.append(b"arg" + rng.choice([b"0", b"1", b"2"]) + b"path=" + quote(rng.choice(ARGV), rng))
        elif k == "arg0namespace": parts.append(rng.choice([b"arg0namespace=", b"arg1namespace="]) + quote(rng.choice(ARGV + NAMES), rng))
        else: parts.append(rng.choice([b"foo='bar'", b"type", b"=x", b"", b" ", b"member", b" =", b"='signal'", b" = 'x'"]))
    if rng.random() < 0.15 and parts:
        parts.append(rng.choice(parts))                  # duplicate key
    sep = rng.choice([b",", b",", b", ", b" ,"])
    text = sep.join(parts)
    if rng.random() < 0.05: text += b","
    if rng.random() < 0.03: text = text + b" " * rng.choice([1000, 1024 - len(text) if len(text) < 1024 else 0, 1025 - len(text) if len(text) < 1025 else 0])
    if rng.random() < 0.03:
        text = b",".join(b"arg%d='v'" % i for i in range(rng.choice([15, 16, 17, 20])))     # token limit
    return text


def gen_msg(rng):
    m = wiregen.Message()
    m.le = rng.random() < 0.8
    m.mtype = rng.choice([4, 4, 4, 1, 2, 3])
    m.serial = rng.randint(1, 1000)
    f = []
    if m.mtype in (1, 4) or rng.random() < 0.3: f.append((1, ('b', 'o'), rng.choice([p for p in PATHS if wiregen and p and (p == b"/" or not p.endswith(b"/"))])))
    if m.mtype == 4 or rng.random() < 0.5: f.append((2, ('b', 's'), rng.choice(IFACES[:3])))
    if m.mtype in (1, 4) or rng.random() < 0.3: f.append((3, ('b', 's'), rng.choice([b"M", b"Changed", b"N"])))
    if m.mtype == 3: f.append((4, ('b', 's'), b"a.E"))
    if m.mtype in (2, 3): f.append((5, ('b', 'u'), 7))
    if rng.random() < 0.2: f.append((6, ('b', 's'), rng.choice([b"a.b", b":1.5", b"org.freedesktop.DBus"])))
    n = rng.choice([0, 1, 1, 2, 3])
    tys, vals = [], []
    for _ in range(n):
        r = rng.random()
        if r < 0.55: tys.append(('b', 's')); vals.append(rng.choice(ARGV))
        elif r < 0.8: tys.append(('b', 'o')); vals.append(rng.choice([b"/", b"/a", b"/a/b", b"/ab"]))
        elif r < 0.9: tys.append(('b', 'u')); vals.append(5)
        else: tys.append(('v',)); vals.append((('b', 's'), b"x"))
    m.body_types, m.body = tys, vals
    if tys: f.append((8, ('b', 'g'), "".join(wiregen.sig(t) for t in tys).encode()))
    m.fields = f
    return m.marshal()


def shape_ok(text):
    """a necessary condition of the rule grammar, read independently of the C code and of the Lean model: the text is a
    comma-separated list of key=value items - every item has a non-empty key before its '=' (values: '...' quoting, backslash
    outside quotes, up to the next unquoted comma); white space around keys is tolerated; only white space may follow the
    last item. Rules the implementation accepts must have this shape."""
    ws = b" \t\n\r"
    i, n = 0, len(text)
    while i < n:
        while i < n and text[i] in ws: i += 1
        k0 = i
        while i < n and text[i] not in ws and text[i] != 0x3d: i += 1
        key = text[k0:i]
        while i < n and text[i] in ws: i += 1
        if not key:
            return i >= n                  # nothing but white space left
        if i >= n or text[i] != 0x3d:
            return False
        i += 1
        q = 0
        while i < n:
            c = text[i]
            if q == 0:
                if c == 0x27: q = 1
                elif c == 0x2c: break
                elif c == 0x5c: q = 2
            elif q == 2:
                q = 0
            elif c == 0x27:
                q = 0
            i += 1
        if q == 1:
            return False
        i += 1                              # past the comma
    return True


def run(ctx):
    check.lean_obligations(ctx, MODULE, THEOREMS)
    exe = build.cc("h_match", ["harness/lib/h_match.c"], daemon=True)
    rng = random.Random(ctx.seed * 86028121 + 7)
    n = 4000 if ctx.quick() else 80000
    lines = []
    rules = [gen_rule(rng) for _ in range(n)]
    msgs = [gen_msg(rng) for _ in range(200)]
    for r in rules:
        lines.append("match parse " + (r.hex() or "-"))
    for i in range(n):
        lines.append("match test %s %s" % (rng.choice(rules).hex() or "-", rng.choice(msgs).hex()))
    for i in range(n // 4):
        a = rng.choice(rules); b = rng.choice(rules) if rng.random() < 0.3 else a
        lines.append("match equal %s %s" % (a.hex() or "-", b.hex() or "-"))
    # pairs of valid rules that differ in exactly one component (value or kind of one key)
    for i in range(n // 4):
        base = {"type": b"signal", "interface": rng.choice(IFACES[:3]), "member": b"M", "path": b"/a", "destination": b"a.b", "sender": b":1.5"}
        keys = rng.sample(sorted(base), rng.randint(0, 3))
        extra = rng.choice([("path", b"/a", b"/a/b"), ("path_namespace", b"/a", b"/b"), ("arg0", b"x", b"y"), ("arg0path", b"/a/", b"/b/"),
                            ("arg0namespace", b"a.b", b"a.c"), ("arg1", b"x", b"x"), ("eavesdrop", b"true", b"false"),
                            ("KIND", b"", b"")])
        def mk(v, kind=0):
            parts = [k.encode() + b"='" + base[k] + b"'" for k in keys if not (k == "path" and extra[0].startswith("path"))]
            if extra[0] == "KIND":
                parts.append([b"arg0='a.b'", b"arg0path='a.b'", b"arg0namespace='a.b'"][kind])
            else:
                parts.append(extra[0].encode() + b"='" + v + b"'")
            return b",".join(parts)
        if extra[0] == "KIND":
            k1, k2 = rng.sample([0, 1, 2], 2)
            a, b = mk(b"", k1), mk(b"", k2)
        else:
            a, b = mk(extra[1]), mk(extra[2])
        lines.append("match equal %s %s" % (a.hex(), b.hex()))
        lines.append("match equal %s %s" % (a.hex(), a.hex()))
    corpus = os.path.join(ROOT, "corpus", "C07")
    if os.path.isdir(corpus):
        for f in sorted(os.listdir(corpus)):
            lines = json.load(open(os.path.join(corpus, f)))["ops"] + lines
    k = max(1, (len(lines) + NCPU - 1) // NCPU)
    parts = [list(range(i, min(i + k, len(lines)))) for i in range(0, len(lines), k)]
    with ThreadPoolExecutor(max_workers=NCPU) as ex:
        results = list(ex.map(lambda idx: script.diff([exe], [lines[i] for i in idx]), parts))
    ok = True
    counts = {"parse_ok": 0, "parse_invalid": 0, "match_1": 0, "match_0": 0}
    for idx, res in zip(parts, results):
        if res["rc"] != 0 or res["n_impl"] != len(idx) or res["n_model"] != len(idx):
            ok = False
            j = min(res["n_impl"], len(idx) - 1)
            ctx.violate("match-rule code aborted (sanitizer: memory outside its buffers) on: %s" % lines[idx[j]][:200],
                        {"op": lines[idx[j]], "decoded": [bytes.fromhex(x).decode("latin1") if x != "-" else "" for x in lines[idx[j]].split()[2:3]],
                         "stderr": res["stderr"][-2500:]}, True)
            continue
        for (j, op, impl, model, spec) in res["rows"]:
            ok = False
            txt = bytes.fromhex(op.split()[2]).decode("latin1") if op.split()[2] != "-" else ""
            ctx.violate("match rule %s: implementation '%s' vs specification model '%s' for rule text %r" % (op.split()[1], impl[:80], model[:80], txt[:120]),
                        {"op": op, "rule_text": txt, "impl": impl, "model": model}, True)
    ml, _ = script.run_model("\n".join(lines) + "\n")
    # the grammar's shape, as a third reading (impl = model on every line here, so the model's answers stand for both)
    shape_bad = 0
    for line, l in zip(lines, ml):
        t = line.split()
        if t[1] == "parse" and l.startswith("ok "):
            txt = b"" if t[2] == "-" else bytes.fromhex(t[2])
            if len(txt) <= 1024 and not shape_ok(txt):
                shape_bad += 1
                if shape_bad <= 3:
                    ok = False
                    ctx.violate("AddMatch would accept the rule text %r, which is not a comma-separated list of key=value items (an item without a key, "
                                "or text after the last item)" % txt.decode("latin1")[:120], {"op": line, "rule_text": txt.decode("latin1"), "impl": l}, True)
    counts["accepted_rules_checked_against_the_grammar_shape"] = sum(1 for l in ml if l.startswith("ok "))
    for l in ml:
        if l.startswith("ok "): counts["parse_ok"] += 1
        elif l == "invalid": counts["parse_invalid"] += 1
        elif l == "1": counts["match_1"] += 1
        elif l == "0": counts["match_0"] += 1
    ctx.oblige("correspondence K:match/unit (parser, equality, matcher of bus/signals.c)", "correspondence", ok)
    ctx.coverage.update({
        "evaluations": len(lines), "distinct_nontrivial": len(set(lines)),
        "rule": "rule strings assembled from every key with quoting/escaping variants, empty values, duplicates, junk, trailing commas, 16-token and 1024-byte "
                "boundaries (valid and invalid) ; messages of every type with optional header fields absent and leading arguments that are strings, object "
                "paths, other types or missing, values that are prefixes/extensions of rule values; parse results, rule equality and match verdicts compared",
        "samples": [bytes.fromhex(l.split()[2]).decode("latin1") if l.split()[2] != "-" else "" for l in lines[:6]],
        "distribution": counts, "traces_validated_against_impl": len(lines)})
    run_bus(ctx)
    ctx.assumptions += ["the unit-level matcher is called as for a message the bus originates (sender / addressed recipient NULL); sender=, destination= and "
                        "eavesdrop interplay with ownership are exercised by the bus histories"]


# ---------------------------------------------------------------- end to end (bus histories)

MODULE_BUS = "Dbus.Props.C07Bus"
THEOREMS_BUS = ["recipient_iff", "recipients_nodup", "gate_broadcast_pending", "broadcast_reaches_exactly_the_matching",
                "disconnected_gets_nothing", "sender_rule_needs_the_owner", "waiter_does_not_match_sender_rule", "destination_rule_needs_the_owner"]
W_BUS = {"addmatch": 22, "removematch": 8, "signal": 30, "call": 8, "reply": 2, "request": 10, "release": 3, "close": 4, "connect": 5,
         "hello": 5, "forged": 2, "query": 1, "driver_edge": 0, "nodest": 0, "badtype": 0, "garbage": 0}
SIMPLE = re.compile(rb"^(?:[a-z0-9_]+='[^'\\]*')(?:,[a-z0-9_]+='[^'\\]*')*$")
TYPES = {"signal": "4", "method_call": "1", "method_return": "2", "error": "3"}


def parse_simple(text):
    """rules in the plain key='value' form (no quoting tricks) -> dict, or None (the unit-level check covers the rest)"""
    if text.strip(b" \t\n\r") == b"":
        return {}           # a text of blanks is the empty rule (Spec/MatchGrammar: RuleText.blank)
    if not SIMPLE.match(text):
        return None
    d = {}
    for part in text.split(b","):
        k, _, v = part.partition(b"=")
        k = k.decode(); v = v[1:-1].decode("latin1")
        if k in d or k not in ("type", "interface", "member", "path", "path_namespace", "sender", "destination", "eavesdrop", "arg0",
                               "arg1", "arg0path", "arg0namespace"):
            return None
        d[k] = v
    if "path" in d and "path_namespace" in d:
        return None
    if d.get("eavesdrop") == "false":
        del d["eavesdrop"]          # the default: equal to the rule without it
    elif "eavesdrop" in d and d["eavesdrop"] != "true":
        return None
    return d


def rule_matches(d, line, sender_owns, dest_owned_by):
    """the match-rule semantics of the specification on a canonical message line"""
    from ..buscheck import fld, hexname
    dest = hexname(fld(line, "dest"))
    if d.get("eavesdrop") != "true" and dest is not None:
        return False
    if "type" in d and TYPES.get(d["type"]) != fld(line, "t"): return False
    if "interface" in d and hexname(fld(line, "iface")) != d["interface"]: return False
    if "member" in d and hexname(fld(line, "member")) != d["member"]: return False
    if "path" in d and hexname(fld(line, "path")) != d["path"]: return False
    if "path_namespace" in d:
        p, ns = hexname(fld(line, "path")), d["path_namespace"]
        if p is None or not (p == ns or p.startswith(ns.rstrip("/") + "/")): return False
    if "sender" in d and not sender_owns(d["sender"]): return False
    if "destination" in d and not (dest is not None and dest_owned_by(d["destination"])): return False
    args, depth, cur = [], 0, ""
    for ch in (fld(line, "body") or ""):
        if ch == "[": depth += 1
        elif ch == "]": depth -= 1
        if ch == "," and depth == 0:
            args.append(cur); cur = ""
        else:
            cur += ch
    if cur: args.append(cur)
    def arg(i):
        if i >= len(args) or args[i][:2] not in ("s:", "o:"): return None
        v = args[i][2:]
        return (args[i][0], "" if v == "-" else bytes.fromhex(v).decode("latin1"))
    for k in ("arg0", "arg1"):
        if k in d:
            a = arg(int(k[3]))
            if a is None or a[0] != "s" or a[1] != d[k]: return False
    if "arg0path" in d:
        a = arg(0)
        if a is None: return False
        v, e = a[1], d["arg0path"]
        if not (v == e or (v.endswith("/") and e.startswith(v)) or (e.endswith("/") and v.startswith(e))): return False
    if "arg0namespace" in d:
        a = arg(0)
        if a is None or a[0] != "s": return False
        v, e = a[1], d["arg0namespace"]
        if not (v == e or v.startswith(e + ".")): return False
    return True


def bus_oracle(tr):
    from ..buscheck import fld, hexname, Tracker
    bad = []
    tk = Tracker()
    rules = {}          # cid -> list of (text, parsed or None)
    fdcap = {}          # cid -> descriptor passing negotiated
    ever = set()        # every unique name seen so far
    from .. import buscheck
    for i, (per, closed) in enumerate(tr.steps):
        tk.before(i, tr)
        ever |= set(v for v in tk.names.values() if v)
        op = tr.ops[i]
        sent = tr.sent(i) if op[0] == "send" else None
        actor = op[1] if op[0] == "send" else None
        nfds = 0
        if op[0] == "connect":
            fdcap[op[1]] = bool(op[3])
        if op[0] == "fdsend" and not op[4]:
            # a message sent together with descriptors (whole, in one write): judged like any other broadcast, except that a connection
            # that cannot take descriptors is passed over
            dec = buscheck.decode_sent([op[2]])[0]
            if dec and fld(dec, "fds") not in (None, "-") and int(fld(dec, "fds")) == len(op[3]) and fdcap.get(op[1]):
                sent, actor, nfds = dec, op[1], len(op[3])
        if sent and actor in tk.names and fld(sent, "t") == "4" and fld(sent, "dest") == "-" and \
                hexname(fld(sent, "iface")) != "org.freedesktop.DBus.Peer":
            me = tk.names[actor]
            for cid in tk.live:
                rs = rules.get(cid, [])
                if cid not in tk.names or any(p is None for _, p in rs):
                    continue            # a rule the simple matcher cannot judge
                want = any(rule_matches(p, sent, lambda n: n == me or tk.primary(n) == actor, lambda n: False) for _, p in rs) and \
                    not (nfds and not fdcap.get(cid))
                got = len([l for l in per.get(cid, []) if hexname(fld(l, "sender")) == me and fld(l, "ser") == fld(sent, "ser") and fld(l, "t") == "4"])
                if got != (1 if want else 0):
                    bad.append((None, "step %d: broadcast %s.%s from %s: connection %d with rules %s got %d copies" %
                                (i, hexname(fld(sent, "iface")), hexname(fld(sent, "member")), me, cid, [t.decode("latin1") for t, _ in rs][:4], got)))
        # rule bookkeeping from the acknowledged AddMatch / RemoveMatch
        if sent and actor in tk.names and fld(sent, "t") == "1" and hexname(fld(sent, "dest")) == "org.freedesktop.DBus" and \
                hexname(fld(sent, "member")) in ("AddMatch", "RemoveMatch") and hexname(fld(sent, "iface")) in ("org.freedesktop.DBus", None):
            mine = per.get(actor, [])
            ok = any(fld(l, "t") == "2" and fld(l, "rs") == fld(sent, "ser") for l in mine)
            err = any(fld(l, "t") == "3" and fld(l, "rs") == fld(sent, "ser") for l in mine)
            body = fld(sent, "body") or ""
            if body.startswith("s:") and ok and not err:
                text = b"" if body == "s:-" else bytes.fromhex(body[2:])
                parsed = parse_simple(text)
                if hexname(fld(sent, "member")) == "AddMatch":
                    rules.setdefault(actor, []).append((text, parsed))
                else:
                    lst = rules.get(actor, [])
                    for k in range(len(lst) - 1, -1, -1):
                        if lst[k][1] == parsed and (parsed is not None or lst[k][0] == text):
                            del lst[k]; break
                    else:
                        # the bus removed a rule this oracle cannot name (one written with quoting the oracle does not read): it no longer
                        # knows which of the connection's unreadable rules are left, and claims nothing about them
                        lst[:] = [e for e in lst if e[1] is not None]
            elif body.startswith("s:") and err and hexname(fld(sent, "member")) == "RemoveMatch":
                # a rule the connection added and never removed is still its rule: RemoveMatch finds it - unless it names the unique name of
                # a connection that has left (the bus drops such rules: the name will never be used again)
                text = b"" if body == "s:-" else bytes.fromhex(body[2:])
                parsed = parse_simple(text)
                held = [k for k, (t_, p_) in enumerate(rules.get(actor, [])) if p_ == parsed and (parsed is not None or t_ == text)]
                named = re.findall(rb"(?:sender|destination)='(:[0-9.]+)'", text)
                alive = set(tk.names.get(c) for c in tk.live)
                # (a unique name nobody has ever had cannot have left: rules naming it are never dropped)
                if held and all(nm.decode() in alive or nm.decode() not in ever for nm in named) and \
                        any(hexname(fld(l, "err")) == "org.freedesktop.DBus.Error.MatchRuleNotFound" and fld(l, "rs") == fld(sent, "ser") for l in mine):
                    bad.append((None, "step %d: connection %d holds the rule %r (added, never removed, every connection it names still there) and RemoveMatch "
                                      "does not find it" % (i, actor, text.decode("latin1"))))
        tk.after(i, tr)
        for c in list(rules):
            if c not in tk.live:
                rules.pop(c)
    return bad


def queued_sender_scripts():
    """sender='<well-known name>' means "sent by the connection that owns the name now": not by one that is only waiting for it, and the
    answer changes the moment the queue moves"""
    from ..bus import method_call, signal_msg, BUS, BUS_PATH
    hello = lambda: method_call(1, BUS, BUS_PATH, BUS, "Hello").marshal()
    add = lambda s, r: method_call(s, BUS, BUS_PATH, BUS, "AddMatch", "s", [r]).marshal()
    req = lambda s, n, fl=0: method_call(s, BUS, BUS_PATH, BUS, "RequestName", "su", [n, fl]).marshal()
    rel = lambda s, n: method_call(s, BUS, BUS_PATH, BUS, "ReleaseName", "s", [n]).marshal()
    sig = lambda s, m, dest=None: signal_msg(s, "/a", "a.b", m, "s", [b"x"], dest=dest).marshal()
    base = [("connect", 0, 0, False), ("send", 0, hello())] + [x for c in (1, 2, 3) for x in (("connect", c, 0, False), ("send", c, hello()))]
    out = []
    for rule in (b"type='signal',sender='com.example.A'", b"sender='com.example.A',interface='a.b'"):
        out.append(base + [("send", 3, add(2, rule)), ("send", 1, req(2, b"com.example.A")), ("send", 2, req(2, b"com.example.A")),
                           ("send", 1, sig(3, "FromOwner")), ("send", 2, sig(3, "FromWaiter")), ("send", 0, sig(2, "FromStranger")),
                           ("send", 1, rel(4, b"com.example.A")), ("send", 1, sig(5, "FromFormerOwner")), ("send", 2, sig(4, "FromNewOwner")),
                           ("close", 2), ("send", 1, sig(6, "NobodyOwnsIt"))])
    # the same for destination=: a unicast signal to a name is "to" its owner only
    out.append(base + [("send", 3, add(2, b"type='signal',destination='com.example.A',eavesdrop='true'")), ("send", 1, req(2, b"com.example.A")),
                       ("send", 2, req(2, b"com.example.A")), ("send", 0, sig(2, "ToName", dest="com.example.A")), ("send", 0, sig(3, "ToWaiter", dest=":1.2")),
                       ("send", 0, sig(4, "ToOwner", dest=":1.1"))])
    return out


def fd_broadcast_scripts():
    """a broadcast that carries a descriptor: a subscriber that cannot take descriptors is passed over - it alone; the subscribers after it in
    the bus's list get the signal like those before it"""
    from ..bus import method_call, signal_msg, BUS, BUS_PATH
    hello = lambda: method_call(1, BUS, BUS_PATH, BUS, "Hello").marshal()
    add = lambda s, r: method_call(s, BUS, BUS_PATH, BUS, "AddMatch", "s", [r]).marshal()
    def sig(serial, k, member="WithFd"):
        m = signal_msg(serial, "/a", "a.b", member, "s", [b"x"])
        if k: m.fields.append((9, ('b', 'u'), k))
        return m.marshal()
    out = []
    for order in ((True, False, True), (False, True, True), (True, True, False), (False, False, True)):
        ops = [("connect", 0, 0, True), ("send", 0, hello())]
        for i, fd in enumerate(order):
            ops += [("connect", i + 1, 0, fd), ("send", i + 1, hello()), ("send", i + 1, add(2, b"type='signal',interface='a.b'"))]
        ops += [("fdsend", 0, sig(5, 1), [1], 0), ("send", 0, sig(6, 0, "Plain")), ("fdsend", 0, sig(7, 2, "TwoFds"), [2, 3], 0)]
        out.append(ops)
    return out


def run_bus(ctx):
    from .. import buscheck
    check.lean_obligations(ctx, MODULE_BUS, THEOREMS_BUS)
    n = 50 if ctx.quick() else 1200
    buscheck.run_histories(ctx, 0, 0, bus_oracle, seed_salt=49, label="rules-naming-queued-names", scripts=queued_sender_scripts())
    buscheck.run_histories(ctx, 0, 0, bus_oracle, seed_salt=48, label="broadcasts-carrying-descriptors", scripts=fd_broadcast_scripts())
    buscheck.run_histories(ctx, n, 90 if ctx.quick() else 140, bus_oracle,
                           gen_kw={"weights": W_BUS, "max_conns": 5, "rule_uniques": False}, label="broadcast-delivery")
    buscheck.run_histories(ctx, n // 2, 170 if ctx.quick() else 240, bus_oracle,
                           gen_kw={"weights": dict(W_BUS, connect=14, hello=12, close=11, addmatch=24, signal=26, request=3, call=2),
                                   "max_conns": 6, "rule_uniques": True}, seed_salt=51, label="rules-naming-unique-names")


def replay(path):
    data = json.load(open(path))
    if data["replay"].get("kind") == "bus-history":
        from .. import buscheck
        return buscheck.replay_history(path, bus_oracle, "C07")
    op = data["replay"].get("op")
    if not op:
        print("replay: no input recorded: %s" % data["what"]); return 1
    exe = build.cc("h_match", ["harness/lib/h_match.c"], daemon=True); lean.build_driver()
    res = script.diff([exe], [op])
    for r in res["rows"]:
        print("impl=%s\nmodel=%s" % (r[2], r[3]))
    bad = res["rows"] or res["rc"] != 0
    if res["rc"] != 0: print(res["stderr"][-1500:])
    if bad:
        print("VIOLATION property=C07 replay=%s" % path)
    return 1 if bad else 0
