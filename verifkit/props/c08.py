"""C08 — a peer counts as authenticated only after a valid SASL exchange."""
import json, random, os, re, subprocess, shutil, tempfile, time, hashlib, pwd
from concurrent.futures import ProcessPoolExecutor
from ..common import *
from .. import common, build, lean, check, script

MODULE = "Dbus.Props.C08"
THEOREMS = ["established_in_every_reachable_state", "nothing_authorized_before_ok", "authenticated_only_through_begin",
            "external_identity_is_the_sockets", "cookie_needs_the_correct_response", "cookie_identity_is_the_owners",
            "anonymous_only_where_permitted", "anonymous_identity_gate", "cancel_forgets_identity", "failures_bounded",
            "gives_up_after_six", "rejected_counts_failures", "end_states_are_final", "buffers_bounded", "overflow_gives_up",
            "nothing_before_begin_is_message_data", "conforms_to_specification"]

MAXBUF = 16 * 1024
MECHS = [b"EXTERNAL", b"DBUS_COOKIE_SHA1", b"ANONYMOUS"]
GUID = b"0123456789abcdef0123456789abcdef"
CONTEXT = b"org_freedesktop_general"


def hx(b):
    return b.hex() if b else "-"


def unhx(s):
    return b"" if s in ("-", None) else bytes.fromhex(s)


def fld(line, key):
    m = re.search(r"(?:^| )%s=(\S*)" % key, line)
    return m.group(1) if m else None


class Harness:
    def __init__(self, exe, home):
        e = dict(os.environ); e.update(build.ASAN_ENV); e["DBUS_TEST_HOMEDIR"] = home
        self.p = subprocess.Popen([exe], stdin=subprocess.PIPE, stdout=subprocess.PIPE, stderr=subprocess.PIPE, text=True, env=e)

    def ask(self, line):
        try:
            self.p.stdin.write(line + "\n"); self.p.stdin.flush()
            a = self.p.stdout.readline()
        except (BrokenPipeError, OSError):
            a = ""
        if not a:
            return None
        return a.rstrip("\n")

    def close(self):
        try:
            self.p.stdin.close()
        except OSError:
            pass
        try:
            rc = self.p.wait(20)
        except subprocess.TimeoutExpired:
            self.p.kill(); rc = self.p.wait()
        return rc, self.p.stderr.read()


def users_table():
    tab = {}
    for e in pwd.getpwall():
        tab.setdefault(e.pw_name.encode(), e.pw_uid)
    return tab


def read_keyring(home, context=CONTEXT):
    out = {}
    try:
        for l in open(os.path.join(home, ".dbus-keyrings", context.decode())):
            f = l.split()
            if len(f) == 3:
                out[int(f[0])] = f[2].encode()
    except (OSError, ValueError):
        pass
    return out


def write_keyring(home, rng, kind):
    d = os.path.join(home, ".dbus-keyrings")
    os.makedirs(d, exist_ok=True); os.chmod(d, 0o700)
    now = int(time.time())
    keys = []
    if kind in ("fresh", "mixed"):
        for i in range(rng.randint(1, 3)):
            keys.append((rng.randint(1, 2 ** 30), now - rng.randint(0, 100), bytes(rng.randrange(256) for _ in range(24)).hex()))
    if kind in ("stale", "mixed"):
        for i in range(rng.randint(1, 2)):
            keys.append((rng.randint(1, 2 ** 30), now - rng.randint(8 * 60, 10000), bytes(rng.randrange(256) for _ in range(24)).hex()))
    if kind != "none":
        path = os.path.join(d, CONTEXT.decode())
        with open(path, "w") as f:
            for k in keys:
                f.write("%d %d %s\n" % k)
        os.chmod(path, 0o600)


class Case:
    """one connection: environment, then an adaptive client"""
    def __init__(self, rng, home, self_uid, users):
        self.r, self.home, self.self_uid, self.users = rng, home, self_uid, users
        r = rng
        self.uid = r.choice([self_uid, self_uid, self_uid, 1000, 1000, 12345, None, 4294967295, 0])
        self.pid = r.choice([None, 4242, 1])
        self.gids = r.choice([None, None, [5], [5, 6, 1000]])
        self.label = r.choice([None, None, b"unconfined", b"system_u:object_r:x"])
        m = r.random()
        if m < 0.4: self.mechs = None
        elif m < 0.9: self.mechs = r.sample(MECHS, r.randint(1, 3)) + ([b"BOGUS"] if r.random() < 0.2 else [])
        else: self.mechs = r.choice([[], [b"external"], [b"BOGUS"]])
        self.fd = r.random() < 0.5
        self.keyring_kind = r.choice(["fresh", "fresh", "mixed", "stale", "none"])
        self.ops = []
        self.last_challenge = None      # (cookie id, server challenge hex) as parsed from the server's DATA
        self.sent_correct = False

    def reset_line(self, cookies=None, for_model=False):
        s = "auth reset uid=%s pid=%s gids=%s label=%s mechs=%s fd=%d guid=%s context=%s" % (
            "-" if self.uid is None else self.uid, "-" if self.pid is None else self.pid,
            "-" if self.gids is None else ",".join(map(str, self.gids)), hx(self.label) if self.label is not None else "-",
            "*" if self.mechs is None else (",".join(m.hex() for m in self.mechs) or "-"), self.fd, GUID.hex(), CONTEXT.hex())
        if for_model:
            s += " self=%d users=%s cookies=%s" % (self.self_uid,
                ",".join("%s:%d" % (n.hex(), u) for n, u in self.users.items()) or "-",
                ",".join("%d:%s" % (i, c.hex()) for i, c in (cookies or {}).items()) or "-")
        return s

    # ---- the client's repertoire ----
    def identity(self):
        r = self.r
        k = r.random()
        me = self.uid if self.uid is not None else 77
        if k < 0.45: return str(me).encode()
        if k < 0.55: return str(self.self_uid).encode()
        if k < 0.6: return b"root"
        if k < 0.66: return str(r.choice([me + 1, 0, 1000, 4294967295, 2 ** 64 - 1, 2 ** 64, 2 ** 32 + me])).encode()
        if k < 0.76: return r.choice([b"-1", b" %d" % me, b"+%d" % me, b"0x%x" % me, b"0%o" % me, b"-%d" % (2 ** 64 - me), b"%d " % me, b"0x", b"1e3", b"\t%d" % me, b"%d\x00" % me, b"-0", b"00", b"08"])
        if k < 0.86: return r.choice(list(self.users)[:6] + [b"root", b"nobody", b"no-such-user", b"Root", b""])
        if k < 0.93: return b""
        return bytes(r.randrange(256) for _ in range(r.randint(1, 6)))

    def hexarg(self, data):
        r = self.r
        h = data.hex().encode()
        k = r.random()
        if k < 0.8: return h
        if k < 0.85: return h.upper()
        if k < 0.9: return h + r.choice([b"g", b" ", b"z1", b"-", b"0"])
        if k < 0.95: return h[:-1] if h else b"3"
        return r.choice([b"xyz", b"0x31", b"31 30", b"3\t1"])

    def cookie_response(self, correct):
        r = self.r
        cc = bytes(r.choice(b"0123456789abcdef") for _ in range(r.choice([1, 16, 32])))
        cid, sch = self.last_challenge if self.last_challenge else (0, b"00")
        ring = read_keyring(self.home)
        secret = ring.get(cid)
        if correct and secret is not None:
            h = hashlib.sha1(sch + b":" + cc + b":" + secret).hexdigest().encode()
            self.sent_correct = True
            sep = r.choice([b" ", b" ", b"\t", b"  ", b" \t "])
            return cc + sep + h
        k = r.random()
        other = r.choice(list(ring.values()) + [b"00ff"]) if k < 0.3 else (secret or b"aa")
        h = hashlib.sha1(sch + b":" + cc + b":" + other).hexdigest().encode()
        if k < 0.3 and other != secret: return cc + b" " + h                          # another cookie's secret
        if k < 0.45: return cc + b" " + hashlib.sha1(sch + b":" + cc + b"x:" + (secret or b"")).hexdigest().encode()
        if k < 0.52: return cc + b" " + h[:-1] + (b"0" if h[-1:] != b"0" else b"1")
        if k < 0.58: return cc + b" " + h[:r.choice([1, 1, 2, 8, 20, 39, r.randint(1, 39)])]   # a proper prefix of the right digest
        if k < 0.62: return cc + b" " + h + r.choice([b"0", h[:1], h])                  # the right digest and more
        if k < 0.65: return cc + h                                                      # no separator
        if k < 0.69: return b" " + h
        if k < 0.74: return cc + b" "
        if k < 0.8: return cc + b" \n" + h                                              # blank followed by LF
        if k < 0.86: return cc + b" " + h.upper()
        if k < 0.92: return cc + b" " + h + b" "
        return b""

    def line(self, st):
        """next command line (without CRLF) given the server's state name"""
        r = self.r
        k = r.random()
        if st == "WaitingForBegin" and r.random() < 0.45:
            k = 0.6 + r.random() * 0.17          # BEGIN / NEGOTIATE_UNIX_FD / CANCEL
        elif st == "WaitingForAuth" and r.random() < 0.5:
            k = r.random() * 0.3
        elif st == "WaitingForData" and r.random() < 0.6:
            k = 0.3 + r.random() * 0.2
        if k < 0.30:
            mech = r.choice(MECHS + [r.choice(MECHS), b"external", b"KERBEROS_V4", b"EXTERNA", b"EXTERNALX", b"ANONYMOUS\x0b"])
            sep = r.choice([b" ", b" ", b"  ", b"\t"])
            j = r.random()
            if j < 0.25: return b"AUTH" + sep + mech
            if mech == b"ANONYMOUS":
                trace = r.choice([b"libdbus 1.13", b"a@b", b"\xff\xfe", b"\xc3\xa9", b"\xc0\x80", b""])
                return b"AUTH" + sep + mech + sep + self.hexarg(trace)
            return b"AUTH" + sep + mech + sep + self.hexarg(self.identity())
        if k < 0.5:
            if st == "WaitingForData" and self.last_challenge and r.random() < 0.8:
                return b"DATA " + self.hexarg(self.cookie_response(r.random() < 0.55))
            j = r.random()
            if j < 0.3: return b"DATA"
            if j < 0.4: return b"DATA "
            return b"DATA " + self.hexarg(self.identity())
        if k < 0.6: return r.choice([b"CANCEL", b"CANCEL now", b"ERROR", b"ERROR \"no\""])
        if k < 0.70: return r.choice([b"BEGIN", b"BEGIN", b"BEGIN x", b"BEGIN\t"])
        if k < 0.77: return r.choice([b"NEGOTIATE_UNIX_FD", b"NEGOTIATE_UNIX_FD 1"])
        if k < 0.83: return r.choice([b"OK " + GUID, b"REJECTED EXTERNAL", b"AGREE_UNIX_FD", b"HELP", b"auth EXTERNAL", b"Begin", b"AUTHX", b"DATAA 00"])
        if k < 0.88: return r.choice([b"", b" ", b" AUTH EXTERNAL", b"\tBEGIN", b"AUTH \n", b"AUTH \rEXTERNAL", b"AUTH\nEXTERNAL", b"DATA \r", b"\r", b"\n",
                                      b"AUTH EXTERNAL \n31", b"BEGIN\r"])
        if k < 0.93: return r.choice([b"AUTH \xc3\xa9", b"BEGIN\x00", b"\x80", b"DATA 31\xff", b"\x00AUTH", b"CANCEL\x7f", b"AUTH\x01EXTERNAL"])
        if k < 0.985: return self.line(st) if r.random() < 0.9 else b"X" * 40
        if k < 0.993: return b"X" * r.choice([100, 3000, MAXBUF - 3, MAXBUF - 2, MAXBUF - 1, MAXBUF, MAXBUF + 1, MAXBUF + 500])
        return b"AUTH " + r.choice(MECHS) + b" " + b"30" * r.choice([10, 5000, 9000])

    def run(self, h):
        """drives the real DBusAuth; returns (ops, answers) where ops are harness lines"""
        r = self.r
        write_keyring(self.home, r, self.keyring_kind)
        ops, ans = [self.reset_line()], []
        a = h.ask(ops[0]); ans.append(a)
        st = "WaitingForAuth"
        pending = b""
        n = r.randint(2, 14)
        flood = r.random() < 0.03
        if flood:
            n = 700
        i = 0
        while i < n and a is not None:
            i += 1
            if flood:
                stream = r.choice([b"NOPE", b"DATA", b"AUTH EXTERNAL zz", b"\xff"]) + b"\r\n"
                stream = stream * r.choice([1, 20, 200])
                do_drain = r.random() < 0.03
            else:
                stream = pending + self.line(st) + r.choice([b"\r\n"] * 12 + [b"\n", b"\r", b"\n\r", b""])
                pending = b""
                for _ in range(r.choice([0, 0, 0, 1, 2])):
                    stream += self.line(st) + b"\r\n"
                if r.random() < 0.1:
                    stream += r.choice([b"\x00", b"l\x01\x00\x01", b"garbage", b"BEGIN\r\n", b"l\x01\x00\x01\x00\x00\x00\x00\x01\x00\x00\x00\x00\x00\x00\x00"])
                if r.random() < 0.2 and len(stream) > 1:
                    cut = r.randrange(1, len(stream))
                    stream, pending = stream[:cut], stream[cut:]
                do_drain = r.random() < 0.7
            op = "auth feed " + hx(stream)
            if not stream:
                continue
            a = h.ask(op); ops.append(op); ans.append(a)
            if a is None:
                break
            st = fld(a, "st")
            for l in unhx(fld(a, "new")).split(b"\r\n"):
                m = re.match(rb"^DATA ([0-9a-f]+)$", l)
                if m:
                    f = bytes.fromhex(m.group(1).decode()).split(b" ")
                    if len(f) == 3 and f[1].isdigit():
                        self.last_challenge = (int(f[1]), f[2])
                if l.startswith(b"REJECTED") or l.startswith(b"OK"):
                    self.last_challenge = self.last_challenge if l.startswith(b"OK") else None
            if do_drain:
                outlen = int(fld(a, "outlen"))
                k = r.choice([outlen, outlen, outlen, r.randint(0, outlen), 0, outlen + 5])
                op = "auth drain %d" % k
                a = h.ask(op); ops.append(op); ans.append(a)
                if a is None:
                    break
                st = fld(a, "st")
        return ops, ans


class DigestCase(Case):
    """a client that asks for DBUS_COOKIE_SHA1 as the server's own user and answers every challenge with a near miss of the right
    digest: a proper prefix of it (1 digit ... 39 digits), the digest followed by more digits, one digit changed, the wrong case -
    and in the end, sometimes, the right one"""
    def __init__(self, rng, home, self_uid, users):
        super().__init__(rng, home, self_uid, users)
        self.uid, self.mechs, self.keyring_kind = self_uid, None, "fresh"
        self.turn = 0

    def near_miss(self):
        r = self.r
        cc = bytes(r.choice(b"0123456789abcdef") for _ in range(16))
        cid, sch = self.last_challenge
        secret = read_keyring(self.home).get(cid) or b"aa"
        h = hashlib.sha1(sch + b":" + cc + b":" + secret).hexdigest().encode()
        k = self.turn % 7
        if k == 0: v = h[:r.choice([1, 2, 3])]
        elif k == 1: v = h[:r.randint(4, 39)]
        elif k == 2: v = h + h[:r.randint(1, 40)]
        elif k == 3: v = h[:39]
        elif k == 4: v = h[:20] + (b"0" if h[20:21] != b"0" else b"1") + h[21:]
        elif k == 5: v = h.upper() if h.upper() != h else h[:-1]
        else:
            self.sent_correct = True; v = h
        return cc + b" " + v

    def line(self, st):
        self.turn += 1
        if st == "WaitingForData" and self.last_challenge:
            return b"DATA " + self.near_miss().hex().encode()
        if st == "WaitingForBegin":
            return self.r.choice([b"BEGIN", b"CANCEL"])
        return b"AUTH DBUS_COOKIE_SHA1 " + str(self.self_uid).encode().hex().encode()


def model_script(case, ops, ans, cookies):
    """the same operations for the model, with the environment's choices (cookie id, challenge) that
    the implementation made, in order"""
    out = [case.reset_line(cookies, for_model=True)]
    for op, a in zip(ops[1:], ans[1:]):
        if op.startswith("auth feed") and a is not None:
            chs = []
            for l in unhx(fld(a, "new")).split(b"\r\n"):
                m = re.match(rb"^DATA ([0-9a-f]+)$", l)
                if m:
                    f = bytes.fromhex(m.group(1).decode()).split(b" ")
                    if len(f) == 3 and f[0] == CONTEXT and f[1].isdigit():
                        chs.append("1:%d:%s" % (int(f[1]), f[2].hex()))
            out.append(op + "".join(" " + c for c in chs))
        else:
            out.append(op)
    return out


def creds(s):
    u, p, g, l = s.split("/")
    return {"uid": None if u == "-" else int(u), "pid": None if p == "-" else int(p),
            "gids": None if g == "-" else [int(x) for x in g.split(",")], "label": None if l == "-" else l}


def oracle(case, ops, ans, cookies):
    """the property, read off the implementation's own trace (independent of the Lean model)"""
    bad = []
    rejected = 0
    sock = {"uid": case.uid, "pid": case.pid, "gids": case.gids, "label": (case.label.hex() if case.label else ("empty" if case.label == b"" else None))}
    last_data = None
    begun = False
    for i, (op, a) in enumerate(zip(ops, ans)):
        if i == 0 or a is None:
            continue
        st, fail, mech, ident = fld(a, "st"), int(fld(a, "fail")), fld(a, "mech"), creds(fld(a, "id"))
        new = unhx(fld(a, "new"))
        rejected += len(re.findall(rb"(?:^|\r\n)REJECTED", new))
        empty = all(v is None for v in ident.values())
        if st in ("WaitingForBegin", "Authenticated"):
            if case.mechs is not None and mech.encode() not in case.mechs:
                bad.append("step %d: %s with mechanism %s, which the server does not permit" % (i, st, mech))
            if mech == "EXTERNAL":
                if case.uid is None or ident["uid"] != case.uid or ident["pid"] != sock["pid"] or ident["gids"] != sock["gids"] or ident["label"] != sock["label"]:
                    bad.append("step %d: EXTERNAL established %s but the socket credentials are %s" % (i, ident, sock))
            elif mech == "ANONYMOUS":
                if ident["uid"] is not None or ident["gids"] is not None or ident["label"] is not None or ident["pid"] != sock["pid"]:
                    bad.append("step %d: ANONYMOUS established the identity %s" % (i, ident))
            elif mech == "DBUS_COOKIE_SHA1":
                if ident["uid"] != case.self_uid or ident["gids"] is not None or ident["label"] is not None or ident["pid"] != sock["pid"]:
                    bad.append("step %d: DBUS_COOKIE_SHA1 established %s (server owner is uid %d)" % (i, ident, case.self_uid))
            else:
                bad.append("step %d: %s without a mechanism" % (i, st))
        elif not empty and st != "NeedDisconnect":
            bad.append("step %d: identity %s held in state %s" % (i, ident, st))
        if fail > 6 or (fail >= 6) != (st == "NeedDisconnect" and fail >= 6) and fail >= 6:
            bad.append("step %d: %d rejections in state %s" % (i, fail, st))
        if fail != rejected:
            bad.append("step %d: %d REJECTED lines sent but failure count %d" % (i, rejected, fail))
        if st not in ("NeedDisconnect", "Authenticated") and int(fld(a, "in")) > MAXBUF:
            bad.append("step %d: %s bytes of handshake input buffered in state %s" % (i, fld(a, "in"), st))
        if st not in ("NeedDisconnect", "Authenticated") and int(fld(a, "outlen")) > MAXBUF + 4096:
            bad.append("step %d: %s bytes of replies buffered in state %s" % (i, fld(a, "outlen"), st))
    return bad


def cookie_oracle(case, ops, ans, cookies):
    """a DBUS_COOKIE_SHA1 `OK` answers a challenge: some DATA line the client sent after that challenge must carry the client's
    challenge and exactly the 40-digit SHA-1 of server-challenge:client-challenge:cookie, for the cookie the challenge names"""
    bad = []
    feeds = [(k, unhx(op.split()[2])) for k, op in enumerate(ops) if op.startswith("auth feed")]
    pending = None          # (step, cookie id, server challenge) of the challenge not yet answered by OK / REJECTED
    for k, a in enumerate(ans):
        if k == 0 or a is None:
            continue
        for l in unhx(fld(a, "new")).split(b"\r\n"):
            m = re.match(rb"^DATA ([0-9a-f]+)$", l)
            if m:
                f = bytes.fromhex(m.group(1).decode()).split(b" ")
                if len(f) == 3 and f[1].isdigit():
                    pending = (k, int(f[1]), f[2])
            elif l.startswith(b"REJECTED"):
                pending = None
            elif l.startswith(b"OK") and pending is not None:
                k0, cid, sch = pending
                pending = None
                cookie = cookies.get(cid)
                sent = b"".join(d for kk, d in feeds if k0 < kk <= k)
                good = False
                for line in re.split(rb"\r\n", sent):
                    mm = re.match(rb"^DATA[ \t]+([0-9a-fA-F]*)[ \t]*$", line)
                    if not mm:
                        continue
                    digits = mm.group(1)
                    payload = bytes.fromhex((digits + (b"0" if len(digits) % 2 else b"")).decode())      # (a dangling digit is the high half of a last byte)
                    parts = payload.split(None, 1)
                    if len(parts) == 2 and cookie is not None and \
                            parts[1].strip(b" \t") == hashlib.sha1(sch + b":" + parts[0] + b":" + cookie).hexdigest().encode():
                        good = True
                if not good:
                    bad.append("step %d: DBUS_COOKIE_SHA1 answered OK although no response sent since the challenge of step %d carries the SHA-1 of "
                               "challenge:client-challenge:cookie %d" % (k, k0, cid))
    return bad


def _job(args):
    seed, ncases, exe = args
    rng = random.Random(seed)
    users = users_table()
    res = []
    for c in range(ncases):
        home = tempfile.mkdtemp(prefix="auth-", dir=os.path.join(CACHE, "run"))
        os.chmod(home, 0o700)
        try:
            h = Harness(exe, home)
            case = DigestCase(rng, home, os.getuid(), users) if c % 12 == 5 else Case(rng, home, os.getuid(), users)
            ops, ans = case.run(h)
            rc, err = h.close()
            cookies = read_keyring(home)
            res.append({"ops": ops, "ans": ans, "rc": rc, "err": err[-2500:], "model_ops": model_script(case, ops, ans, cookies),
                        "oracle": oracle(case, ops, ans, cookies) + cookie_oracle(case, ops, ans, cookies), "sent_correct": case.sent_correct,
                        "env": {"uid": case.uid, "mechs": None if case.mechs is None else [m.decode("latin1") for m in case.mechs], "keyring": case.keyring_kind}})
        finally:
            shutil.rmtree(home, ignore_errors=True)
    return res


UNIT = [b"", b"0", b"00", b"08", b"0x", b"0x1f", b"0X1F", b"-1", b"+5", b" 7", b"\t\n 7", b"7 ", b"18446744073709551615", b"18446744073709551616",
        b"-18446744073709551615", b"-18446744073709551616", b"0777", b"1e3", b"- 1", b"--1", b"0x-1", b"1\x00", b"\x0b9", b"0xg", b"00x1", b"99999999999999999999999"]


def unit_ops(rng, n):
    ops = []
    for s in UNIT:
        ops.append("auth parse " + hx(s))
    for _ in range(n):
        k = rng.random()
        if k < 0.4:
            ops.append("auth sha " + hx(bytes(rng.randrange(256) for _ in range(rng.choice([0, 1, 3, 55, 56, 57, 63, 64, 65, 119, 120, 127, 128, 200, 1000])))))
        elif k < 0.7:
            s = rng.choice([b"", b" ", b"-", b"+", b"0x", b"0", b"\t"]) + bytes(rng.choice(b"0123456789abcdefxX -+") for _ in range(rng.randint(0, 22)))
            ops.append("auth parse " + hx(s))
        else:
            ops.append("auth hexdec " + hx(bytes(rng.choice(b"0123456789abcdefABCDEFg \r") for _ in range(rng.randint(0, 12)))))
    return ops


def run(ctx):
    check.lean_obligations(ctx, MODULE, THEOREMS)
    exe = build.cc("h_auth", ["harness/lib/h_auth.c"])
    os.makedirs(os.path.join(CACHE, "run"), exist_ok=True)
    rng = random.Random(ctx.seed * 7368787 + 8)
    # unit level: SHA-1, strtoul, hex decoding
    uops = unit_ops(rng, 400 if ctx.quick() else 6000)
    d = script.diff([exe], uops)
    ok = d["rc"] == 0 and d["n_impl"] == d["n_model"] == len(uops) and not d["rows"]
    if not ok:
        row = d["rows"][0] if d["rows"] else None
        ctx.violate("SHA-1 / number parsing / hex decoding: implementation and model differ: %s" % (row,),
                    {"ops": [row[1]] if row else uops[:5], "stderr": d["stderr"]}, False)
    ctx.oblige("correspondence K:auth-units (dbus-sha.c = FIPS 180 SHA-1; _dbus_is_a_number = strtoul model; hex decoding)", "correspondence", ok)
    # connection level
    njobs = 14
    per = 18 if ctx.quick() else 400
    with ProcessPoolExecutor(njobs) as ex:
        chunks = list(ex.map(_job, [(ctx.seed * 1000003 + 31 * j, per, exe) for j in range(njobs)]))
    cases = [c for ch in chunks for c in ch]
    text = "\n".join(l for c in cases for l in c["model_ops"]) + "\n"
    model, _ = script.run_model(text)
    pos = 0
    agree = True
    stats = {"cases": len(cases), "ops": 0, "authenticated": 0, "waiting_for_begin": 0, "need_disconnect": 0, "by_mech": {}, "rejected": 0,
             "correct_cookie_sent": 0, "overflow": 0, "errors": 0}
    for c in cases:
        n = len(c["model_ops"])
        mine = model[pos:pos + n]; pos += n
        replay = {"kind": "auth-case", "ops": c["ops"], "model_ops": c["model_ops"], "env": c["env"]}
        stats["ops"] += n
        stats["correct_cookie_sent"] += bool(c["sent_correct"])
        last = [a for a in c["ans"] if a][-1] if any(c["ans"]) else ""
        for a in c["ans"][1:]:
            if a:
                stats["rejected"] += len(re.findall(r"52454a4543544544", fld(a, "new") or ""))
                stats["errors"] += len(re.findall(r"4552524f5220", fld(a, "new") or ""))
        stl = fld(last, "st") or ""
        if stl == "Authenticated":
            stats["authenticated"] += 1; stats["by_mech"][fld(last, "mech")] = stats["by_mech"].get(fld(last, "mech"), 0) + 1
        if stl == "NeedDisconnect": stats["need_disconnect"] += 1
        if stl == "WaitingForBegin": stats["waiting_for_begin"] += 1
        if any(a and int(fld(a, "in") or 0) > MAXBUF for a in c["ans"][1:]): stats["overflow"] += 1
        if c["rc"] != 0 or any(a is None for a in c["ans"]):
            agree = False
            ctx.violate("the server-side authentication code aborted (sanitizer or assertion) on handshake input: " + c["err"][-300:],
                        dict(replay, stderr=c["err"]), True)
            continue
        if c["oracle"]:
            agree = False
            ctx.violate("authentication property fails on the implementation's own trace: " + c["oracle"][0], dict(replay, oracle=c["oracle"][:5]), True)
            continue
        for i, (a, m) in enumerate(zip(c["ans"], mine)):
            if a != m:
                agree = False
                ctx.violate("DBusAuth and the model disagree at step %d (%s): impl '%s' model '%s'" % (i, c["ops"][i][:80], a[:300], m[:300]),
                            dict(replay, step=i, impl=a, model=m), False)
                break
    ctx.oblige("correspondence K:auth (adaptive client against a real server-side DBusAuth; whole internal state after every operation)",
               "correspondence", agree)
    ctx.coverage.update({"evaluations": stats["ops"] + len(uops), "distinct_nontrivial": len(set(tuple(c["ops"]) for c in cases)),
                         "rule": "per case: socket credentials (uid = server owner / other / unset / 2^32-1, pid, groups, label), permitted mechanisms (any, subsets, "
                                 "unknown names, none), fd passing possible or not, keyring fresh/mixed/stale/absent; then 2-14 feeds (or a flood of up to 700) of command "
                                 "lines chosen from AUTH (each mechanism, unknown, case variants, with/without initial response), DATA (identity strings incl. strtoul "
                                 "corner cases and user names, correct and 13 kinds of wrong cookie responses (among them proper prefixes and extensions of the right digest), malformed hex), CANCEL, ERROR, BEGIN, NEGOTIATE_UNIX_FD, "
                                 "client-only and unknown commands, blank/CR/LF/NUL/non-ASCII oddities, lines at the 16 KiB limit; random chunking, several lines "
                                 "per write, bytes after BEGIN, partial and missing draining of replies",
                         "distribution": stats, "samples": [cases[0]["ops"][:12]] if cases else [],
                         "traces_validated_against_impl": len(cases)})
    run_daemon(ctx)
    ctx.assumptions += ["kernel credentials, user database and keyring contents are parameters of the model (Env); the keyring code (dbus-keyring.c) is exercised "
                        "by the harness but only its result (cookie id, secret) enters the model",
                        "out-of-memory paths of dbus-auth.c are not modelled (C14)",
                        "the transport's identity gate (auth_via_default_rules / unix-user function) is modelled and proved about, and compared end to end by the daemon-level run"]


# ---------------------------------------------------------------- daemon level

DCONFIGS = [
    {"name": "session-default", "auth": None, "anon": False, "allusers": False},
    {"name": "all-users", "auth": None, "anon": False, "allusers": True},
    {"name": "anonymous-enabled", "auth": ["ANONYMOUS", "EXTERNAL"], "anon": True, "allusers": True},
    {"name": "anonymous-mech-without-allow-anonymous", "auth": ["ANONYMOUS", "DBUS_COOKIE_SHA1"], "anon": False, "allusers": True},
    {"name": "external-only-allow-anonymous", "auth": ["EXTERNAL"], "anon": True, "allusers": False},
    # the same restrictions must hold on an address given on the command line (--address=), which is bound by other code than <listen>
    {"name": "external-only-cli-address", "auth": ["EXTERNAL"], "anon": False, "allusers": True, "cli": True},
    {"name": "cookie-only-cli-address", "auth": ["DBUS_COOKIE_SHA1"], "anon": False, "allusers": True, "cli": True},
]


def _read_quiet(sock, quiet, limit=3.0):
    import select
    buf, eof = b"", False
    t0 = time.time()
    while time.time() - t0 < limit:
        r, _, _ = select.select([sock], [], [], quiet)
        if not r:
            break
        try:
            d = sock.recv(65536)
        except (ConnectionResetError, OSError):
            eof = True; break
        if not d:
            eof = True; break
        buf += d
    return buf, eof


def _daemon_job(args):
    import socket
    from .. import bus, busdiff, wiregen
    seed, cfg, nconn = args
    rng = random.Random(seed)
    home = tempfile.mkdtemp(prefix="authd-", dir=os.path.join(CACHE, "run")); os.chmod(home, 0o700)
    os.environ["DBUS_TEST_HOMEDIR"] = home
    rules = list(busdiff.SESSION.rules) + ([("default", True, {"user": "*"})] if cfg["allusers"] else [])
    d = bus.Daemon(policy=busdiff.Policy(rules).to_xml(), auth=cfg["auth"], extra="<allow_anonymous/>" if cfg["anon"] else "",
                   limits={"auth_timeout": 60000}, cli_address=bool(cfg.get("cli")))
    users = users_table()
    out = []
    try:
        for _ in range(nconn):
            uid = rng.choice([0, 0, 1000, 65534])
            case = Case(rng, home, 0, users)
            case.uid, case.pid, case.gids, case.label = uid, None, None, None
            case.mechs = None if cfg["auth"] is None else [m.encode() for m in cfg["auth"]]
            case.fd = True
            write_keyring(home, rng, rng.choice(["fresh", "mixed", "none"])) if not os.path.exists(os.path.join(home, ".dbus-keyrings", CONTEXT.decode())) else None
            old = os.geteuid()
            if uid != old:
                os.setegid(pwd.getpwuid(uid).pw_gid); os.seteuid(uid)
            try:
                sk = socket.socket(socket.AF_UNIX, socket.SOCK_STREAM); sk.connect(d.path)
            finally:
                if uid != old:
                    os.seteuid(old); os.setegid(0)
            first = rng.choice([b"\0"] * 30 + [b"", b"\x01", b"A"])
            polite = rng.random() < 0.6
            script_lines = []
            if polite:
                def good():
                    mech = rng.choice(case.mechs or MECHS)
                    if mech == b"EXTERNAL": return [b"AUTH EXTERNAL " + str(uid).encode().hex().encode()] if rng.random() < 0.7 else [b"AUTH EXTERNAL", b"DATA"]
                    if mech == b"ANONYMOUS": return [b"AUTH ANONYMOUS " + b"x".hex().encode()]
                    return [b"AUTH DBUS_COOKIE_SHA1 " + rng.choice([b"0", b"root", str(uid).encode()]).hex().encode(), None]
                script_lines = good()
                if rng.random() < 0.3: script_lines += [b"NEGOTIATE_UNIX_FD"]
                if rng.random() < 0.3: script_lines += [rng.choice([b"CANCEL", b"ERROR"])] + good()
                script_lines += [b"BEGIN"]
            sent, got, eof = b"", b"", False
            st = "WaitingForAuth"
            hello = bus.method_call(1, "org.freedesktop.DBus", "/org/freedesktop/DBus", "org.freedesktop.DBus", "Hello").marshal()
            tail = rng.choice([hello] * 6 + [b"", b"garbage!", b"\0\0\0\0", hello[:20]])
            chunks = []
            began = False
            for i in range(rng.randint(1, 8) if not polite else len(script_lines)):
                line = case.line(st)
                if polite:
                    line = script_lines[i]
                    if line is None:
                        line = b"DATA " + case.cookie_response(True).hex().encode() if st == "WaitingForData" else b"DATA"
                if len(line) > 4000:
                    line = line[:50]
                chunk = line + b"\r\n"
                if rng.random() < 0.25 and not polite:
                    chunk += case.line(st)[:200] + b"\r\n"
                if st == "WaitingForBegin" and (chunk.startswith(b"BEGIN ") or chunk.startswith(b"BEGIN\r") or chunk.startswith(b"BEGIN\t")):
                    chunk = chunk.split(b"\r\n")[0] + b"\r\n" + tail
                    began = True
                if i == 0:
                    chunk = first + chunk
                try:
                    sk.sendall(chunk)
                except OSError:
                    eof = True
                sent += chunk
                b, e = _read_quiet(sk, 0.04)
                got += b; eof = eof or e
                for l in b.split(b"\r\n"):
                    if l.startswith(b"OK "): st = "WaitingForBegin"
                    elif l.startswith(b"REJECTED"): st = "WaitingForAuth"; case.last_challenge = None
                    elif l.startswith(b"DATA"):
                        st = "WaitingForData"
                        try:
                            f = bytes.fromhex(l[5:].decode()).split(b" ")
                            if len(f) == 3 and f[1].isdigit():
                                case.last_challenge = (int(f[1]), f[2])
                        except ValueError:
                            pass
                if eof or began:
                    break
            b, e = _read_quiet(sk, 0.25)
            got += b; eof = eof or e
            # identity as the bus reports it
            reported = None
            k = got.find(b"l\x02")
            if k >= 0 and not eof:
                try:
                    n = wiregen.message_length(got[k:])
                    m = wiregen.parse_message(got[k:k + n])
                    name = m.body[0] if m.body else None
                    if name:
                        q = bus.method_call(2, "org.freedesktop.DBus", "/org/freedesktop/DBus", "org.freedesktop.DBus", "GetConnectionUnixUser", "s", [name]).marshal()
                        sk.sendall(q)
                        b2, e2 = _read_quiet(sk, 0.25)
                        n2 = wiregen.message_length(b2)
                        m2 = wiregen.parse_message(b2[:n2])
                        reported = ("uid", m2.body[0]) if m2.mtype == 2 else ("error", (m2.get(4) or b"").decode())
                except Exception as ex:
                    reported = ("parse-failure", repr(ex))
            sk.close()
            out.append({"cfg": cfg["name"], "uid": uid, "sent": sent.hex(), "got": got.hex(), "eof": eof, "reported": reported,
                        "cookies": {str(k): v.decode() for k, v in read_keyring(home).items()}, "alive": d.alive()})
            if not d.alive():
                break
    finally:
        rc, err = d.stop() if hasattr(d, "stop") else (0, "")
        shutil.rmtree(home, ignore_errors=True)
    return {"conns": out, "stderr": (err or "")[-1500:] if isinstance(err, str) else ""}


def run_daemon(ctx):
    from .. import wiregen
    nper = 12 if ctx.quick() else 150
    jobs = [(ctx.seed * 1000003 + 97 * j, DCONFIGS[j % len(DCONFIGS)], nper) for j in range(10)]
    with ProcessPoolExecutor(10) as ex:
        res = list(ex.map(_daemon_job, jobs))
    conns = [c for r in res for c in r["conns"]]
    users = users_table()
    # the model's view of every connection
    lines, plan = [], []
    for c in conns:
        cfg = [x for x in DCONFIGS if x["name"] == c["cfg"]][0]
        sent = bytes.fromhex(c["sent"])
        if not sent.startswith(b"\0"):
            plan.append(None); continue
        got = bytes.fromhex(c["got"])
        chs = []
        for l in got.split(b"\r\n"):
            m = re.match(rb"^DATA ([0-9a-f]+)$", l)
            if m:
                f = bytes.fromhex(m.group(1).decode()).split(b" ")
                if len(f) == 3 and f[0] == CONTEXT and f[1].isdigit():
                    chs.append("1:%d:%s" % (int(f[1]), f[2].hex()))
        lines.append("auth reset uid=%d pid=- gids=- label=- mechs=%s fd=1 guid=%s context=%s self=0 users=%s cookies=%s" % (
            c["uid"], "*" if cfg["auth"] is None else ",".join(m.encode().hex() for m in cfg["auth"]), (b"0" * 32).hex(), CONTEXT.hex(),
            ",".join("%s:%d" % (n.hex(), u) for n, u in users.items()) or "-",
            ",".join("%s:%s" % (i, v.encode().hex()) for i, v in c["cookies"].items()) or "-"))
        lines.append("auth feed " + hx(sent[1:]) + "".join(" " + x for x in chs))
        plan.append(len(lines) - 1)
    model, _ = script.run_model("\n".join(lines) + "\n") if lines else ([], "")
    ok = True
    stats = {"connections": len(conns), "accepted": 0, "refused_at_gate": 0, "not_authenticated": 0, "no_nul_byte": 0, "anonymous_accepted": 0, "by_config": {}}
    for c, pl in zip(conns, plan):
        cfg = [x for x in DCONFIGS if x["name"] == c["cfg"]][0]
        got = bytes.fromhex(c["got"])
        replay = {"kind": "auth-daemon", "config": cfg, "uid": c["uid"], "sent": c["sent"], "got": c["got"], "reported": c["reported"]}
        stats["by_config"][c["cfg"]] = stats["by_config"].get(c["cfg"], 0) + 1
        if not c["alive"]:
            ok = False
            ctx.violate("dbus-daemon died during an authentication handshake", dict(replay), True); continue
        if pl is None:
            stats["no_nul_byte"] += 1
            if got or not c["eof"]:
                ok = False
                ctx.violate("a connection that did not start with the NUL credentials byte was answered or kept open", replay, True)
            continue
        m = model[pl]
        exp = unhx(fld(m, "new"))
        k = got.find(b"l\x02") if b"l\x02" in got else (got.find(b"l\x03") if b"l\x03" in got else -1)
        sasl = got if k < 0 else got[:k]
        mask = lambda b: re.sub(rb"OK [0-9a-f]{32}", b"OK " + b"0" * 32, b)
        st = fld(m, "st")
        idu = fld(m, "id").split("/")[0]
        accept = st == "Authenticated" and ((idu != "-" and (cfg["allusers"] or idu == "0")) or (idu == "-" and cfg["anon"]))
        unused = int(fld(m, "in"))
        # independent of the model: with <auth> elements in the configuration the server offers, and goes along with, those mechanisms only
        if cfg["auth"] is not None:
            offered = set()
            for l in sasl.split(b"\r\n"):
                if l.startswith(b"REJECTED"):
                    offered |= set(x.decode("latin1") for x in l.split()[1:])
            extra = offered - set(cfg["auth"])
            if extra:
                ok = False
                ctx.violate("the server offers mechanism(s) %s although the configuration permits only %s (config %s)" % (sorted(extra), cfg["auth"], cfg["name"]),
                            dict(replay, model=m), True); continue
        if mask(sasl) != mask(exp):
            ok = False
            ctx.violate("dbus-daemon's handshake replies differ from the model's: got %r expected %r" % (mask(sasl)[:200], mask(exp)[:200]),
                        dict(replay, model=m), False); continue
        served = k >= 0
        if served and not accept:
            ok = False
            ctx.violate("the bus served a connection that the handshake/identity gate must refuse (model: %s, identity %s, config %s)" % (st, fld(m, "id"), cfg["name"]),
                        dict(replay, model=m), True); continue
        if st == "Authenticated":
            if accept:
                stats["accepted"] += 1
                if idu == "-": stats["anonymous_accepted"] += 1
                rep = c["reported"]
                if served and rep is not None:
                    if idu != "-" and tuple(rep) != ("uid", int(idu)):
                        ok = False
                        ctx.violate("the bus reports identity %s for a connection authenticated as uid %s" % (rep, idu), dict(replay, model=m), True)
                    if idu == "-" and rep[0] == "uid":
                        ok = False
                        ctx.violate("the bus reports uid %s for an anonymous connection" % (rep[1],), dict(replay, model=m), True)
            else:
                stats["refused_at_gate"] += 1
                if not c["eof"]:
                    ok = False
                    ctx.violate("a connection whose identity the gate refuses was not closed", dict(replay, model=m), True)
        else:
            stats["not_authenticated"] += 1
            if st == "NeedDisconnect" and not c["eof"]:
                ok = False
                ctx.violate("the handshake ended in NeedDisconnect but the connection was kept open", dict(replay, model=m), True)
    ctx.oblige("correspondence K:auth-daemon (real sockets and credentials: SASL replies, acceptance by the identity gate, identity reported by the bus, bytes after BEGIN as messages)",
               "correspondence", ok)
    ctx.coverage.setdefault("distribution", {})["daemon_level"] = stats
    ctx.coverage["evaluations"] = ctx.coverage.get("evaluations", 0) + len(conns)


def replay(path):
    data = json.load(open(path))
    rp = data["replay"]
    if rp.get("kind") != "auth-case":
        print("replay: no handshake recorded: %s" % data.get("what")); return 1
    exe = build.cc("h_auth", ["harness/lib/h_auth.c"]); lean.build_driver()
    home = tempfile.mkdtemp(prefix="auth-", dir=os.path.join(CACHE, "run")); os.chmod(home, 0o700)
    try:
        h = Harness(exe, home)
        ans = [h.ask(o) for o in rp["ops"]]
        rc, err = h.close()
    finally:
        shutil.rmtree(home, ignore_errors=True)
    model, _ = script.run_model("\n".join(rp["model_ops"]) + "\n")
    bad = rc != 0
    for o, a, m in zip(rp["ops"], ans, model):
        if a != m:
            print("op %s:\n impl=%s\n model=%s" % (o[:100], a, m)); bad = True
    print("replay C08: rc=%s %s" % (rc, err[-400:]))
    if bad:
        print("VIOLATION property=C08 replay=%s" % path)
    return 1 if bad else 0
