"""C18 — a monitor sees everything that matches and can affect nothing."""
import random, json, re
from ..common import *
from .. import check, buscheck, busdiff, busgen
from ..buscheck import fld, hexname, Tracker

MODULE = "Dbus.Props.C18"
THEOREMS = ["capture_exact", "target_iff", "targets_nodup", "routed_message_is_captured", "driver_message_is_captured",
            "owner_changed_is_captured", "driver_call_is_captured", "monitor_never_recipient", "monitor_sending_is_dropped",
            "f18_peer_filter_answers_monitors", "monitor_rules_eavesdrop", "gate_ignores_monitors", "others_observe_the_same_partial", "peer_traffic_step_ignores_monitors_partial",
            "driver_sends_the_same_partial", "new_monitor_has_no_rules", "step_ignores_monitors", "others_observe_the_same",
            "others_observe_the_same_from_start", "states_agree_up_to_shading", "shaded_bus_has_no_monitor", "reachable_monitor_is_inert", "reachable_states_are_good"]
BUS = "org.freedesktop.DBus"
W = {"monitor": 6, "call": 16, "reply": 8, "signal": 14, "request": 12, "release": 4, "close": 4, "connect": 6, "hello": 5, "addmatch": 5,
     "forged": 3, "query": 3, "driver_edge": 3, "nodest": 4, "badtype": 1, "garbage": 1, "removematch": 1}


def is_become_monitor(sent):
    return sent and hexname(fld(sent, "member")) == "BecomeMonitor" and hexname(fld(sent, "dest")) == BUS and fld(sent, "t") == "1"


def oracle(tr):
    bad = []
    monitors = {}       # cid -> True when its filter is match-all (empty rule list)
    selective = {}      # cid -> [(key, unique name)] for monitors whose filter only names unique names
    names = {}
    tk = Tracker()      # who owns which name (a filter destination=':1.N' is about the addressee, under whatever name it was addressed)
    for i, (per, closed) in enumerate(tr.steps):
        op = tr.ops[i]
        tk.before(i, tr)
        sent = tr.sent(i) if op[0] == "send" else None
        actor = op[1] if op[0] == "send" else None
        if sent and hexname(fld(sent, "member")) == "Hello" and actor not in names:
            for l in per.get(actor, []):
                if fld(l, "t") == "2" and fld(l, "rs") == fld(sent, "ser") and fld(l, "sig") == "73":
                    names[actor] = bytes.fromhex(fld(l, "body")[2:]).decode("latin1")
        # a monitor that sends
        if actor in monitors and sent:
            peer = fld(sent, "dest") == "-" and hexname(fld(sent, "iface")) == "org.freedesktop.DBus.Peer"
            if peer:
                if actor not in closed:
                    bad.append(("c18.peer-filter-answers-monitor",
                                "step %d: monitor %d sent a destination-less Peer message, was answered and stays connected" % (i, actor)))
            elif actor not in closed:
                bad.append((None, "step %d: monitor %d sent a message and was not disconnected" % (i, actor)))
        # everything other connections were handed must have been shown to every match-all monitor, once
        full = [m for m, allm in monitors.items() if allm and m not in closed and not (op[0] == "close" and op[1] == m)]
        for m in full:
            mine = per.get(m, [])
            for to, ls in per.items():
                if to in monitors or to == m:
                    continue
                for l in set(ls):
                    if fld(l, "sender") == "-":
                        continue            # replies of the connection layer never pass bus_dispatch
                    n = mine.count(l)
                    if n != 1:
                        bad.append((None, "step %d: a message delivered to connection %d was shown %d times to monitor %d: %s" % (i, to, n, m, l[:160])))
            # the message being processed itself, delivered or not
            if sent and actor in names and actor not in monitors and fld(sent, "t") in ("1", "2", "3", "4") and \
                    (fld(sent, "dest") != "-" or fld(sent, "t") == "4") and \
                    not (fld(sent, "dest") == "-" and hexname(fld(sent, "iface")) == "org.freedesktop.DBus.Peer"):
                k = len([l for l in mine if fld(l, "ser") == fld(sent, "ser") and hexname(fld(l, "sender")) == names[actor] and fld(l, "t") == fld(sent, "t")])
                if k != 1:
                    bad.append((None, "step %d: the processed message (serial %s from %s) was shown %d times to monitor %d" % (i, fld(sent, "ser"), names[actor], k, m)))
        # monitors whose filter only names unique names (destination=':1.N' / sender=':1.N' rules): the processed message must be
        # shown once when it is addressed to, or comes from, such a name - whether or not that connection still exists
        if sent and actor in names and actor not in monitors and fld(sent, "t") in ("1", "2", "3", "4") and \
                not (fld(sent, "dest") == "-" and hexname(fld(sent, "iface")) == "org.freedesktop.DBus.Peer") and (fld(sent, "dest") != "-" or fld(sent, "t") == "4"):
            for m, rules in selective.items():
                if m in closed or m not in monitors or (op[0] == "close" and op[1] == m):
                    continue
                d = hexname(fld(sent, "dest"))
                own = tk.primary(d) if d not in (None, BUS) and not d.startswith(":") else None
                owner_name = tk.names.get(own) if own not in (None, "?") else None
                hit = any((k == "destination" and (d == v or owner_name == v)) or (k == "sender" and names[actor] == v) for k, v in rules)
                if hit:
                    k = len([l for l in per.get(m, []) if fld(l, "ser") == fld(sent, "ser") and hexname(fld(l, "sender")) == names[actor] and fld(l, "t") == fld(sent, "t")])
                    if k != 1:
                        bad.append((None, "step %d: the processed message (serial %s from %s to %s) matches monitor %d's filter %s and was shown to it %d times" %
                                    (i, fld(sent, "ser"), names[actor], d, m, rules, k)))
        # a monitor owns no names: nothing tells it that it acquired one, nothing tells the others that it owns one
        for m in list(monitors):
            if m in closed or m not in names:
                continue
            for l in per.get(m, []):
                if hexname(fld(l, "sender")) == BUS and hexname(fld(l, "member")) == "NameAcquired" and hexname(fld(l, "dest")) == names[m]:
                    bad.append((None, "step %d: monitor %d (%s) was told NameAcquired: %s" % (i, m, names[m], (fld(l, "body") or "")[:80])))
            for to, ls in per.items():
                for l in ls:
                    if hexname(fld(l, "sender")) == BUS and hexname(fld(l, "member")) == "NameOwnerChanged":
                        parts = (fld(l, "body") or "").split(",")
                        if len(parts) == 3 and parts[2].startswith("s:") and hexname(parts[2][2:]) == names[m] and hexname(parts[0][2:]) != names[m]:
                            bad.append((None, "step %d: NameOwnerChanged announces monitor %d (%s) as the new owner of %s" % (i, m, names[m], hexname(parts[0][2:]))))
        # becoming a monitor
        if is_become_monitor(sent) and actor not in monitors:
            acks = [l for l in per.get(actor, []) if fld(l, "t") == "2" and fld(l, "rs") == fld(sent, "ser") and hexname(fld(l, "sender")) == BUS]
            if acks:
                body = fld(sent, "body") or ""
                monitors[actor] = body.startswith("A[s|]")
                mm = re.match(r"^A\[s\|([^\]]*)\],u:0$", body)
                if mm and mm.group(1):
                    texts = [bytes.fromhex(x[2:]).decode("latin1") if x != "s:-" else "" for x in mm.group(1).split(",")]
                    parsed = [re.match(r"^(destination|sender)='(:1\.\d+)'$", t) for t in texts]
                    if all(parsed):
                        selective[actor] = [(p_.group(1), p_.group(2)) for p_ in parsed]
        for c in closed:
            monitors.pop(c, None); names.pop(c, None); selective.pop(c, None)
        if op[0] == "close":
            monitors.pop(op[1], None); names.pop(op[1], None); selective.pop(op[1], None)
        tk.after(i, tr)
    return bad


def without_monitors(tr):
    """the same history with every successful BecomeMonitor replaced by a disconnect of that connection"""
    mons, ops2 = set(), []
    for i, op in enumerate(tr.ops):
        per, closed = tr.steps[i]
        if op[0] in ("send", "close") and op[1] in mons:
            ops2.append(None); continue
        sent = tr.sent(i) if op[0] == "send" else None
        if is_become_monitor(sent) and any(fld(l, "t") == "2" and fld(l, "rs") == fld(sent, "ser") for l in per.get(op[1], [])):
            mons.add(op[1]); ops2.append(("close", op[1])); continue
        ops2.append(op)
    return mons, ops2


def _interference_job(args):
    seed, n_ops = args
    try:
        r = random.Random(seed)
        ops, stats = busgen.history(r, n_ops, weights=dict(W, monitor=5, garbage=0, driver_edge=0), max_conns=5, rule_uniques=False)
        steps, died, unique = busdiff.run_impl(ops)
        tr = buscheck.Trace(ops, busdiff.dump_steps(steps), unique)
        mons, ops2 = without_monitors(tr)
        if not mons:
            return {"seed": seed, "monitors": 0, "diffs": []}
        keep = [o for o in ops2 if o is not None]
        steps2, died2, unique2 = busdiff.run_impl(keep)
        tr2 = busdiff.dump_steps(steps2)
        diffs, j = [], 0
        for i, o in enumerate(ops2):
            if o is None:
                continue
            a, b = tr.steps[i][0], tr2[j][0]
            for cid in set(a) | set(b):
                if cid in mons:
                    continue
                # (the BecomeMonitor call itself is a message like any other: a connection that eavesdrops on calls to the bus sees
                #  it in the first run; the second run has a hang-up in its place)
                x = sorted(l for l in a.get(cid, []) if (" member=" + b"BecomeMonitor".hex() + " ") not in (l + " "))
                y = sorted(b.get(cid, []))
                if x != y:
                    diffs.append("step %d, connection %d: with the monitor %s, without %s" % (i, cid, x[:3], y[:3]))
            j += 1
        return {"seed": seed, "monitors": len(mons), "diffs": diffs[:3], "ops": [busdiff.show_op(o) for o in ops]}
    except InfraError as e:
        return {"seed": seed, "infra": str(e)}
    except Exception:
        import traceback
        return {"seed": seed, "infra": traceback.format_exc()[-1200:]}


def run(ctx):
    check.lean_obligations(ctx, MODULE, THEOREMS)
    findings = {e["class"]: e for e in check.load_findings("C18") if e.get("status") == "known"}
    n = 60 if ctx.quick() else 1500
    buscheck.run_histories(ctx, n, 70 if ctx.quick() else 110, oracle, gen_kw={"weights": W, "max_conns": 5},
                           findings=findings, label="monitors")
    deny = busdiff.Policy([("default", True, {"user": "*"})] + busdiff.SESSION.rules +
                          [("default", False, {"send_destination": BUS, "send_interface": BUS, "send_member": "ListNames"}),
                           ("default", False, {"send_destination": BUS, "send_interface": BUS, "send_member": "RequestName"}),
                           ("default", False, {"send_destination": "com.example.B"}),
                           ("default", False, {"receive_interface": "a.b.c", "receive_type": "signal"})])
    buscheck.run_histories(ctx, n // 2, 70, oracle, gen_kw={"weights": dict(W, query=8, request=14), "max_conns": 5}, policy=deny,
                           findings=findings, seed_salt=42, label="monitors-with-denials")
    buscheck.run_histories(ctx, 0, 0, oracle, findings=findings, seed_salt=43, label="vanished-peer-filters", scripts=vanished_peer_scripts())
    buscheck.run_histories(ctx, 0, 0, oracle, findings=findings, seed_salt=44, label="filters-by-owner", scripts=owner_filter_scripts())
    buscheck.run_histories(ctx, 0, 0, oracle, findings=findings, seed_salt=45, label="queued-then-monitor", scripts=queued_monitor_scripts())
    # monitors together with service activation: model (activation layer) against the daemon, step by step
    from .. import actcheck, actdiff, actgen
    actcheck.run_histories(ctx, 0, 0, actdiff.Svc(actgen.DEFAULT_FILES), scripts=activation_scripts(), label="monitors-and-activation",
                           oracle_fn=lambda tr: [], prop="C18")
    actcheck.run_histories(ctx, 24 if ctx.quick() else 600, 60, actdiff.Svc(actgen.DEFAULT_FILES), gen_kw={"max_conns": 5, "weights": {"monitor": 5}},
                           seed_salt=47, label="activation-with-monitors", oracle_fn=lambda tr: [], prop="C18")
    # non-interference on the implementation itself: the same history with the monitor gone instead
    from concurrent.futures import ProcessPoolExecutor
    k = 30 if ctx.quick() else 500
    with ProcessPoolExecutor(14) as ex:
        res = list(ex.map(_interference_job, [(ctx.seed * 1000003 + 41 * 7919 + i, 60) for i in range(k)], chunksize=1))
    infra = [r for r in res if "infra" in r]
    if len(infra) > max(2, k // 10):
        raise InfraError("interference harness failed: " + infra[0]["infra"][:600])
    good = [r for r in res if "infra" not in r]
    withm = [r for r in good if r["monitors"]]
    badr = [r for r in withm if r["diffs"]]
    ctx.oblige("non-interference on the daemon: %d histories with monitors re-run with the monitor disconnected instead; every other "
               "connection receives the same messages in every step" % len(withm), "differential", not badr,
               "" if not badr else badr[0]["diffs"][0][:300])
    for r in badr[:3]:
        ctx.violate("other clients observe something different when a connection becomes a monitor instead of leaving: " + r["diffs"][0][:300],
                    {"kind": "bus-history", "label": "interference", "seed": r["seed"], "policy": busdiff.SESSION.rules, "limits": None,
                     "extra": "", "ops": r["ops"], "diffs": r["diffs"]}, True)
    ctx.coverage.setdefault("histories", {})["interference"] = {"histories": len(good), "with_monitors": len(withm)}


def queued_monitor_scripts():
    """a connection that waits in a name's queue (and owns another name outright) becomes a monitor: it leaves every queue, so that when
    the owner gives the name up nobody - in particular not the monitor - owns it"""
    from ..bus import method_call, BUS_PATH
    hello = lambda: method_call(1, BUS, BUS_PATH, BUS, "Hello").marshal()
    become = lambda rules: method_call(20, BUS, BUS_PATH, "org.freedesktop.DBus.Monitoring", "BecomeMonitor", "asu", [rules, 0]).marshal()
    req = lambda s, n, f=0: method_call(s, BUS, BUS_PATH, BUS, "RequestName", "su", [n, f]).marshal()
    base = [("connect", 0, 0, False), ("send", 0, hello())] + [x for c in (1, 2, 3) for x in (("connect", c, 0, False), ("send", c, hello()))]
    out = []
    for rules in ([], [b"type='signal'"]):
        for how in ("release", "close"):
            for also_owner in (False, True):
                for second_waiter in (False, True):
                    ops = list(base) + [("send", 0, req(2, b"com.example.A")), ("send", 1, req(3, b"com.example.A"))]
                    if also_owner:
                        ops.append(("send", 1, req(4, b"com.example.B")))
                    if second_waiter:
                        ops.append(("send", 3, req(5, b"com.example.A")))
                    ops.append(("send", 1, become(rules)))
                    ops.append(("send", 2, method_call(6, BUS, BUS_PATH, BUS, "ListQueuedOwners", "s", [b"com.example.A"]).marshal()))
                    ops.append(("send", 0, method_call(7, BUS, BUS_PATH, BUS, "ReleaseName", "s", [b"com.example.A"]).marshal()) if how == "release" else ("close", 0))
                    ops += [("send", 2, method_call(8, BUS, BUS_PATH, BUS, "GetNameOwner", "s", [b"com.example.A"]).marshal()),
                            ("send", 2, method_call(9, "com.example.A", "/a", "a.b", "ToTheName", "s", [b"x"]).marshal()),
                            ("send", 2, method_call(10, BUS, BUS_PATH, BUS, "NameHasOwner", "s", [b"com.example.B"]).marshal())]
                    out.append(ops)
    return out


def owner_filter_scripts():
    """a monitor's filter destination=':1.N' is about who the message is for: it matches what is sent to any name :1.N owns at the time"""
    from ..bus import method_call, signal_msg, BUS_PATH
    hello = lambda: method_call(1, BUS, BUS_PATH, BUS, "Hello").marshal()
    def become(rules):
        return method_call(2, BUS, BUS_PATH, "org.freedesktop.DBus.Monitoring", "BecomeMonitor", "asu", [rules, 0]).marshal()
    req = lambda s, n: method_call(s, BUS, BUS_PATH, BUS, "RequestName", "su", [n, 0]).marshal()
    base = [("connect", 0, 0, False), ("send", 0, hello())] + [x for c in (1, 2, 3) for x in (("connect", c, 0, False), ("send", c, hello()))]
    out = []
    for rules in ([b"destination=':1.2'"], [b"destination=':1.2'", b"sender=':1.3'"]):
        out.append(base + [("send", 2, req(2, b"com.example.A")), ("send", 2, req(3, b"com.example.B")), ("send", 1, become(rules)),
                           ("send", 3, method_call(5, ":1.2", "/a", "a.b", "ViaUnique", "s", [b"u"]).marshal()),
                           ("send", 3, method_call(6, "com.example.A", "/a", "a.b", "ViaWellKnown", "s", [b"w"]).marshal()),
                           ("send", 0, signal_msg(7, "/a", "a.b", "ViaOther", "s", [b"o"], dest="com.example.B").marshal()),
                           ("send", 0, method_call(8, "com.example.Nobody", "/a", "a.b", "ToNobody").marshal()),
                           ("send", 2, method_call(9, BUS, BUS_PATH, BUS, "ReleaseName", "s", [b"com.example.A"]).marshal()),
                           ("send", 3, method_call(10, "com.example.A", "/a", "a.b", "AfterRelease").marshal())])
    return out


def vanished_peer_scripts():
    """a monitor filtering on a peer's unique name keeps seeing traffic addressed to (or claiming to come from) that name after
    the peer has gone: the filter is the monitor's, not the peer's"""
    from ..bus import method_call, signal_msg, BUS_PATH
    hello = lambda: method_call(1, BUS, BUS_PATH, BUS, "Hello").marshal()
    def become(rules):
        return method_call(2, BUS, BUS_PATH, "org.freedesktop.DBus.Monitoring", "BecomeMonitor", "asu", [rules, 0]).marshal()
    base = [("connect", 0, 0, False), ("send", 0, hello())] + [x for c in (1, 2, 3) for x in (("connect", c, 0, False), ("send", c, hello()))]
    out = []
    for rules in ([b"destination=':1.2'"], [b"sender=':1.2'"], [b"destination=':1.2'", b"destination=':1.3'"]):
        for peer_has_rule in (False, True):
            ops = list(base)
            if peer_has_rule:
                ops.append(("send", 2, method_call(5, BUS, BUS_PATH, BUS, "AddMatch", "s", [b"type='signal',member='N'"]).marshal()))
            ops += [("send", 1, become(rules)),
                    ("send", 3, method_call(5, ":1.2", "/a", "a.b", "M", "s", [b"before"]).marshal()),
                    ("send", 2, signal_msg(6, "/a", "a.b", "M", "s", [b"from the peer"]).marshal()),
                    ("close", 2),
                    ("send", 3, method_call(6, ":1.2", "/a", "a.b", "M", "s", [b"after"]).marshal()),
                    ("send", 3, signal_msg(7, "/a", "a.b", "M", "s", [b"x"], dest=":1.2").marshal()),
                    ("send", 3, method_call(8, ":1.3", "/a", "a.b", "M", "s", [b"self"]).marshal())]
            out.append(ops)
    return out


def activation_scripts():
    """monitors and service activation together (the one place the history theorem does not reach): a connection whose call is held for a
    service being started becomes a monitor before the service arrives; a monitor watches an activation from beginning to end"""
    from ..bus import method_call, BUS_PATH
    hello = lambda: method_call(1, BUS, BUS_PATH, BUS, "Hello").marshal()
    def become(s, rules):
        return method_call(s, BUS, BUS_PATH, "org.freedesktop.DBus.Monitoring", "BecomeMonitor", "asu", [rules, 0]).marshal()
    def call(s, dest, member="M", flags=0):
        return method_call(s, dest, "/x", "a.b", member, "s", [b"p"], flags=flags).marshal()
    def req(s, name, fl=0):
        return method_call(s, BUS, BUS_PATH, BUS, "RequestName", "su", [name.encode(), fl]).marshal()
    def start(s, name):
        return method_call(s, BUS, BUS_PATH, BUS, "StartServiceByName", "su", [name.encode(), 0]).marshal()
    def ret(s, dest, rs):
        from ..bus import reply_msg
        return reply_msg(s, rs, dest).marshal()
    base = [("connect", 0, 0, False), ("send", 0, hello())] + [x for c in (1, 2, 3) for x in (("connect", c, 0, False), ("send", c, hello()))]
    out = []
    # the caller of a held call turns into a monitor; the service arrives, gets the call, answers it
    out.append(base + [("send", 1, call(5, "com.example.A")), ("send", 1, become(6, [])), ("send", 3, req(5, "com.example.A")),
                       ("send", 3, ret(6, ":1.1", 5)), ("send", 2, call(5, "com.example.A", "M2")), ("svcexit", "A", 0)])
    # the same with a second waiter and a StartServiceByName caller, and the program failing instead
    out.append(base + [("send", 1, call(5, "com.example.A")), ("send", 2, call(5, "com.example.A")), ("send", 2, start(6, "com.example.A")),
                       ("send", 1, become(6, [b"type='error'"])), ("svcexit", "A", 1), ("send", 2, call(7, "com.example.A"))])
    # a monitor is there from the start and watches: held, started, delivered, answered
    out.append(base + [("send", 2, become(5, [])), ("send", 1, call(5, "com.example.B")), ("send", 1, start(6, "com.example.B")),
                       ("send", 3, req(5, "com.example.B")), ("send", 3, ret(6, ":1.1", 5)), ("close", 3), ("send", 1, call(7, "com.example.B")),
                       ("svcexit", "B", "segv")])
    return out


def replay(path):
    with open(path) as f:
        d = json.load(f)
    if (d.get("replay") or d).get("kind") == "act-history":
        from .. import actcheck
        return actcheck.replay_history(path, oracle_fn=lambda tr: [], prop="C18")
    return buscheck.replay_history(path, oracle, "C18")
