"""Scripted differential run: the same operation lines go to a C harness (implementation) and
to the Lean model driver; answers are compared line by line. The driver answers
`<model> ; <spec>` for commands that also have a specification-level oracle."""
import os, subprocess
from .common import *
from . import build


def run_impl(cmd, script, env=None, timeout=300):
    """rc 124 = the harness did not finish in time (it hangs: a result, not a failure of the machinery); what it had answered until then is
    returned (read from a file, so that a harness that talks a lot can never block on a full pipe)"""
    import tempfile
    e = dict(os.environ); e.update(build.ASAN_ENV)
    if env:
        e.update(env)
    with tempfile.TemporaryFile("w+") as fo, tempfile.TemporaryFile("w+") as fe, tempfile.TemporaryFile("w+") as fi:
        fi.write(script); fi.flush(); fi.seek(0)
        p = subprocess.Popen(cmd, stdin=fi, stdout=fo, stderr=fe, text=True, env=e)
        try:
            rc = p.wait(timeout=timeout)
        except subprocess.TimeoutExpired:
            p.kill(); p.wait()
            rc = 124
        fo.seek(0); fe.seek(0)
        out, err = fo.read(), fe.read()
    if rc == 124:
        err += "\n[harness killed after %d s without finishing]" % timeout
    return rc, out.splitlines(), err


def run_model(script, timeout=600):
    p = subprocess.run([DRIVER], input=script, stdout=subprocess.PIPE, stderr=subprocess.PIPE, text=True, timeout=timeout)
    lines = p.stdout.splitlines()
    if p.returncode != 0 or not lines or not lines[-1].startswith("DONE"):
        raise InfraError("model driver failed: rc=%s %s" % (p.returncode, p.stderr[-2000:]))
    return lines[:-1], lines[-1]


def diff(cmd, ops, env=None, timeout=300):
    """ops: list of op lines. Returns dict(rc, n, rows=[(i, op, impl, model, spec)], stderr).
    rows only for lines where impl != model or impl != spec."""
    script = "\n".join(ops) + "\n"
    rc, impl, err = run_impl(cmd, script, env, timeout=timeout)
    model, done = run_model(script)
    rows = []
    n = min(len(impl), len(model))
    for i in range(n):
        m = model[i]
        if " ; " in m:
            mm, sp = m.split(" ; ", 1)
        else:
            mm = sp = m
        if impl[i] != mm or impl[i] != sp:
            rows.append((i, ops[i], impl[i], mm, sp))
    return {"rc": rc, "n_impl": len(impl), "n_model": len(model), "n_ops": len(ops), "rows": rows, "stderr": err[-3000:]}
