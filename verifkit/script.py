"""Scripted differential run: the same operation lines go to a C harness (implementation) and
to the Lean model driver; answers are compared line by line. The driver answers
`<model> ; <spec>` for commands that also have a specification-level oracle."""
import os, subprocess
from .common import *
from . import build


def run_impl(cmd, script, env=None, timeout=600):
    e = dict(os.environ); e.update(build.ASAN_ENV)
    if env:
        e.update(env)
    p = subprocess.run(cmd, input=script, stdout=subprocess.PIPE, stderr=subprocess.PIPE, text=True, env=e, timeout=timeout)
    return p.returncode, p.stdout.splitlines(), p.stderr


def run_model(script, timeout=600):
    p = subprocess.run([DRIVER], input=script, stdout=subprocess.PIPE, stderr=subprocess.PIPE, text=True, timeout=timeout)
    lines = p.stdout.splitlines()
    if p.returncode != 0 or not lines or not lines[-1].startswith("DONE"):
        raise InfraError("model driver failed: rc=%s %s" % (p.returncode, p.stderr[-2000:]))
    return lines[:-1], lines[-1]


def diff(cmd, ops, env=None):
    """ops: list of op lines. Returns dict(rc, n, rows=[(i, op, impl, model, spec)], stderr).
    rows only for lines where impl != model or impl != spec."""
    script = "\n".join(ops) + "\n"
    rc, impl, err = run_impl(cmd, script, env)
    model, done = run_model(script)
    rows = []
    n = min(len(impl), len(model))
    for i in range(n):
        m = model[i]
        if " ; " in m:
            mm, sp = m.split(" ; ", 1)
        else:
            mm = sp = m
        if impl[i] != mm or impl[i] != sp:
            rows.append((i, ops[i], impl[i], mm, sp))
    return {"rc": rc, "n_impl": len(impl), "n_model": len(model), "n_ops": len(ops), "rows": rows, "stderr": err[-3000:]}
