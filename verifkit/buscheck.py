"""Shared flow of the bus-level checks: generated histories are run against the real daemon and
the Lean model (verifkit.busdiff); every disagreement is classified with the property's own
trace oracle, which is independent of the model."""
import os, re, json, random, time, traceback
from concurrent.futures import ProcessPoolExecutor
from .common import *
from . import busdiff, busgen, check

BUS_HEX = busdiff.BUS_HEX


def fld(line, key):
    m = re.search(r"(?:^| )%s=(\S*)" % key, line)
    return m.group(1) if m else None


def hexname(h):
    if h in (None, "-"):
        return None
    if h == "empty":
        return ""
    try:
        return bytes.fromhex(h).decode("latin1")
    except ValueError:
        return h


class Trace:
    """what the implementation did: per op, {cid: [canonical lines]} and the connections it closed"""
    def __init__(self, ops, steps, unique):
        self.ops, self.steps, self.unique = ops, steps, unique

    def sent(self, i):
        """canonical line of the message sent at step i (None when not a valid message)"""
        op = self.ops[i]
        if op[0] != "send":
            return None
        if not hasattr(self, "_sent"):
            raws = [o[2] for o in self.ops if o[0] == "send"]
            outs = busdiff.script.run_model("".join("wire demarshalx " + r.hex() + "\n" for r in raws))[0]
            it = iter(outs)
            self._sent = [next(it) if o[0] == "send" else None for o in self.ops]
        l = self._sent[i]
        return l if l and l.startswith("ok ") else None


def decode_sent(raws):
    """canonical lines of messages as sent (None for bytes that are not one valid message)"""
    if not raws:
        return []
    outs = busdiff.script.run_model("".join("wire demarshalx " + r.hex() + "\n" for r in raws))[0]
    return [o if o.startswith("ok ") else None for o in outs]


def _job(args):
    seed, n_ops, gen_kw, policy_rules, limits, extra = args
    try:
        rng = random.Random(seed)
        ops, stats = busgen.history(rng, n_ops, **gen_kw)
        policy = busdiff.Policy(policy_rules)
        steps, died, unique = busdiff.run_impl(ops, policy, limits, extra)
        diff = busdiff.compare(ops, policy, limits, extra, impl=(steps, died, unique))
        isteps = busdiff.dump_steps(steps)
        return {"seed": seed, "ops": [busdiff.show_op(o) for o in ops], "stats": stats, "diff": diff,
                "isteps": [({str(k): v for k, v in per.items()}, sorted(cl)) for per, cl in isteps],
                "unique": {str(k): v for k, v in unique.items()}, "died": died, "fdcounts": list(busdiff.LAST_RUN.get("fdcounts", []))}
    except InfraError as e:
        return {"seed": seed, "infra": str(e)}
    except Exception as e:
        return {"seed": seed, "infra": "harness exception: " + traceback.format_exc()[-1500:]}


def run_histories(ctx, n_hist, n_ops, oracle, gen_kw=None, policy=busdiff.SESSION, limits=None, extra="",
                  findings=None, seed_salt=0, label="", scripts=None):
    """Runs n_hist generated histories. `oracle(trace) -> list of (cls, text)`: violations of the
    property visible in the implementation's own trace (cls = class name for known findings or None)."""
    jobs = [(ctx.seed * 1000003 + seed_salt * 7919 + i, n_ops, gen_kw or {}, policy.rules, limits, extra) for i in range(n_hist)]
    if scripts is not None:
        jobs = [(i, len(sc), {"script": sc}, policy.rules, limits, extra) for i, sc in enumerate(scripts)]
        n_hist = len(jobs)
    workers = min(14, max(1, (os.cpu_count() or 2) - 2))
    with ProcessPoolExecutor(workers) as ex:
        results = list(ex.map(_job, jobs, chunksize=1))
    infra = [r for r in results if "infra" in r]
    if len(infra) > max(2, n_hist // 10):
        raise InfraError("bus harness failed on %d/%d histories, e.g. %s" % (len(infra), n_hist, infra[0]["infra"][:600]))
    good = [r for r in results if "infra" not in r]
    findings = findings or {}
    agree = 0
    stats, deliveries, closes = {}, 0, 0
    known_hits = {}
    for r in good:
        for k, v in r["stats"].items():
            stats[k] = stats.get(k, 0) + v
        ops = [busdiff.parse_op(s) for s in r["ops"]]
        steps = [({int(k): v for k, v in per.items()}, set(cl)) for per, cl in r["isteps"]]
        deliveries += sum(len(v) for per, _ in steps for v in per.values())
        closes += sum(len(cl) for _, cl in steps)
        tr = Trace(ops, steps, {int(k): v for k, v in r["unique"].items()})
        tr.fdcounts = r.get("fdcounts", [])
        bad = oracle(tr) if oracle else []
        unlisted = [(c, t) for c, t in bad if c not in findings]
        for c, t in bad:
            if c in findings:
                known_hits.setdefault(c, []).append((r["seed"], t))
        replay = {"kind": "bus-history", "label": label, "seed": r["seed"], "policy": policy.rules, "limits": limits,
                  "extra": extra, "ops": r["ops"]}
        if r["died"]:
            ctx.violate("dbus-daemon died (sanitizer/assertion) during a generated history: " + r["died"][-400:],
                        dict(replay, stderr=r["died"]), failing_input=True)
        elif unlisted:
            ctx.violate("property fails on the implementation's own trace: " + unlisted[0][1],
                        dict(replay, oracle=[t for _, t in unlisted][:5], diff=r["diff"]), failing_input=True)
        elif r["diff"] is not None:
            ctx.violate("model and dbus-daemon disagree (step %s, %s); the property's trace oracle found nothing wrong" %
                        (r["diff"].get("step"), r["diff"].get("kind")), dict(replay, diff=r["diff"]), failing_input=False)
        else:
            agree += 1
    ctx.oblige("correspondence%s: %d generated histories x ~%d ops, model = dbus-daemon on every delivery and every close"
               % (" (" + label + ")" if label else "", len(good), n_ops), "correspondence", agree == len(good),
               "" if agree == len(good) else "%d histories differ or violate" % (len(good) - agree))
    cov = ctx.coverage.setdefault("histories", {})
    cov[label or "default"] = {"histories": len(good), "ops_per_history": n_ops, "op_kinds": stats, "deliveries_observed": deliveries,
                               "closes_observed": closes, "harness_failures": len(infra),
                               "known_finding_hits": {k: len(v) for k, v in known_hits.items()}}
    ctx.coverage["evaluations"] = ctx.coverage.get("evaluations", 0) + len(good) * n_ops
    for c, hits in known_hits.items():
        e = findings[c]
        ctx.known_lines[:] = [k for k in ctx.known_lines if not k.startswith(e["key"] + " ")]
        ctx.known_lines.append("%s %s — seen in %d histories of this run, e.g. seed %d: %s" % (e["key"], e["what"], len(hits), hits[0][0], hits[0][1][:200]))
    return good


def replay_history(path, oracle, pid):
    """re-runs the history stored in a replay file against the current tree"""
    data = json.load(open(path))
    rp = data["replay"]
    if rp.get("kind") != "bus-history":
        print("replay: not a bus history (theorem/correspondence obligations broke): %s" % data.get("what"))
        return 1
    ops = [busdiff.parse_op(s) for s in rp["ops"]]
    policy = busdiff.Policy([tuple(r) if not isinstance(r, tuple) else r for r in rp["policy"]])
    steps, died, unique = busdiff.run_impl(ops, policy, rp.get("limits"), rp.get("extra", ""))
    diff = busdiff.compare(ops, policy, rp.get("limits"), rp.get("extra", ""), impl=(steps, died, unique))
    tr = Trace(ops, busdiff.dump_steps(steps), unique)
    bad = oracle(tr) if oracle else []
    print("replay %s: daemon-died=%s oracle=%s diff=%s" % (pid, bool(died), [t for _, t in bad][:3], json.dumps(diff)[:600] if diff else None))
    return 1 if (died or bad or diff) else 0


class Tracker:
    """follows who is connected, named and owns what, from the ops and the implementation's replies
    (ownership by the specification's rules with the recorded queue-jump of bus/services.c)"""
    def __init__(self):
        self.names, self.queues, self.live = {}, {}, set()
        self.eaves = set()      # connections that ever asked for an eavesdropping rule
        self.stalled = set()    # connections that are not reading: what they are sent shows up when they read again
        self.uncertain = set()  # names requested or released by a connection while it was not reading: the reply was not seen in time

    def primary(self, d):
        if d in self.uncertain:
            return "?"
        if d.startswith(":"):
            for c, n in self.names.items():
                if n == d and c in self.live:
                    return c
            return None
        q = self.queues.get(d)
        return q[0][0] if q else None

    def before(self, i, tr):
        op = tr.ops[i]
        if op[0] == "connect":
            self.live.add(op[1])
        elif op[0] == "stall":
            self.stalled.add(op[1])
        elif op[0] == "unstall":
            self.stalled.discard(op[1])

    def after(self, i, tr):
        per, closed = tr.steps[i]
        op = tr.ops[i]
        gone = set(closed)
        if op[0] == "close":
            gone.add(op[1])
        if op[0] == "frozen":
            gone |= {s[1] for s in op[1] if s[0] == "close"}
        actor = op[1] if op[0] == "send" else None
        sent = tr.sent(i) if op[0] == "send" else None
        if sent and actor in self.live and actor not in gone and fld(sent, "t") == "1" and hexname(fld(sent, "dest")) == "org.freedesktop.DBus" \
                and hexname(fld(sent, "iface")) in ("org.freedesktop.DBus", None):
            member = hexname(fld(sent, "member"))
            if actor in self.stalled and member in ("RequestName", "ReleaseName"):
                mm = re.match(r"^s:([0-9a-f]*|-)", fld(sent, "body") or "")
                if mm:
                    self.uncertain.add(bytes.fromhex(mm.group(1)).decode("latin1") if mm.group(1) != "-" else "")
            mine = per.get(actor, [])
            replies = [l for l in mine if fld(l, "rs") == fld(sent, "ser") and hexname(fld(l, "sender")) == "org.freedesktop.DBus" and fld(l, "t") == "2"]
            body = fld(sent, "body") or ""
            if member == "Hello" and actor not in self.names and replies and fld(replies[0], "sig") == "73":
                self.names[actor] = bytes.fromhex(fld(replies[0], "body")[2:]).decode("latin1")
            elif member == "RequestName" and replies and actor in self.names:
                m = re.match(r"^s:([0-9a-f]*|-),u:(\d+)$", body)
                if m:
                    name = bytes.fromhex(m.group(1)).decode("latin1") if m.group(1) != "-" else ""
                    flags = int(m.group(2)); allow, replace, noq = bool(flags & 1), bool(flags & 2), bool(flags & 4)
                    q = self.queues.get(name, [])
                    e = [actor, allow, noq]
                    if not q: q2 = [e]
                    elif q[0][0] == actor: q2 = [e] + q[1:]
                    elif q[0][1] and replace: q2 = [e] + ([] if q[0][2] else [q[0]]) + [x for x in q[1:] if x[0] != actor]
                    elif noq: q2 = [x for x in q if x[0] != actor]
                    elif replace: q2 = [q[0], e] + [x for x in q[1:] if x[0] != actor]
                    elif any(x[0] == actor for x in q): q2 = [e if x[0] == actor else x for x in q]
                    else: q2 = q + [e]
                    self.queues[name] = q2
            elif member == "ReleaseName" and replies and actor in self.names:
                m = re.match(r"^s:([0-9a-f]*|-)$", body)
                if m:
                    name = bytes.fromhex(m.group(1)).decode("latin1") if m.group(1) != "-" else ""
                    q2 = [x for x in self.queues.get(name, []) if x[0] != actor]
                    if q2: self.queues[name] = q2
                    else: self.queues.pop(name, None)
            elif member == "AddMatch" and replies and "eavesdrop" in (bytes.fromhex(body[2:]).decode("latin1") if body.startswith("s:") and body != "s:-" else ""):
                self.eaves.add(actor)
        for c in gone:
            if c in self.live:
                self.live.discard(c)
                for name in list(self.queues):
                    q2 = [x for x in self.queues[name] if x[0] != c]
                    if q2: self.queues[name] = q2
                    else: self.queues.pop(name)
                self.names.pop(c, None)
                self.eaves.discard(c)
