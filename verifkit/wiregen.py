"""Type-directed generator of D-Bus messages + an independent Python marshaller and canonical
printer (format shared with harness/lib/dump.h and lean/Driver/Wire.lean)."""
import struct, random

FIXED = {'y': 1, 'b': 4, 'n': 2, 'q': 2, 'i': 4, 'u': 4, 'h': 4, 'x': 8, 't': 8, 'd': 8}
ALIGN = dict(FIXED, s=4, o=4, g=1, v=1, a=4, r=8, e=8)
BASIC = "ybnqiuxtdsogh"

# types: ('b', code) | ('v',) | ('a', elem) | ('r', [fields]) | ('e', kcode, vty)   (e = a{kv})

def sig(t):
    k = t[0]
    if k == 'b': return t[1]
    if k == 'v': return 'v'
    if k == 'a': return 'a' + sig(t[1])
    if k == 'r': return '(' + ''.join(sig(f) for f in t[1]) + ')'
    if k == 'e': return 'a{' + t[1] + sig(t[2]) + '}'
    raise ValueError(t)

def align_of(t):
    k = t[0]
    if k == 'b': return ALIGN[t[1]]
    if k == 'v': return 1
    if k in 'ae': return 4
    return 8

def pad(buf, a):
    while len(buf) % a:
        buf.append(0)

def put_uint(buf, n, size, le):
    buf += n.to_bytes(size, 'little' if le else 'big')

def marshal(buf, t, v, le):
    k = t[0]
    if k == 'b':
        c = t[1]
        if c in FIXED:
            pad(buf, FIXED[c]); put_uint(buf, v, FIXED[c], le)
        elif c == 'g':
            buf.append(len(v)); buf += v; buf.append(0)
        else:
            pad(buf, 4); put_uint(buf, len(v), 4, le); buf += v; buf.append(0)
    elif k == 'v':
        ty, val = v
        s = sig(ty).encode()
        buf.append(len(s)); buf += s; buf.append(0)
        pad(buf, align_of(ty))
        marshal(buf, ty, val, le)
    elif k == 'a':
        pad(buf, 4)
        lenpos = len(buf); put_uint(buf, 0, 4, le)
        pad(buf, align_of(t[1]))
        start = len(buf)
        for x in v:
            marshal(buf, t[1], x, le)
        buf[lenpos:lenpos + 4] = (len(buf) - start).to_bytes(4, 'little' if le else 'big')
    elif k == 'r':
        pad(buf, 8)
        for ft, fv in zip(t[1], v):
            marshal(buf, ft, fv, le)
    elif k == 'e':
        pad(buf, 4)
        lenpos = len(buf); put_uint(buf, 0, 4, le)
        pad(buf, 8)
        start = len(buf)
        for kk, vv in v:
            pad(buf, 8)
            marshal(buf, ('b', t[1]), kk, le)
            marshal(buf, t[2], vv, le)
        buf[lenpos:lenpos + 4] = (len(buf) - start).to_bytes(4, 'little' if le else 'big')

def hexs(b):
    return b.hex() if b else '-'

def show(t, v):
    k = t[0]
    if k == 'b':
        c = t[1]
        if c == 'h': return 'h:*'
        if c in FIXED: return '%s:%d' % (c, v)
        return '%s:%s' % (c, hexs(v))
    if k == 'v':
        return 'V[%s|%s]' % (sig(v[0]), show(v[0], v[1]))
    if k == 'a':
        return 'A[%s|%s]' % (sig(t[1]), ','.join(show(t[1], x) for x in v))
    if k == 'r':
        return 'S[%s]' % ','.join(show(ft, fv) for ft, fv in zip(t[1], v))
    if k == 'e':
        return 'A[{%s%s}|%s]' % (t[1], sig(t[2]), ','.join('E[%s,%s]' % (show(('b', t[1]), a), show(t[2], b)) for a, b in v))

# ---------------------------------------------------------------- random generation

ELS = [b"a", b"B_", b"c0", b"org", b"freedesktop", b"DBus", b"x" * 9, b"_", b"Q1"]

def gen_member(r):
    return r.choice(ELS[:7] + [b"Ping", b"Hello", b"M" * r.randint(1, 40)])

def gen_iface(r):
    return b".".join(r.choice(ELS) for _ in range(r.randint(2, 4)))

def gen_busname(r):
    if r.random() < 0.3:
        return b":" + b".".join(r.choice([b"1", b"42", b"a-b", b"0_"]) for _ in range(r.randint(2, 3)))
    return b".".join(r.choice(ELS + [b"a-b", b"-x"]) for _ in range(r.randint(2, 4)))

def gen_path(r):
    n = r.randint(0, 4)
    if n == 0: return b"/"
    return b"".join(b"/" + r.choice(ELS + [b"0", b"9a"]) for _ in range(n))

UTF = ["", "a", "hello world", "é", "€uro", "😀", "\x7f", "x" * 17, "߿ࠀ￿\U00010000\U0010ffff", "tab\there"]

def gen_string(r):
    if r.random() < 0.7: return r.choice(UTF).encode()
    return "".join(r.choice(UTF) for _ in range(r.randint(0, 4))).encode()

def gen_type(r, depth=0, allow_container=True):
    x = r.random()
    if depth >= 4 or not allow_container or x < 0.5:
        return ('b', r.choice(BASIC))
    if x < 0.62: return ('v',)
    if x < 0.80: return ('a', gen_type(r, depth + 1))
    if x < 0.92: return ('r', [gen_type(r, depth + 1) for _ in range(r.randint(1, 4))])
    return ('e', r.choice("ysuigobx"), gen_type(r, depth + 1))

def gen_sigval(r):
    return ''.join(sig(gen_type(r, 2)) for _ in range(r.randint(0, 3))).encode()

def gen_fixed(r, c):
    size = FIXED[c]
    if c == 'b': return r.choice([0, 1])
    edge = [0, 1, (1 << (8 * size)) - 1, 1 << (8 * size - 1), (1 << (8 * size - 1)) - 1]
    if c == 'd': edge += [0x7ff8000000000001, 0xfff0000000000000, 0x8000000000000000, 0x3ff0000000000000, 0x7ff0000000000000]
    if r.random() < 0.5: return r.choice(edge)
    return r.getrandbits(8 * size)

def gen_val(r, t, depth=0):
    k = t[0]
    if k == 'b':
        c = t[1]
        if c in FIXED: return gen_fixed(r, c)
        if c == 's': return gen_string(r)
        if c == 'o': return gen_path(r)
        return gen_sigval(r)
    if k == 'v':
        ty = gen_type(r, depth + 2)
        return (ty, gen_val(r, ty, depth + 1))
    if k == 'a':
        n = r.choice([0, 0, 1, 2, 3, 5]) if depth < 3 else r.choice([0, 1])
        return [gen_val(r, t[1], depth + 1) for _ in range(n)]
    if k == 'r':
        return [gen_val(r, f, depth + 1) for f in t[1]]
    if k == 'e':
        n = r.choice([0, 1, 2, 3])
        return [(gen_val(r, ('b', t[1]), depth + 1), gen_val(r, t[2], depth + 1)) for _ in range(n)]

FIELD_TYPES = {1: 'o', 2: 's', 3: 's', 4: 's', 5: 'u', 6: 's', 7: 's', 8: 'g', 9: 'u', 10: 'o'}

class Message:
    def __init__(self):
        self.le = True; self.mtype = 1; self.flags = 0; self.version = 1; self.serial = 1
        self.fields = []      # list of (code, ty, val) in wire order
        self.body_types = []; self.body = []

    def body_bytes(self):
        b = bytearray()
        for t, v in zip(self.body_types, self.body):
            marshal(b, t, v, self.le)
        return b

    def marshal(self, body_len=None, fields_override=None):
        body = self.body_bytes()
        h = bytearray()
        h.append(ord('l') if self.le else ord('B'))
        h += bytes([self.mtype, self.flags, self.version])
        put_uint(h, len(body) if body_len is None else body_len, 4, self.le)
        put_uint(h, self.serial, 4, self.le)
        ft = ('a', ('r', [('b', 'y'), ('v',)]))
        fv = [[c, (t, v)] for (c, t, v) in (self.fields if fields_override is None else fields_override)]
        marshal(h, ft, fv, self.le)
        pad(h, 8)
        return bytes(h) + bytes(body)

    def get(self, code):
        for c, t, v in self.fields:
            if c == code: return v
        return None

    def expected_dump(self):
        def sf(code):
            v = self.get(code)
            if v is None: return '-'
            return v.hex() if v else 'empty'
        def nf(code):
            v = self.get(code)
            return '-' if v is None else str(v)
        total = len(self.marshal())
        return ("ok n=%d e=%s t=%d f=%d ser=%d path=%s iface=%s member=%s err=%s rs=%s dest=%s sender=%s sig=%s fds=%s ci=%s body=%s" % (
            total, 'l' if self.le else 'B', self.mtype, self.flags & 7, self.serial, sf(1), sf(2), sf(3), sf(4), nf(5), sf(6), sf(7),
            sf(8), nf(9), sf(10), ','.join(show(t, v) for t, v in zip(self.body_types, self.body))))

def gen_message(r, max_body_types=4):
    m = Message()
    m.le = r.random() < 0.5
    m.mtype = r.choice([1, 1, 2, 3, 4, 4, 5, 77]) if r.random() < 0.9 else r.randint(1, 255)
    m.flags = r.choice([0, 0, 1, 2, 3, 4, 7, 8, 0x80, 0xff])
    m.serial = r.choice([1, 2, 0x7fffffff, 0xffffffff, r.getrandbits(32) or 1])
    codes = set()
    if m.mtype == 1: codes |= {1, 3}
    if m.mtype == 4: codes |= {1, 2, 3}
    if m.mtype == 3: codes |= {4, 5}
    if m.mtype == 2: codes |= {5}
    for c in (1, 2, 3, 4, 5, 6, 7, 10):
        if r.random() < 0.3: codes.add(c)
    n = r.choice([0, 0, 1, 1, 2, 3, max_body_types])
    m.body_types = [gen_type(r) for _ in range(n)]
    m.body = [gen_val(r, t) for t in m.body_types]
    if m.body_types or r.random() < 0.2: codes.add(8)
    fields = []
    for c in codes:
        ty = FIELD_TYPES[c]
        if c == 1 or c == 10: v = gen_path(r)
        elif c == 2: v = gen_iface(r)
        elif c == 3: v = gen_member(r)
        elif c == 4: v = gen_iface(r)
        elif c == 5: v = r.choice([1, 5, 0xffffffff])
        elif c in (6, 7): v = gen_busname(r)
        elif c == 8: v = ''.join(sig(t) for t in m.body_types).encode()
        fields.append((c, ('b', ty), v))
    # unknown fields with arbitrary variant payloads
    for _ in range(r.choice([0, 0, 0, 1, 2])):
        ty = gen_type(r, 2)
        fields.append((r.randint(11, 255), ty, gen_val(r, ty, 1)))
    r.shuffle(fields)
    m.fields = fields
    return m

# ---------------------------------------------------------------- unmarshalling (for what the bus sends us)

def parse_sig(s, i=0):
    """one complete type from signature string s at i -> (type, next_i)"""
    c = s[i]
    if c in BASIC: return ('b', c), i + 1
    if c == 'v': return ('v',), i + 1
    if c == '(':
        fs = []; i += 1
        while s[i] != ')':
            t, i = parse_sig(s, i); fs.append(t)
        return ('r', fs), i + 1
    if c == 'a':
        if s[i + 1] == '{':
            k = s[i + 2]
            vt, j = parse_sig(s, i + 3)
            assert s[j] == '}'
            return ('e', k, vt), j + 1
        t, j = parse_sig(s, i + 1)
        return ('a', t), j
    raise ValueError("bad signature %r at %d" % (s, i))

def parse_sig_all(s):
    out = []; i = 0
    while i < len(s):
        t, i = parse_sig(s, i); out.append(t)
    return out

def _align(pos, a):
    return (pos + a - 1) // a * a

def unmarshal(buf, pos, t, le):
    """-> (value, new_pos); positions are absolute within buf (alignment from 0)"""
    k = t[0]
    bo = 'little' if le else 'big'
    if k == 'b':
        c = t[1]
        if c in FIXED:
            pos = _align(pos, FIXED[c])
            return int.from_bytes(buf[pos:pos + FIXED[c]], bo), pos + FIXED[c]
        if c == 'g':
            n = buf[pos]; return bytes(buf[pos + 1:pos + 1 + n]), pos + 2 + n
        pos = _align(pos, 4)
        n = int.from_bytes(buf[pos:pos + 4], bo)
        return bytes(buf[pos + 4:pos + 4 + n]), pos + 5 + n
    if k == 'v':
        n = buf[pos]; sg = bytes(buf[pos + 1:pos + 1 + n]).decode(); pos += 2 + n
        ty = parse_sig(sg)[0]
        pos = _align(pos, align_of(ty))
        v, pos = unmarshal(buf, pos, ty, le)
        return (ty, v), pos
    if k == 'a':
        pos = _align(pos, 4)
        n = int.from_bytes(buf[pos:pos + 4], bo); pos += 4
        pos = _align(pos, align_of(t[1]))
        end = pos + n; out = []
        while pos < end:
            v, pos = unmarshal(buf, pos, t[1], le); out.append(v)
        return out, pos
    if k == 'r':
        pos = _align(pos, 8); out = []
        for f in t[1]:
            v, pos = unmarshal(buf, pos, f, le); out.append(v)
        return out, pos
    if k == 'e':
        pos = _align(pos, 4)
        n = int.from_bytes(buf[pos:pos + 4], bo); pos += 4
        pos = _align(pos, 8)
        end = pos + n; out = []
        while pos < end:
            pos = _align(pos, 8)
            kk, pos = unmarshal(buf, pos, ('b', t[1]), le)
            vv, pos = unmarshal(buf, pos, t[2], le)
            out.append((kk, vv))
        return out, pos

def message_length(buf):
    """total length of the message at the front of buf, or None if fewer than 16 bytes"""
    if len(buf) < 16: return None
    bo = 'little' if buf[0] == ord('l') else 'big'
    blen = int.from_bytes(buf[4:8], bo); falen = int.from_bytes(buf[12:16], bo)
    return _align(16 + falen, 8) + blen

def parse_message(buf):
    """bytes of exactly one message -> Message"""
    m = Message()
    m.le = buf[0] == ord('l')
    bo = 'little' if m.le else 'big'
    m.mtype, m.flags, m.version = buf[1], buf[2], buf[3]
    m.serial = int.from_bytes(buf[8:12], bo)
    falen = int.from_bytes(buf[12:16], bo)
    fvals, pos = unmarshal(buf, 12, ('a', ('r', [('b', 'y'), ('v',)])), m.le)
    m.fields = [(c, ty, v) for c, (ty, v) in fvals]
    hlen = _align(16 + falen, 8)
    sg = m.get(8)
    m.body_types = parse_sig_all(sg.decode()) if sg else []
    body = buf[hlen:]
    pos = 0; m.body = []
    for t in m.body_types:
        v, pos = unmarshal(body, pos, t, m.le); m.body.append(v)
    return m
