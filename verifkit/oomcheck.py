"""C14, bus half: allocation failure at every point while the bus handles one request, from prior states
reached by generated histories.  harness/lib/h_oom.c runs the bus and its clients in one process (debug-pipe
transport, as bus/dispatch.c's own tests do) and arms libdbus' own allocation-failure counter on the bus side
only; every trial is a forked child that replays the prior history, performs the operation with the k-th
allocation failing, shows what every client received, runs a fixed list of probes (queries, probe signals,
replies to every outstanding call, requests that reveal the owners' flags), tears everything down and counts
the allocations still outstanding.

Verdict per trial, against the Lean model of the bus (Dbus.Model.Bus.step / stepOom): what the clients received
and what the probes show must equal EITHER the model's full outcome (the request took effect; libdbus retried
after the failure) OR the model's out-of-memory outcome (one NoMemory error to the caller, probes as in the
prior state) - nothing in between; outstanding allocations must be zero; after an out-of-memory outcome the
same request, repeated with memory available, must give the full outcome."""
import os, re, random, subprocess, json, traceback
from concurrent.futures import ProcessPoolExecutor
from .common import *
from . import build, busdiff, busgen, script, bus, wiregen
from .bus import method_call, signal_msg, reply_msg, BUS, BUS_PATH

NAMES = [b"com.example.A", b"com.example.B"]
POLICY = busdiff.Policy([("default", True, {"user": "*"}), ("default", True, {"own": "*"}),
    ("default", True, {"send_type": "method_call"}), ("default", True, {"send_type": "signal"}),
    ("default", True, {"send_requested_reply": "true", "send_type": "method_return"}),
    ("default", True, {"send_requested_reply": "true", "send_type": "error"}),
    ("default", True, {"receive_type": "method_call"}), ("default", True, {"receive_type": "method_return"}),
    ("default", True, {"receive_type": "error"}), ("default", True, {"receive_type": "signal"})])

CONF = """<!DOCTYPE busconfig PUBLIC "-//freedesktop//DTD D-Bus Bus Configuration 1.0//EN"
 "http://www.freedesktop.org/standards/dbus/1.0/busconfig.dtd">
<busconfig>
  <listen>debug-pipe:name=test-server</listen>
%s
</busconfig>
"""
RULES = [b"type='signal',member='P0'", b"type='signal',interface='p.i1'", b"type='signal',path='/p/2'", b"type='signal',arg0='three'",
         b"type='signal',sender='com.example.A'", b"type='signal',path_namespace='/p'", b"member='P0'"]
PROBE_SIGNALS = [("/", "p.i0", "P0", "", []), ("/", "p.i1", "P1", "", []), ("/p/2", "p.i0", "P2", "", []), ("/", "p.i0", "P3", "s", [b"three"]),
                 ("/q", "p.i0", "P4", "", [])]


def gen_prior(r, n_ops):
    """a prior history over well-formed requests: several clients, contended names with all flag combinations, match rules,
    outstanding calls (so that pending replies exist), a disconnect now and then"""
    ops = [("connect", 0), ("send", 0, method_call(1, BUS, BUS_PATH, BUS, "Hello").marshal())]
    live, serial, calls = {0: True}, {0: 1}, []
    nconn = r.randint(2, 4)
    for c in range(1, nconn + 1):
        ops.append(("connect", c)); serial[c] = 0
        if r.random() < 0.9:
            serial[c] += 1
            ops.append(("send", c, method_call(serial[c], BUS, BUS_PATH, BUS, "Hello").marshal())); live[c] = True
        else:
            live[c] = False
    def s(c):
        serial[c] += 1; return serial[c]
    for _ in range(n_ops):
        act = [c for c in live if live[c] and c != 0]
        if not act:
            break
        c = r.choice(act)
        x = r.random()
        if x < 0.4:
            ops.append(("send", c, method_call(s(c), BUS, BUS_PATH, BUS, "RequestName", "su", [r.choice(NAMES), r.randint(0, 7)]).marshal()))
        elif x < 0.5:
            ops.append(("send", c, method_call(s(c), BUS, BUS_PATH, BUS, "ReleaseName", "s", [r.choice(NAMES)]).marshal()))
        elif x < 0.7:
            ops.append(("send", c, method_call(s(c), BUS, BUS_PATH, BUS, "AddMatch", "s", [r.choice(RULES)]).marshal()))
        elif x < 0.9:
            d = r.choice(NAMES + [b":1.%d" % r.randint(1, nconn)])
            ser = s(c)
            ops.append(("send", c, method_call(ser, d.decode(), "/o", "a.b", "M", "s", [b"x"]).marshal()))
            calls.append((c, ser))
        elif x < 0.95 and len(act) > 1:
            ops.append(("close", c)); live[c] = None
        else:
            ops.append(("send", c, method_call(s(c), BUS, BUS_PATH, BUS, "RemoveMatch", "s", [r.choice(RULES)]).marshal()))
    return ops, live, serial, calls, nconn


def gen_target(r, live, serial, calls, nconn):
    """the request under test: (client, message bytes, family)"""
    act = [c for c in live if live[c] and c != 0]
    idle = [c for c in live if live[c] is False]
    fam = r.choice(["request", "request", "request", "release", "addmatch", "removematch", "routed-call", "routed-signal", "routed-reply", "hello"])
    if fam == "hello" and idle:
        c = r.choice(idle)
        return c, method_call(serial[c] + 1, BUS, BUS_PATH, BUS, "Hello").marshal(), fam
    if not act:
        return None
    c = r.choice(act)
    ser = serial[c] + 1
    if fam == "request" or fam == "hello":
        return c, method_call(ser, BUS, BUS_PATH, BUS, "RequestName", "su", [r.choice(NAMES), r.randint(0, 7)]).marshal(), "request"
    if fam == "release":
        return c, method_call(ser, BUS, BUS_PATH, BUS, "ReleaseName", "s", [r.choice(NAMES)]).marshal(), fam
    if fam == "addmatch":
        return c, method_call(ser, BUS, BUS_PATH, BUS, "AddMatch", "s", [r.choice(RULES)]).marshal(), fam
    if fam == "removematch":
        return c, method_call(ser, BUS, BUS_PATH, BUS, "RemoveMatch", "s", [r.choice(RULES)]).marshal(), fam
    if fam == "routed-call":
        d = r.choice(NAMES + [b":1.%d" % r.randint(1, nconn)])
        return c, method_call(ser, d.decode(), "/o", "a.b", "T", "s", [b"payload"]).marshal(), fam
    if fam == "routed-signal":
        p = r.choice(PROBE_SIGNALS)
        return c, signal_msg(ser, p[0], p[1], p[2], p[3], p[4]).marshal(), fam
    if calls:
        caller, cs = r.choice(calls)
        return c, reply_msg(ser, cs, ":1.%d" % caller, "s", [b"answer"]).marshal(), "routed-reply"
    return c, signal_msg(ser, "/", "p.i0", "P0").marshal(), "routed-signal"


def probes(nconn, calls, serial):
    """[(client, bytes)]: destructive questions whose answers characterise the observable state"""
    out = []
    ps = 0x7e000000
    def q(c, m):
        out.append((c, m))
    ps += 1; q(0, method_call(ps, BUS, BUS_PATH, BUS, "ListNames").marshal())
    for n in NAMES:
        ps += 1; q(0, method_call(ps, BUS, BUS_PATH, BUS, "ListQueuedOwners", "s", [n]).marshal())
    for sg in PROBE_SIGNALS:
        ps += 1; q(0, signal_msg(ps, sg[0], sg[1], sg[2], sg[3], sg[4]).marshal())
    # every outstanding call is answered by everybody: only the recorded callee gets through
    for (caller, cs) in calls:
        for c in range(1, nconn + 1):
            ps += 1; q(c, reply_msg(ps, cs, ":1.%d" % caller, "s", [b"r"]).marshal())
    # flags of the owners: the control connection tries to take each name over, then gives it back
    for n in NAMES:
        ps += 1; q(0, method_call(ps, BUS, BUS_PATH, BUS, "RequestName", "su", [n, 2 | 4]).marshal())
        ps += 1; q(0, method_call(ps, BUS, BUS_PATH, BUS, "ListQueuedOwners", "s", [n]).marshal())
        ps += 1; q(0, method_call(ps, BUS, BUS_PATH, BUS, "ReleaseName", "s", [n]).marshal())
        ps += 1; q(0, method_call(ps, BUS, BUS_PATH, BUS, "ListQueuedOwners", "s", [n]).marshal())
    return out


def prior_lines(ops, conf):
    lines = ["prefix", "conf " + conf]
    for op in ops:
        if op[0] == "connect":
            lines.append("client %d" % op[1])
        elif op[0] == "send":
            lines += ["send %d %s" % (op[1], op[2].hex()), "pump"]
        elif op[0] == "close":
            lines.append("close %d" % op[1])
    lines += ["drain", "endprefix"]
    return lines


def probe_lines(pr):
    out = []
    for c, m in pr:
        out += ["send %d %s" % (c, m.hex()), "pump", "drain"]
    return out


def parse_recv(line):
    """recv 0:hex,hex;1:... -> {cid: [bytes]}"""
    per = {}
    body = line[5:]
    for part in body.split(";"):
        if not part:
            continue
        cid, _, rest = part.partition(":")
        per[int(cid)] = [bytes.fromhex(x) if x not in ("DISC", "NOMEM") else x.encode() for x in rest.split(",") if x]
    return per


def canon_recv(per):
    """{cid: [raw]} -> {cid: [canonical lines]}, empty lists dropped"""
    flat = [(cid, r) for cid in sorted(per) for r in per[cid]]
    raws = [r for _, r in flat if r not in (b"DISC", b"NOMEM")]
    lines = iter(busdiff.dump_raw([busdiff.Raw(r) for r in raws]))
    out = {}
    for cid, r in flat:
        l = r.decode() if r in (b"DISC", b"NOMEM") else mask(next(lines))
        out.setdefault(cid, []).append(l)
    return out


def mask(l):
    # the preallocated NoMemory error carries a destination only if the connection had its name when it was preallocated
    if "NoMemory".encode().hex() in l:
        l = re.sub(r" dest=\S+", " dest=*", l)
    return l


def model_session(ops, policy, extra_lines):
    """prior history + extra model lines; returns the answers to the extra lines"""
    lines = ["bus reset"] + policy.to_model()
    for op in ops:
        if op[0] == "connect":
            lines.append("bus connect %d 0 %s 0" % (op[1], ",".join(map(str, busdiff.gids_of(0))) or "-"))
        elif op[0] == "send":
            lines.append("bus msg %d %s" % (op[1], op[2].hex()))
        elif op[0] == "close":
            lines.append("bus close %d" % op[1])
    n0 = len(lines)
    outs = script.run_model("\n".join(lines + extra_lines) + "\n")[0]
    return outs[n0:]


def model_per(ans):
    per, closed, _ = busdiff.parse_model_outs(ans)
    out = {c: [mask(x) for x in v] for c, v in per.items() if v}
    for c in closed:
        out.setdefault(c, []).append("DISC")       # the bus drops the connection: its client sees Disconnected
    return out


_UNIQ = re.compile(r"3a312e(?:3[0-9])+")


def rename_uniques(seq):
    """[{conn: [lines]}] with unique names replaced by their order of first appearance: which number a connection is
    given is not part of the state the property speaks of (an attempt that ran out of memory uses one up)"""
    table = {}
    def sub(m):
        return "U%d" % table.setdefault(m.group(0), len(table))
    return [{c: [_UNIQ.sub(sub, l) for l in ls] for c, ls in sorted(per.items())} for per in seq]


def strip_empty(per):
    return {c: v for c, v in per.items() if v}


def same(a, b):
    """per-connection lists equal, opaque model lines matched loosely"""
    if set(a) != set(b):
        return False
    for c in a:
        if len(a[c]) != len(b[c]) or not all(busdiff.opaque_match(y, x) for x, y in zip(a[c], b[c])):
            return False
    return True


SCRIPTED = [  # (owner's flags, [waiters' flags], the newcomer's flags): a name with a queue behind its owner, and somebody who asks to replace
    (1, [0], 2), (1, [0], 3), (1, [0, 0], 2), (1, [1], 6), (0, [0], 2), (1, [0], 7), (3, [1, 0], 3)]


def scripted_case(k):
    """prior state and request spelled out: an owner, waiters queued behind it, a newcomer's RequestName - the request whose failure must
    leave the queue exactly as it was, in the same order"""
    of, wf, nf = SCRIPTED[k % len(SCRIPTED)]
    nconn = 2 + len(wf)
    ops = [("connect", 0), ("send", 0, method_call(1, BUS, BUS_PATH, BUS, "Hello").marshal())]
    live, serial = {0: True}, {0: 1}
    for c in range(1, nconn + 1):
        ops += [("connect", c), ("send", c, method_call(1, BUS, BUS_PATH, BUS, "Hello").marshal())]; live[c] = True; serial[c] = 1
    def req(c, fl):
        serial[c] += 1
        return ("send", c, method_call(serial[c], BUS, BUS_PATH, BUS, "RequestName", "su", [NAMES[0], fl]).marshal())
    ops.append(req(1, of))
    for i, fl in enumerate(wf):
        ops.append(req(2 + i, fl))
    c = nconn
    tgt = (c, method_call(serial[c] + 1, BUS, BUS_PATH, BUS, "RequestName", "su", [NAMES[0], nf]).marshal(), "request")
    return ops, live, serial, [], nconn, tgt


def run_case(exe, seed, n_prior, max_k, pairs, scripted=None):
    r = random.Random(seed)
    if scripted is not None:
        ops, live, serial, calls, nconn, tgt = scripted_case(scripted)
    else:
        ops, live, serial, calls, nconn = gen_prior(r, n_prior)
        tgt = gen_target(r, live, serial, calls, nconn)
    if tgt is None:
        return {"seed": seed, "skip": True}
    c, msg, fam = tgt
    pr = probes(nconn, calls, serial)
    work = os.path.join(bus.RUNROOT, "oom-%d-%d" % (os.getpid(), seed))
    os.makedirs(work, exist_ok=True)
    conf = os.path.join(work, "bus.conf")
    with open(conf, "w") as f:
        f.write(CONF % POLICY.to_xml())
    try:
        lines = prior_lines(ops, conf)
        pl = probe_lines(pr)
        # child 0: prior state, probes only; child 1: the request with memory available, probes
        lines += ["fork"] + pl + ["endfork"]
        lines += ["fork", "failsend %d %s 0 0" % (c, msg.hex()), "drain"] + pl + ["endfork"]
        env = dict(os.environ); env.update(build.ASAN_ENV); env["ASAN_OPTIONS"] = "detect_leaks=1:exitcode=99:abort_on_error=0"
        p = subprocess.run([exe], input="\n".join(lines) + "\n", text=True, capture_output=True, env=env, timeout=300)
        out = p.stdout.splitlines()
        blocks = split_children(out)
        if len(blocks) != 2:
            return {"seed": seed, "infra": "harness gave %d children: %s %s" % (len(blocks), out[-5:], p.stderr[-800:])}
        P_pre = [canon_recv(parse_recv(l)) for l in blocks[0]["recv"]]
        allocs = blocks[1]["allocs"]
        R_ok = canon_recv(parse_recv(blocks[1]["recv"][0])); P_ok = [canon_recv(parse_recv(l)) for l in blocks[1]["recv"][1:]]
        # the model's two outcomes
        pm = ["bus msg %d %s" % (pc, pmg.hex()) for pc, pmg in pr]
        m_pre = [model_per(a) for a in model_session(ops, POLICY, pm)]
        a_ok = model_session(ops, POLICY, ["bus msg %d %s" % (c, msg.hex())] + pm)
        mR_ok, mP_ok = model_per(a_ok[0]), [model_per(a) for a in a_ok[1:]]
        a_oom = model_session(ops, POLICY, ["bus oom %d %s" % (c, msg.hex())] + pm)
        mR_oom, mP_oom = model_per(a_oom[0]), [model_per(a) for a in a_oom[1:]]
        st = model_session(ops, POLICY, ["bus state"])[0]
        res = {"seed": seed, "family": fam, "allocs": allocs, "trials": 0, "oom_outcomes": 0, "full_outcomes": 0, "problems": [],
               "nconn": nconn, "prior_ops": len(ops), "caller": c, "prior_state": st, "target_hex": msg.hex()}
        def cmpP(P, M):
            return len(P) == len(M) and all(same(strip_empty(x), y) for x, y in zip(P, M))
        if not cmpP(P_pre, m_pre):
            res["problems"].append({"kind": "model-differs-prior", "impl": P_pre, "model": m_pre})
        if not (same(strip_empty(R_ok), mR_ok) and cmpP(P_ok, mP_ok)):
            res["problems"].append({"kind": "model-differs-clean", "impl": [R_ok] + P_ok, "model": [mR_ok] + mP_ok})
        if blocks[0]["leak"] != 0 or blocks[1]["leak"] != 0 or blocks[0]["rc"] != 0 or blocks[1]["rc"] != 0:
            res["problems"].append({"kind": "leak-or-crash-without-failure", "leak": [blocks[0]["leak"], blocks[1]["leak"]], "rc": [blocks[0]["rc"], blocks[1]["rc"]],
                                    "stderr": p.stderr[-1500:]})
        if res["problems"]:
            res["replay"] = {"ops": [show(o) for o in ops], "target": [c, msg.hex(), fam]}
            return res
        ks = list(range(1, allocs + 2))
        if len(ks) > max_k:
            ks = sorted(r.sample(ks, max_k))
        trials = [(k, 0) for k in ks]
        for _ in range(pairs):
            k = r.randint(1, max(1, allocs)); trials.append((k, r.randint(1, max(1, allocs))))
        lines = prior_lines(ops, conf)
        for (k, j) in trials:
            lines += ["fork", "failsend %d %s %d %d" % (c, msg.hex(), k, j), "drain"] + pl + ["endfork"]
            lines += ["fork", "failsend %d %s %d %d" % (c, msg.hex(), k, j), "drain", "send %d %s" % (c, msg.hex()), "pump", "drain"] + pl + ["endfork"]
        p = subprocess.run([exe], input="\n".join(lines) + "\n", text=True, capture_output=True, env=env, timeout=900)
        blocks = split_children(p.stdout.splitlines())
        if len(blocks) != 2 * len(trials):
            return {"seed": seed, "infra": "harness gave %d children for %d trials: %s" % (len(blocks), len(trials), p.stderr[-800:])}
        for i, (k, j) in enumerate(trials):
            b1, b2 = blocks[2 * i], blocks[2 * i + 1]
            res["trials"] += 1
            if b1["rc"] != 0 or b1["leak"] is None or not b1["recv"]:
                res["problems"].append({"kind": "crash", "rc": b1["rc"], "k": k, "j": j, "fired": b1["fired"]})
                continue
            R = strip_empty(canon_recv(parse_recv(b1["recv"][0]))); P = [canon_recv(parse_recv(l)) for l in b1["recv"][1:]]
            full = same(R, mR_ok) and cmpP(P, mP_ok)
            none = same(R, mR_oom) and cmpP(P, mP_oom)
            prob = None
            if False:
                pass
            elif full:
                res["full_outcomes"] += 1
            elif none:
                res["oom_outcomes"] += 1
                # retried with memory available: the full outcome (the reply now, the probes as after a clean run)
                R2 = strip_empty(canon_recv(parse_recv(b2["recv"][1]))) if len(b2["recv"]) > 1 else None
                P2 = [canon_recv(parse_recv(l)) for l in b2["recv"][2:]]
                got, want = [R2 or {}] + [strip_empty(x) for x in P2], [mR_ok] + mP_ok
                if fam == "hello":
                    # the retried Hello is given the next number: probes that address connections by their old numbers
                    # say nothing here, and the numbers themselves are compared up to renaming
                    keep = [0] + [i + 1 for i, (pc, pmg) in enumerate(pr) if b":1." not in pmg]
                    got, want = [got[i] for i in keep if i < len(got)], [want[i] for i in keep if i < len(want)]
                    got, want = rename_uniques(got), rename_uniques(want)
                if not (R2 is not None and len(got) == len(want) and all(same(x, y) for x, y in zip(got, want))):
                    prob = {"kind": "retry-does-not-succeed", "retry": [R2] + P2, "expected": [mR_ok] + mP_ok}
            else:
                what = "neither-all-nor-nothing"
                if same(R, mR_oom):
                    what = "state-changed-although-NoMemory-was-reported"
                elif same(R, mR_ok):
                    what = "reported-success-but-state-differs"
                prob = {"kind": what, "received": R, "probes": P, "model_full": [mR_ok] + mP_ok, "model_oom": [mR_oom] + mP_oom}
            if prob is None and (b1["leak"] != 0 or b2["leak"] not in (0, None) and b2["rc"] == 0 and b2["leak"] != 0):
                prob = {"kind": "leak", "blocks": [b1["leak"], b2["leak"]]}
            if prob is not None:
                prob.update({"k": k, "j": j, "fired": b1["fired"]})
                res["problems"].append(prob)
        if res["problems"]:
            res["replay"] = {"ops": [show(o) for o in ops], "target": [c, msg.hex(), fam], "allocs": allocs}
            res["stderr"] = p.stderr[-1500:]
        return res
    finally:
        import shutil
        shutil.rmtree(work, ignore_errors=True)


def split_children(lines):
    """answers of one harness run -> per child {recv: [...], leak: n|None, rc: n, fired: n, allocs: n}"""
    blocks, cur = [], None
    for l in lines:
        if l.startswith("child rc="):
            if cur is None:
                cur = {"recv": [], "leak": None, "fired": None, "allocs": 0}
            cur["rc"] = int(l.split("=")[1])
            blocks.append(cur); cur = None
            continue
        if cur is None:
            cur = {"recv": [], "leak": None, "fired": None, "allocs": 0}
        if l.startswith("recv "):
            cur["recv"].append(l)
        elif l.startswith("leak blocks="):
            cur["leak"] = int(l.split("=")[1])
        elif l.startswith("fired="):
            m = re.match(r"fired=(-?\d+) allocs=(\d+)", l)
            if cur["fired"] is None:
                cur["fired"] = int(m.group(1)); cur["allocs"] = int(m.group(2))
    return blocks


def show(op):
    return " ".join(x.hex() if isinstance(x, bytes) else str(x) for x in op)


def _job(args):
    try:
        return run_case(*args)
    except subprocess.TimeoutExpired:
        return {"seed": args[1], "infra": "harness timed out"}
    except InfraError as e:
        return {"seed": args[1], "infra": str(e)}
    except Exception:
        return {"seed": args[1], "infra": "harness exception: " + traceback.format_exc()[-1500:]}
