"""History generator for C19: ordinary bus traffic over a pool of names most of which are
activatable, plus StartServiceByName, the started programs ending in various ways, and the start
timeout passing.  Every choice comes from the one `random.Random` passed in."""
from . import busgen, wiregen, actdiff
from .bus import method_call, BUS, BUS_PATH

ACT_WEIGHTS = {"connect": 5, "hello": 5, "close": 4, "request": 16, "release": 7, "query": 2, "addmatch": 3, "removematch": 1,
               "signal": 8, "call": 24, "reply": 5, "driver_edge": 1, "forged": 2, "garbage": 0, "badtype": 1, "nodest": 1,
               "startsvc": 9, "svcexit": 7, "actsleep": 2, "advance": 0}

DEFAULT_FILES = [("com.example.A.service", "com.example.A", "ok", "A"), ("b.service", "com.example.B", "ok", "B"),
                 ("org.x.service", "org.x", "ok", "X"), ("q.service", "com.example.Q", "badquote", "Q"),
                 ("nx.service", "com.example.NX", "nx", "NX")]


class ActGen(busgen.Gen):
    def __init__(self, rng, files=None, weights=None, advances=(450000, 700000), plain_names=(b"com.example.Plain",), **kw):
        self.files = [tuple(f) for f in (DEFAULT_FILES if files is None else files)]
        self.advances = list(advances)
        names = [f[1].encode() for f in self.files] + [n if isinstance(n, bytes) else n.encode() for n in plain_names]
        w = dict(ACT_WEIGHTS)
        if weights:
            w.update(weights)
        super().__init__(rng, weights=w, names=names, **kw)
        for k in list(self.w):
            if k not in w:
                self.w[k] = 0
        self.nx = {f[1].encode() for f in self.files if f[2] == "nx"}
        self.tags = sorted({f[3] for f in self.files if f[2] in ("ok", "shared")})

    def send(self, cid, m):
        """a message addressed to a name whose program cannot be executed: the daemon hears of the failed
        exec a moment later, by itself"""
        if not isinstance(m, bytes):
            dest = m.get(6)
            if dest in self.nx and m.mtype in (1, 2, 3, 4):
                data = m.marshal()
                self.ops.append(("sendx", cid, data, dest.decode()))
                return
        super().send(cid, m)

    def step(self, k=None):
        if k is None:
            k = self.pick()
        if k == "startsvc" and self.open:
            cid = self.some_conn(active=True) or self.some_conn()
            name = self.r.choice(self.names) if self.r.random() < 0.9 else self.r.choice([b"com.example.Unknown", b"org.freedesktop.DBus", b":1.1", b"bad"])
            flags = 0 if self.r.random() < 0.9 else self.r.randint(1, 9)
            m = method_call(self.serial(cid), BUS, BUS_PATH, BUS, "StartServiceByName", "su", [name, flags],
                            flags=self.r.choice([0, 0, 0, 1]))
            self.count("startsvc")
            if name in self.nx:
                self.ops.append(("sendx", cid, m.marshal(), name.decode()))
            else:
                self.send(cid, m)
            return
        if k == "svcexit" and self.tags:
            self.ops.append(("svcexit", self.r.choice(self.tags), self.r.choice([0, 1, 3, 3, 77, "segv"])))
            self.count("svcexit"); return
        if k == "actsleep":
            self.ops.append(("actsleep",)); self.count("actsleep"); self.calls = []
            return
        if k == "advance":
            # (outstanding calls are kept: whether they have timed out is for the model and the oracle to say)
            self.ops.append(("advance", self.r.choice(self.advances))); self.count("advance")
            return
        if k in ("startsvc", "svcexit"):
            k = "call"
        super().step(k)


def history(rng, n_ops, **kw):
    if "script" in kw:
        return list(kw["script"]), {"scripted": 1}
    g = ActGen(rng, **kw)
    g.start()
    while len(g.ops) < n_ops:
        g.step()
    return g.ops, g.stats
