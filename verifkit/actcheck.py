"""Shared flow of the activation check (C19): generated histories against the real daemon with stub
services and against the activation layer of the Lean model (verifkit.actdiff); disagreements are
classified by a trace oracle written from the property text, independent of the model."""
import os, re, json, random, time, traceback
from concurrent.futures import ProcessPoolExecutor
from .common import *
from . import busdiff, actdiff, actgen, buscheck
from .buscheck import fld, hexname, Tracker

BUS = "org.freedesktop.DBus"


class ActTrace(buscheck.Trace):
    def __init__(self, ops, steps, unique, infos, svc):
        super().__init__(ops, steps, unique)
        self.infos, self.svc = infos, svc

    def sent(self, i):
        op = self.ops[i]
        if op[0] not in ("send", "sendx"):
            return None
        if not hasattr(self, "_sent"):
            raws = [o[2] for o in self.ops if o[0] in ("send", "sendx")]
            outs = busdiff.script.run_model("".join("wire demarshalx " + r.hex() + "\n" for r in raws))[0]
            it = iter(outs)
            self._sent = [next(it) if o[0] in ("send", "sendx") else None for o in self.ops]
        l = self._sent[i]
        return l if l and l.startswith("ok ") else None


def oracle(tr):
    """C19 on the implementation's own trace. Follows, from the ops and the daemon's replies alone, who owns
    what (buscheck.Tracker), which messages are being held for which name, and which programs are running."""
    bad = []
    tk = Tracker()
    svc = tr.svc
    startable = {n: (kind, tag) for _, n, kind, tag in svc.files}
    waiting = {}        # name -> {"msgs": [(conn, serial, type, auto)], "prog": number or None, "born": virtual ms}
    now = 0             # the virtual clock (only `advance` moves it)
    stats = {"activations": 0, "joined": 0, "held_delivered": 0, "held_refused": 0, "failed_waiters": 0, "timeouts": 0,
             "start_replies": 0, "max_waiters": 0}
    for i, (per, closed) in enumerate(tr.steps):
        tk.before(i, tr)
        op = tr.ops[i]
        # a connect op that reuses nothing: ActRun maps it like busdiff
        info = tr.infos[i] if i < len(tr.infos) else {"started": [], "killed": [], "ended": None}
        sent = tr.sent(i)
        actor = op[1] if op[0] in ("send", "sendx") else None
        started = [t for t, _ in info["started"]]
        # ---- (1) a program is started only when nothing is pending for its name
        for tag, num in info["started"]:
            names = [n for n, (kind, t) in startable.items() if t == tag]
            pend = [n for n in names if n in waiting and waiting[n]["prog"] is not None]
            fresh = [n for n in names if n not in waiting]
            if not fresh and pend:
                bad.append((None, "step %d: program %s started again while an activation of %s is still pending" % (i, tag, pend[0])))
        # ---- what this op asks for
        new_wait = None
        if sent and actor in tk.names and actor not in closed:
            me = tk.names[actor]
            t = fld(sent, "t")
            d = hexname(fld(sent, "dest"))
            flags = int(fld(sent, "f") or 0)
            ser = fld(sent, "ser")
            mine = per.get(actor, [])
            errs = [l for l in mine if fld(l, "t") == "3" and fld(l, "rs") == ser and hexname(fld(l, "sender")) == BUS]
            rets = [l for l in mine if fld(l, "t") == "2" and fld(l, "rs") == ser and hexname(fld(l, "sender")) == BUS]
            if t in ("1", "2", "3", "4") and d is not None and d != BUS and not d.startswith(":") and tk.primary(d) is None \
                    and not (flags & 2) and d in startable:
                # auto-start: held (no answer now) or refused at once with exactly one error
                if op[0] == "sendx" or startable[d][0] in ("badquote", "nx"):
                    if len(errs) != 1:
                        bad.append((None, "step %d: message to %s, whose program cannot be started, earned %d errors" % (i, d, len(errs))))
                elif len(errs) == 0:
                    new_wait = (d, (actor, ser, t, True, me))
                elif len(errs) > 1:
                    bad.append((None, "step %d: auto-start message to %s earned its sender %d errors" % (i, d, len(errs))))
            elif t == "1" and d == BUS and hexname(fld(sent, "member")) == "StartServiceByName" and hexname(fld(sent, "iface")) in (BUS, None) \
                    and hexname(fld(sent, "path")) == "/org/freedesktop/DBus" and fld(sent, "sig") == "7375":
                m = re.match(r"^s:([0-9a-f]*|-),u:(\d+)$", fld(sent, "body") or "")
                name = bytes.fromhex(m.group(1)).decode("latin1") if m and m.group(1) != "-" else ""
                if name in startable and startable[name][0] in ("ok", "shared") and tk.primary(name) is None and not errs and not rets:
                    new_wait = (name, (actor, ser, "start", False, me))
                elif tk.primary(name) is not None and name in startable and not errs:
                    if not (len(rets) == 1 and fld(rets[0], "body") == "u:2"):
                        bad.append((None, "step %d: StartServiceByName(%s) of a running service was not answered ALREADY_RUNNING once" % (i, name)))
                elif len(errs) + len(rets) != 1 and not (flags & 1 and not errs and not rets):
                    bad.append((None, "step %d: StartServiceByName(%s) got %d answers" % (i, name, len(errs) + len(rets))))
        # ---- ownership changes of this step (by the daemon's own replies)
        owners_before = {n: tk.primary(n) for n in startable}
        tk.after(i, tr)
        owners_after = {n: tk.primary(n) for n in startable}
        # ---- (2) the name has been taken: held messages go to the new owner once, in arrival order; StartServiceByName callers get SUCCESS
        for n in list(waiting):
            if owners_before.get(n) is None and owners_after.get(n) is not None:
                w = waiting.pop(n)
                owner = owners_after[n]
                got = per.get(owner, [])
                seq = []
                for (conn, ser, t, auto, sname) in w["msgs"]:
                    if conn not in tk.live and conn not in closed:
                        continue          # the waiter left before the service came
                    if conn in closed and conn not in tk.live:
                        continue
                    if auto:
                        copies = [k for k, l in enumerate(got) if hexname(fld(l, "sender")) == sname and fld(l, "ser") == ser and fld(l, "t") == t
                                  and hexname(fld(l, "dest")) == n]
                        errs = [l for l in per.get(conn, []) if fld(l, "t") == "3" and fld(l, "rs") == ser and hexname(fld(l, "sender")) == BUS]
                        twins = len([1 for (c2, s2, t2, a2, n2) in w["msgs"] if c2 == conn and s2 == ser and a2 and t2 == t])
                        if twins > 1:
                            # the sender used one serial for several held messages: they cannot be told apart; each has one outcome
                            # (the second call of a serial that is outstanding again is refused)
                            if len(copies) + len(errs) != twins:
                                bad.append((None, "step %d: %s taken by connection %d: %d held messages %s#%s were delivered %d times and earned %d errors"
                                            % (i, n, owner, twins, sname, ser, len(copies), len(errs))))
                            continue
                        if len(copies) == 1 and not errs:
                            seq.append(copies[0]); stats["held_delivered"] += 1
                        elif len(copies) == 0 and len(errs) == 1:
                            stats["held_refused"] += 1
                        else:
                            bad.append((None, "step %d: %s taken by connection %d: held message %s#%s was delivered %d times and its sender got %d errors"
                                        % (i, n, owner, sname, ser, len(copies), len(errs))))
                    else:
                        rets = [l for l in per.get(conn, []) if fld(l, "t") == "2" and fld(l, "rs") == ser and hexname(fld(l, "sender")) == BUS]
                        errs = [l for l in per.get(conn, []) if fld(l, "t") == "3" and fld(l, "rs") == ser and hexname(fld(l, "sender")) == BUS]
                        flagged_noreply = False
                        # (a client may have asked twice with one serial: as many replies as requests of that serial are waiting)
                        same = len([1 for (c2, s2, t2, a2, n2) in w["msgs"] if c2 == conn and s2 == ser and not a2])
                        # (... and the request that takes the name may itself carry that serial: its own reply is one more)
                        own = 1 if (sent and actor == conn and fld(sent, "ser") == ser) else 0
                        if len(rets) in (same, same + own) and not errs and all(fld(x, "body") == "u:1" for x in rets[:same]):
                            stats["start_replies"] += 1
                        else:
                            bad.append((None, "step %d: %s taken: StartServiceByName caller %s#%s got %d replies (%s) and %d errors"
                                        % (i, n, sname, ser, len(rets), [fld(r, "body") for r in rets], len(errs))))
                if seq != sorted(seq):
                    bad.append((None, "step %d: messages held for %s reached connection %d out of arrival order (positions %s)" % (i, n, owner, seq)))
        # ---- (3) the start failed or timed out: each waiter still there gets exactly one error per waiting message
        failed = []
        if op[0] == "svcexit" and info.get("ended") is not None and op[2] != 0:
            failed = [n for n, w in waiting.items() if w["prog"] == info["ended"]]
            # every pending activation with the same command line fails with it
            tags = {startable[n][1] for n in failed}
            failed += [n for n in waiting if n not in failed and startable[n][1] in tags and startable[n][0] == "shared"]
        if op[0] == "actsleep":
            failed = list(waiting); stats["timeouts"] += len(failed)
        if op[0] == "advance":
            # the start timeout runs from the moment the program was started, whoever joins later
            now += op[1]
            failed = [n for n, w in waiting.items() if w["born"] + svc.start_timeout <= now]
            stats["timeouts"] += len(failed); stats["advances"] = stats.get("advances", 0) + 1
            stats["activations_surviving_an_advance"] = stats.get("activations_surviving_an_advance", 0) + len(waiting) - len(failed)
        want = {}
        for n in failed:
            w = waiting.pop(n)
            for (conn, ser, t, auto, sname) in w["msgs"]:
                if conn in tk.live:
                    want[(conn, ser, sname)] = want.get((conn, ser, sname), 0) + 1      # a client may reuse a serial
        for (conn, ser, sname), k in want.items():
            errs = [l for l in per.get(conn, []) if fld(l, "t") == "3" and fld(l, "rs") == ser and hexname(fld(l, "sender")) == BUS]
            if len(errs) != k:
                bad.append((None, "step %d: start failed (%s): waiter %s with %d message(s) of serial %s waiting got %d errors" % (i, ",".join(failed), sname, k, ser, len(errs))))
            else:
                stats["failed_waiters"] += k
        # nobody else hears of a failed start: in a step in which no client sent anything (a program ended, time passed) the only
        # errors the bus sends about starting services go to the waiters of the activations that have just failed, one per message
        if op[0] in ("svcexit", "actsleep", "advance"):
            for conn, ls in per.items():
                for l in ls:
                    en = hexname(fld(l, "err")) or ""
                    if fld(l, "t") == "3" and hexname(fld(l, "sender")) == BUS and (".Spawn." in en or en.endswith(".TimedOut")):
                        keys = [kk for kk in want if kk[0] == conn and kk[1] == fld(l, "rs")]
                        if not keys:
                            bad.append((None, "step %d: connection %d received %s for serial %s although none of its messages was waiting for an activation that "
                                        "failed in this step (a second error for a start that had already been reported?)" % (i, conn, en.rsplit(".", 1)[-1], fld(l, "rs"))))
        # ---- bookkeeping
        if new_wait is not None:
            n, rec = new_wait
            if n in waiting:
                waiting[n]["msgs"].append(rec); stats["joined"] += 1
            else:
                nums = [num for tag, num in info["started"] if tag == startable[n][1]]
                if not nums:
                    bad.append((None, "step %d: message for ownerless startable %s was neither answered nor was its program started" % (i, n)))
                waiting[n] = {"msgs": [rec], "prog": nums[0] if nums else None, "born": now}
                stats["activations"] += 1
            stats["max_waiters"] = max(stats["max_waiters"], len(waiting[n]["msgs"]))
        # held messages must not reach anybody before the name is taken
        for n, w in waiting.items():
            for (conn, ser, t, auto, sname) in w["msgs"]:
                if not auto:
                    continue
                for to, ls in per.items():
                    if any(hexname(fld(l, "sender")) == sname and fld(l, "ser") == ser and fld(l, "t") == t and hexname(fld(l, "dest")) == n for l in ls):
                        bad.append((None, "step %d: message %s#%s held for %s reached connection %d before the name was taken" % (i, sname, ser, n, to)))
    tr.act_stats = stats
    return bad


def _job(args):
    seed, n_ops, gen_kw, policy_rules, limits, svc_json = args
    try:
        rng = random.Random(seed)
        svc = actdiff.Svc.from_json(svc_json)
        kw = dict(gen_kw or {})
        kw.setdefault("files", svc.files)
        ops, stats = actgen.history(rng, n_ops, **kw)
        policy = busdiff.Policy(policy_rules)
        steps, died, unique, infos = actdiff.run_impl(ops, policy, limits, svc)
        diff = actdiff.compare(ops, policy, limits, svc, impl=(steps, died, unique, infos))
        isteps = busdiff.dump_steps(steps)
        return {"seed": seed, "ops": [actdiff.show_op(o) for o in ops], "stats": stats, "diff": diff,
                "isteps": [({str(k): v for k, v in per.items()}, sorted(cl)) for per, cl in isteps],
                "unique": {str(k): v for k, v in unique.items()}, "died": died, "infos": infos}
    except InfraError as e:
        return {"seed": seed, "infra": str(e)}
    except Exception:
        return {"seed": seed, "infra": "harness exception: " + traceback.format_exc()[-1500:]}


def run_histories(ctx, n_hist, n_ops, svc, gen_kw=None, policy=busdiff.SESSION, limits=None, seed_salt=0, label="", scripts=None,
                  findings=None, oracle_fn=None, prop=None):
    """oracle_fn: another property's trace oracle to be applied to activation histories instead of C19's"""
    jobs = [(ctx.seed * 1000003 + seed_salt * 7919 + i, n_ops, gen_kw or {}, policy.rules, limits, svc.to_json()) for i in range(n_hist)]
    if scripts is not None:
        jobs = [(i, len(sc), {"script": sc}, policy.rules, limits, svc.to_json()) for i, sc in enumerate(scripts)]
        n_hist = len(jobs)
    workers = min(14, max(1, (os.cpu_count() or 2) - 2))
    with ProcessPoolExecutor(workers) as ex:
        results = list(ex.map(_job, jobs, chunksize=1))
    infra = [r for r in results if "infra" in r]
    if len(infra) > max(2, n_hist // 10):
        raise InfraError("activation harness failed on %d/%d histories, e.g. %s" % (len(infra), n_hist, infra[0]["infra"][:800]))
    good = [r for r in results if "infra" not in r]
    findings = findings or {}
    agree, totals, opstats = 0, {}, {}
    spawned = 0
    for r in good:
        for k, v in r["stats"].items():
            opstats[k] = opstats.get(k, 0) + v
        ops = [actdiff.parse_op(s) for s in r["ops"]]
        steps = [({int(k): v for k, v in per.items()}, set(cl)) for per, cl in r["isteps"]]
        tr = ActTrace(ops, steps, {int(k): v for k, v in r["unique"].items()}, r["infos"], svc)
        bad = (oracle_fn or oracle)(tr)
        for k, v in getattr(tr, "act_stats", {}).items():
            totals[k] = max(totals.get(k, 0), v) if k == "max_waiters" else totals.get(k, 0) + v
        spawned += sum(len(x["started"]) for x in r["infos"])
        unlisted = [(c, t) for c, t in bad if c not in findings]
        replay = {"kind": "act-history", "label": label, "seed": r["seed"], "policy": policy.rules, "limits": limits,
                  "svc": svc.to_json(), "ops": r["ops"]}
        if r["died"]:
            ctx.violate("dbus-daemon died (sanitizer/assertion) or stalled during a generated activation history: " + r["died"][-400:],
                        dict(replay, stderr=r["died"]), failing_input=True)
        elif unlisted:
            ctx.violate("property fails on the implementation's own trace: " + unlisted[0][1],
                        dict(replay, oracle=[t for _, t in unlisted][:5], diff=r["diff"]), failing_input=True)
        elif r["diff"] is not None:
            ctx.violate("activation model and dbus-daemon disagree (step %s, %s); the property's trace oracle found nothing wrong" %
                        (r["diff"].get("step"), r["diff"].get("kind")), dict(replay, diff=r["diff"]), failing_input=False)
        else:
            agree += 1
    ctx.oblige("correspondence%s: %d activation histories x ~%d ops, model = dbus-daemon on every delivery, close, program start and kill"
               % (" (" + label + ")" if label else "", len(good), n_ops), "correspondence", agree == len(good),
               "" if agree == len(good) else "%d histories differ or violate" % (len(good) - agree))
    cov = ctx.coverage.setdefault("histories", {})
    cov[label or "default"] = {"histories": len(good), "ops_per_history": n_ops, "op_kinds": opstats, "programs_started": spawned,
                               "oracle_events": totals, "harness_failures": len(infra)}
    ctx.coverage["evaluations"] = ctx.coverage.get("evaluations", 0) + sum(len(r["ops"]) for r in good)
    ctx.coverage["distinct_nontrivial"] = ctx.coverage.get("distinct_nontrivial", 0) + totals.get("activations", 0)
    return good


def replay_history(path, pid="C19", oracle_fn=None, prop=None):
    pid = prop or pid
    data = json.load(open(path))
    rp = data["replay"]
    if rp.get("kind") != "act-history":
        print("replay: not an activation history: %s" % data.get("what"))
        return 1
    ops = [actdiff.parse_op(s) for s in rp["ops"]]
    policy = busdiff.Policy([tuple(r) for r in rp["policy"]])
    svc = actdiff.Svc.from_json(rp["svc"])
    steps, died, unique, infos = actdiff.run_impl(ops, policy, rp.get("limits"), svc)
    diff = actdiff.compare(ops, policy, rp.get("limits"), svc, impl=(steps, died, unique, infos))
    tr = ActTrace(ops, busdiff.dump_steps(steps), unique, infos, svc)
    bad = (oracle_fn or oracle)(tr)
    print("replay %s: daemon-died=%s oracle=%s diff=%s" % (pid, bool(died), [t for _, t in bad][:3], json.dumps(diff)[:600] if diff else None))
    return 1 if (died or bad or diff) else 0
