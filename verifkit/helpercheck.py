"""C19, helper half: the activation helper's decision (bus/activation-helper.c) and the two parsers
under it against lean/Dbus/Model/Helper.lean.
  unit level   harness/lib/h_helper.c: _dbus_shell_parse_argv and bus_desktop_file_load on generated inputs
  end to end   the real dbus-daemon-launch-helper-for-tests binary on generated service directories; the
               executed program records its argument vector
The oracle (independent of the model) is the property's sentence: a program runs only for a valid bus
name whose first loadable <name>.service declares exactly that name, an Exec line and a User."""
import os, random, itertools, subprocess, tempfile, shutil, re
from concurrent.futures import ProcessPoolExecutor
from .common import *
from . import build, script, bus

HELPER = os.path.join(BUILD, "bin", "dbus-daemon-launch-helper-for-tests")
SHELL_ALPHA = [b"a", b" ", b"\t", b"\n", b"'", b'"', b"\\", b"#", b"$"]


def ensure_tools():
    with locked("build"):
        p = run(["ninja", "-C", BUILD, "dbus-daemon-launch-helper-for-tests"])
        if p.returncode != 0:
            raise InfraError("launch helper failed to build: " + p.stdout[-3000:])
    exe = build.cc("h_helper", ["harness/lib/h_helper.c"], daemon=True)
    rec = os.path.join(BIN, "recorder")
    src = os.path.join(ROOT, "harness", "lib", "recorder.c")
    with locked("cc-recorder"):
        if not os.path.exists(rec) or os.path.getmtime(rec) < os.path.getmtime(src):
            p = run(["gcc", "-O1", "-o", rec + ".tmp", src])
            if p.returncode != 0:
                raise InfraError("recorder failed to compile: " + p.stderr[-2000:])
            os.replace(rec + ".tmp", rec)
    return exe, rec


# ------------------------------------------------------------------ generators

def shell_exhaustive(maxlen):
    for n in range(0, maxlen + 1):
        for t in itertools.product(SHELL_ALPHA, repeat=n):
            yield b"".join(t)


def shell_random(r):
    parts = []
    for _ in range(r.randint(1, 6)):
        x = r.random()
        w = bytes(r.choice(b"abcXYZ09-_/.=") for _ in range(r.randint(0, 5)))
        if x < 0.35: parts.append(w)
        elif x < 0.5: parts.append(b"'" + w.replace(b"a", b" ") + r.choice([b"'", b"'", b""]))
        elif x < 0.65: parts.append(b'"' + w.replace(b"b", b'\\"').replace(b"c", b"\\\\").replace(b"X", b"\\$").replace(b"Y", b"\\z") + r.choice([b'"', b'"', b""]))
        elif x < 0.75: parts.append(w + b"\\" + r.choice([b" ", b"\n", b"'", b'"', b"\\", b"x", b""]) + w)
        elif x < 0.8: parts.append(b"#" + w)
        elif x < 0.85: parts.append(w + b"'" + w + b"'\"" + w + b'"')
        elif x < 0.9: parts.append(bytes([r.choice([0x80, 0xc3, 0xa9, 0xff, 1, 0x7f])]) + w)
        else: parts.append(r.choice([b"\\\\", b'\\\\"', b'"\\\\"', b'\\"', b"''", b'""', b"`", b"$x"]))
    sep = [b" ", b" ", b"  ", b"\t", b"\n", b""]
    out = b""
    for p in parts:
        out += p + r.choice(sep)
    return out.replace(b"\0", b"")


EOLS = [b"\n", b"\n", b"\n", b"\r\n", b"\r"]


def desktop_random(r, name=None, exec_=None, user=b"root", want_valid=0.7):
    """service-file text; with name/exec given, a file that mostly declares them"""
    lines = []
    def kv(k, v):
        sp1 = r.choice([b"", b"", b" ", b"  "]); sp2 = r.choice([b"", b"", b" ", b"   "])
        return k + sp1 + b"=" + sp2 + v
    def esc(v):
        return v.replace(b"\\", b"\\\\")
    sect = b"[D-BUS Service]" if r.random() < 0.9 else r.choice([b"[D-BUS Service ]", b"[Desktop Entry]", b"[D-BUS Service", b"[d-bus service]", b"[]", b"[D-BUS [Service]"])
    if r.random() < 0.25:
        lines.append(r.choice([b"# comment", b"", b"   ", b"\t", b"#[x]"]))
    if r.random() < 0.08:
        lines.append(r.choice([b"Stray=1", b"[Other]", b"[Other]\nName=wrong.name"]))
    lines.append(sect)
    body = []
    if name is not None and r.random() < 0.93: body.append(kv(b"Name", name))
    if exec_ is not None and r.random() < 0.93: body.append(kv(b"Exec", esc(exec_) if r.random() < 0.9 else exec_))
    if user is not None and r.random() < 0.9: body.append(kv(b"User", user))
    if r.random() < 0.3:
        body.append(r.choice([b"Name[de]=lokal", b"X-Other=1", b"SystemdService=x.service", b"# c", b"", b"Name=second.name", b"name=lower.case",
                              b"Bad Key=1", b"NoEquals", b"=novalue", b"K=v\\q", b"K=trailing\\", b"K=\\s\\t\\n\\r\\\\", b"Under_score=1", b"K.dot=1"]))
    r.shuffle(body)
    lines += body
    if r.random() < 0.1:
        lines.append(b"[D-BUS Service]"); lines.append(kv(b"Name", b"late.section"))
    out = b""
    for i, l in enumerate(lines):
        out += l + (r.choice(EOLS) if i < len(lines) - 1 or r.random() < 0.8 else b"")
    if r.random() < 0.03:
        out += bytes([r.choice([0xff, 0xc0, 0x80])])
    if r.random() < 0.01:
        out += b"#" + b"x" * (128 * 1024)
    return out


# ------------------------------------------------------------------ unit level

def posix_argv(op):
    """the argument vector of a `helper shell <hex>` line by POSIX shell quoting, in the harness's answer format; None when the
    line is outside the plain subset (comments, control or non-ASCII bytes, backquotes, dollars) or does not parse"""
    import shlex
    t = op.split()
    if len(t) != 3 or t[1] != "shell":
        return None
    raw = b"" if t[2] == "-" else bytes.fromhex(t[2])
    if any(c < 0x20 or c > 0x7e for c in raw) or any(c in raw for c in b"#`$"):
        return None
    try:
        words = shlex.split(raw.decode("ascii"), comments=False, posix=True)
    except ValueError:
        return None
    if not words:
        return None
    return "ok " + ",".join(w.encode().hex() or "-" for w in words)


def unit(ctx, exe, quick):
    r = random.Random(ctx.seed * 7 + 19)
    ops = ["helper shell " + (s.hex() or "-") for s in shell_exhaustive(4 if quick else 6)]
    ops += ["helper shell " + (shell_random(r).hex() or "-") for _ in range(4000 if quick else 60000)]
    n_shell = len(ops)
    names = [b"com.example.A", b"a.b", b"x"]
    execs = [b"/bin/prog a", b"/p 'q r'", b"/p \\\\ x"]
    ops += ["helper desktop " + (desktop_random(r, r.choice(names), r.choice(execs)).hex() or "-") for _ in range(3000 if quick else 40000)]
    res = script.diff([exe], ops)
    ok = res["rc"] == 0 and res["n_impl"] == len(ops) and not res["rows"]
    kinds = {}
    model = script.run_model("\n".join(ops[:n_shell:7] + ops[n_shell::3]) + "\n")[0]
    for a in model:
        k = a.split()[0]
        kinds[k] = kinds.get(k, 0) + 1
    ctx.coverage.setdefault("helper", {})["unit"] = {"shell_inputs": n_shell, "desktop_inputs": len(ops) - n_shell, "answer_kinds_sampled": kinds}
    ctx.coverage["evaluations"] = ctx.coverage.get("evaluations", 0) + len(ops)
    if res["rc"] != 0 or res["n_impl"] != len(ops):
        i = res["n_impl"]
        ctx.violate("the parser harness stopped (sanitizer/assertion?) at input %d: %s" % (i, res["stderr"][-600:]),
                    {"kind": "helper-unit", "op": ops[i] if i < len(ops) else None, "stderr": res["stderr"]}, failing_input=True)
    for (i, op, impl, mm, sp) in res["rows"][:3]:
        # an independent reading of the command line (Python's shlex in POSIX mode: words, quotes, backslashes as in the shell;
        # only asked about plain printable lines without comment characters, where the three readings are meant to coincide)
        posix = posix_argv(op)
        wrong = posix is not None and posix == mm and posix != impl
        ctx.violate("activation-helper parser differs from the model on %s: code=%s model=%s%s" %
                    (op[:120], impl[:200], mm[:200], " — and from POSIX shell quoting, which gives the model's argument vector" if wrong else ""),
                    {"kind": "helper-unit", "op": op, "impl": impl, "model": mm, "posix": posix}, failing_input=wrong)
    ctx.oblige("correspondence (helper/unit): %d command lines (every string over %d symbols up to length %d, plus generated) and %d service files: "
               "_dbus_shell_parse_argv / bus_desktop_file_load = model" % (n_shell, len(SHELL_ALPHA), 4 if quick else 6, len(ops) - n_shell),
               "correspondence", ok)


# ------------------------------------------------------------------ end to end

CONF = """<!DOCTYPE busconfig PUBLIC "-//freedesktop//DTD D-Bus Bus Configuration 1.0//EN"
 "http://www.freedesktop.org/standards/dbus/1.0/busconfig.dtd">
<busconfig>
  <type>system</type>
  <user>root</user>
  <listen>unix:path=/nonexistent/verif.sock</listen>
%s  <policy context="default"><allow user="*"/></policy>
</busconfig>
"""

REQ_NAMES = [b"com.example.Foo", b"com.example.Foo.Bar", b"com.example.FooBar", b"com.example", b"org.x", b"a.b", b":1.5", b"nodot", b"",
             b"com..x", b"com.example.Foo-", b"-x.y", b"a.b/../c.d", b"com.example.Foo.service", b".a.b", b"9a.b"]


def gen_case(r, rec):
    """(requested name, [per dir: file content or None]) — the file is always <requested>.service"""
    req = r.choice(REQ_NAMES) if r.random() < 0.9 else bus.wiregen.gen_busname(r)
    dirs = []
    for _ in range(r.choice([1, 2, 2, 3])):
        x = r.random()
        if x < 0.2:
            dirs.append(None); continue
        # declared name: equal, an extension, a prefix, something else
        y = r.random()
        if y < 0.55: dn = req
        elif y < 0.7: dn = req + r.choice([b"Bar", b".Backend", b"x", b"."])
        elif y < 0.8: dn = req[:max(0, len(req) - r.randint(1, 4))]
        elif y < 0.9: dn = r.choice(REQ_NAMES)
        else: dn = req.upper() if r.random() < 0.5 else req + b" "
        args = shell_random(r) if r.random() < 0.8 else b"plain arg"
        prog = rec.encode() if r.random() < 0.88 else r.choice([b"/nonexistent/verif-prog", b"relative-prog", b"'" + rec.encode() + b"'", b'"' + rec.encode() + b'"'])
        ex = prog + b" " + args if r.random() < 0.95 else args
        user = b"root" if r.random() < 0.85 else None
        dirs.append(desktop_random(r, dn, ex.replace(b"\n", b" ").replace(b"\r", b" "), user))
    return req, dirs


def _e2e_job(args):
    seed, n, rec = args
    r = random.Random(seed)
    work = tempfile.mkdtemp(prefix="helper-", dir=bus.RUNROOT)
    out = []
    try:
        for k in range(n):
            req, dirs = gen_case(r, rec)
            if b"\0" in req or b"/" in req and False:
                continue
            case = os.path.join(work, "c%d" % k)
            os.makedirs(case)
            sd = ""
            for i, content in enumerate(dirs):
                d = os.path.join(case, "d%d" % i); os.makedirs(d)
                sd += "  <servicedir>%s</servicedir>\n" % d
                if content is not None and b"/" not in req and req not in (b"", b".", b".."):
                    with open(os.path.join(d.encode(), req + b".service"), "wb") as f:
                        f.write(content)
                elif content is not None:
                    dirs[i] = None          # such a file cannot be created under that name
            conf = os.path.join(case, "system.conf")
            with open(conf, "w") as f:
                f.write(CONF % sd)
            recf = os.path.join(case, "rec")
            env = dict(os.environ); env.update(build.ASAN_ENV)
            env.update({"TEST_LAUNCH_HELPER_CONFIG": conf, "VERIF_REC": recf, "LD_LIBRARY_PATH": os.path.join(BUILD, "lib")})
            try:
                p = subprocess.run([HELPER.encode(), req], env=env, stdout=subprocess.PIPE, stderr=subprocess.PIPE, timeout=20)
                rc, err = p.returncode, p.stderr[-400:].decode("latin1")
            except subprocess.TimeoutExpired:
                rc, err = -999, "timeout"
            ran = None
            if os.path.exists(recf):
                ran = open(recf).read().strip()
            out.append({"req": req.hex(), "dirs": [None if c is None else c.hex() for c in dirs], "rc": rc, "ran": ran, "stderr": err})
            shutil.rmtree(case, ignore_errors=True)
        return out
    finally:
        shutil.rmtree(work, ignore_errors=True)


def py_loadable(data):
    """independent reading of 'loadable service file' for the oracle: enough to find Name/Exec/User of well-formed files;
    returns None when unsure"""
    return None


def e2e(ctx, rec, quick):
    os.makedirs(bus.RUNROOT, exist_ok=True)
    n_jobs, per = (14, 90) if quick else (14, 1200)
    with ProcessPoolExecutor(14) as ex:
        results = [c for chunk in ex.map(_e2e_job, [(ctx.seed * 1009 + j, per, rec) for j in range(n_jobs)]) for c in chunk]
    lines = []
    for c in results:
        lines.append("helper run %s %s" % (c["req"] or "-", " ".join("none" if d is None else (d or "-") for d in c["dirs"])))
    model = script.run_model("\n".join(lines) + "\n")[0]
    rech = rec.encode().hex()
    agree, kinds, ran_n = 0, {}, 0
    for c, m in zip(results, model):
        kinds[m.split()[0] + ("" if m.startswith("exec") else " " + m.split()[1])] = kinds.get(m.split()[0] + ("" if m.startswith("exec") else " " + m.split()[1]), 0) + 1
        if m.startswith("exec "):
            argv = m.split()[1].split(",")
            if argv[0] == rech:
                expect = ("ran", ",".join(argv))
            else:
                expect = ("rc", 9)          # execv of something that is not a program
        else:
            expect = ("rc", int(m.split()[1]))
        got = ("ran", c["ran"]) if c["ran"] is not None else ("rc", c["rc"])
        if c["ran"] is not None:
            ran_n += 1
        # the property itself, on the implementation's behaviour: a program ran => the request is a valid bus name and
        # some directory's file declares exactly that name (textually: a Name line whose value is the request)
        req = bytes.fromhex(c["req"])
        viol = None
        if c["ran"] is not None:
            files = [bytes.fromhex(d) for d in c["dirs"] if d is not None]
            declares = any(re.search(rb"(?:^|[\r\n])Name *= *" + re.escape(req) + rb"(?:[\r\n]|$)", f) for f in files)
            has_user = any(re.search(rb"(?:^|[\r\n])User *=", f) for f in files)
            has_exec = any(re.search(rb"(?:^|[\r\n])Exec *=", f) for f in files)
            m_valid = script.run_model("syn %s\n" % (c["req"] or "-"))[0][0].split()[1][3] == "1" if c["req"] else False
            if not declares or not has_user or not has_exec or not m_valid:
                viol = "the helper executed a program for request %r although %s" % (
                    req, "no service file declares exactly that name" if not declares else "User/Exec is missing or the name is not a valid bus name")
        if viol:
            ctx.violate(viol, {"kind": "helper-e2e", "case": c, "model": m}, failing_input=True)
        elif got != expect:
            ctx.violate("activation helper and model disagree for request %r: helper %s, model %s" % (req, got, m[:200]),
                        {"kind": "helper-e2e", "case": c, "model": m}, failing_input=False)
        else:
            agree += 1
    ctx.coverage.setdefault("helper", {})["end_to_end"] = {"invocations": len(results), "programs_run": ran_n, "model_outcomes": kinds}
    ctx.coverage["evaluations"] = ctx.coverage.get("evaluations", 0) + len(results)
    ctx.oblige("correspondence (helper/end-to-end): %d invocations of dbus-daemon-launch-helper-for-tests on generated service directories: "
               "exit status / executed argument vector = model" % len(results), "correspondence", agree == len(results),
               "" if agree == len(results) else "%d invocations differ" % (len(results) - agree))


def run_check(ctx):
    exe, rec = ensure_tools()
    unit(ctx, exe, ctx.quick())
    e2e(ctx, rec, ctx.quick())
