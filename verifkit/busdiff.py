"""Correspondence of the Lean bus model with the real dbus-daemon.

A history is a list of ops over numbered connections:
    ("connect", cid, uid, fdpass)     open a socket as `uid`, authenticate EXTERNAL, BEGIN
    ("send", cid, bytes)              write these bytes (one complete message, valid or not)
    ("close", cid)                    close the socket
Connection 0 is the control connection (connect + Hello come first in every history); the
harness uses it for barriers (side-effect-free calls to the bus) and never otherwise.

After every op the harness waits until the daemon has processed it (barrier on the acting
connection, then on every other live connection), collects what each connection received, and
compares, connection by connection, with what the model's `step` emitted for the same op.
"""
import os, re, pwd, time, subprocess, socket, signal, select
from .common import *
from . import bus, wiregen, build, script

BARRIER0 = 0x7f000000
BUS_HEX = b"org.freedesktop.DBus".hex()


class Policy:
    """ordered list of (context, allow, attrs). context: default | mandatory | user:<uid> | group:<gid> | console:true|false"""
    def __init__(self, rules):
        self.rules = list(rules)

    def to_xml(self):
        out, cur = [], None
        for ctx, allow, attrs in self.rules:
            if ctx != cur:
                if cur is not None:
                    out.append("  </policy>")
                k, _, v = ctx.partition(":")
                if k in ("default", "mandatory"):
                    out.append('  <policy context="%s">' % k)
                elif k == "user":
                    out.append('  <policy user="%s">' % v)
                elif k == "group":
                    out.append('  <policy group="%s">' % v)
                else:
                    out.append('  <policy at_console="%s">' % v)
                cur = ctx
            out.append("    <%s %s/>" % ("allow" if allow else "deny",
                                          " ".join('%s="%s"' % kv for kv in attrs.items())))
        if cur is not None:
            out.append("  </policy>")
        return "\n".join(out) + "\n"

    def to_model(self):
        lines = []
        for ctx, allow, attrs in self.rules:
            k, _, v = ctx.partition(":")
            if k in ("user", "group") and not v.isdigit():
                v = str(pwd.getpwnam(v).pw_uid) if k == "user" else str(__import__("grp").getgrnam(v).gr_gid)
            c = k if k in ("default", "mandatory") else k + ":" + v
            lines.append("bus policy %s %s %s" % (c, "allow" if allow else "deny",
                                                  " ".join("%s=%s" % (a, b.encode().hex()) for a, b in attrs.items())))
        return lines


SESSION = Policy([("default", True, {"send_destination": "*", "eavesdrop": "true"}),
                  ("default", True, {"eavesdrop": "true"}),
                  ("default", True, {"own": "*"})])

LIMIT_KEYS = {"names": "max_names_per_connection", "rules": "max_match_rules_per_connection",
              "completed": "max_completed_connections", "peruser": "max_connections_per_user",
              "replies": "max_replies_per_connection", "maxmsg": "max_message_size", "reply_timeout": "reply_timeout",
              "maxfds": "max_message_unix_fds", "pending_fd_timeout": "pending_fd_timeout",
              "start_timeout": "service_start_timeout", "pending": "max_pending_service_starts", "auth_timeout": "auth_timeout",
              "outgoing": "max_outgoing_bytes"}


def gids_of(uid):
    try:
        pw = pwd.getpwuid(uid)
        return os.getgrouplist(pw.pw_name, pw.pw_gid)
    except KeyError:
        return []


# ---------------------------------------------------------------- implementation side

class ImplRun:
    def __init__(self, policy=SESSION, limits=None, extra="", env_extra=None):
        lim = {LIMIT_KEYS[k]: v for k, v in (limits or {}).items()}
        lim.setdefault("auth_timeout", 60000)
        self.d = bus.Daemon(policy=policy.to_xml(), limits=lim, extra=extra, env_extra=env_extra)
        self.c = {}            # cid -> Client
        self.closed = set()    # cids whose socket is closed (by us or by the bus)
        self.unique = {}       # cid -> unique name (learnt from the Hello reply)
        self.bserial = BARRIER0
        self.monitors = set()
        self.tokens = {}       # (st_dev, st_ino) -> token of a descriptor sent by the harness
        self.fdcounts = []     # after each op: descriptors open in the daemon beyond its baseline and its client sockets
        self.base_fds = self._stable_base()
        self.dirty = set()     # cids that wrote raw bytes: no barrier is sent on them any more
        self.stalled = set()   # cids that have stopped reading (their outgoing queue at the bus is over max_outgoing_bytes)
        self.flooded = False
        self.pre = {}          # hostile sockets that never authenticate
        self.stall = None
        self.max_latency = 0.0
        self.reply_timeout = (limits or {}).get("reply_timeout")
        self.pending_fd_timeout = (limits or {}).get("pending_fd_timeout")

    def _stable_base(self):
        """descriptors the daemon holds with no client connected, after one client has come and gone (whatever it
        opens lazily on first use is open by then). The daemon is known to have noticed the probe's hang-up when the
        number of its descriptors has gone down again (waiting a fixed time is not enough on a busy machine)."""
        def settle(limit=3.0):
            last, same, t0 = None, 0, time.time()
            while time.time() - t0 < limit:
                n = self.d.nfds()
                same = same + 1 if n == last else 0
                last = n
                if same >= 3:
                    break
                time.sleep(0.02)
            return last
        with_probe = None
        try:
            cl = bus.Client(self.d)          # authenticates, never says Hello: no unique name is used up
            time.sleep(0.03)
            with_probe = settle()
            cl.close()
        except (OSError, InfraError):
            pass
        if with_probe is not None:
            t0 = time.time()
            while self.d.nfds() >= with_probe and time.time() - t0 < 5:
                time.sleep(0.01)
        return settle()

    def stop(self):
        for c in self.c.values():
            c.close()
        for sk in self.pre.values():
            try:
                sk.close()
            except OSError:
                pass
        return self.d.stop()

    def _connect(self, cid, uid, fdpass):
        old = os.geteuid()
        if uid != old:
            os.setegid(pwd.getpwuid(uid).pw_gid); os.seteuid(uid)
        try:
            cl = bus.Client(self.d, uid=uid, fd_passing=fdpass)
        finally:
            if uid != old:
                os.seteuid(old); os.setegid(0)
        self.c[cid] = cl

    def _pop_raw(self, cl):
        n = wiregen.message_length(cl.buf)
        if n is None or len(cl.buf) < n:
            return None
        raw = bytes(cl.buf[:n]); del cl.buf[:n]
        return raw

    def _pop_peek(self, cl):
        n = wiregen.message_length(cl.buf)
        return None if n is None or len(cl.buf) < n else n

    def _barrier(self, cid, got, timeout=10.0):
        """send a Ping to the bus and read until its reply; everything before it goes to `got`.
        Returns False when the connection turned out to be closed."""
        cl = self.c[cid]
        self.bserial += 1
        s = self.bserial
        # no destination: answered by the connection's built-in peer filter before bus_dispatch sees it —
        # no policy involved, invisible to eavesdroppers and monitors, answered even to monitors
        ok = cl.send(bus.method_call(s, None, "/", "org.freedesktop.DBus.Peer", "Ping"))
        t0 = time.time()
        while True:
            raw = self._pop_raw(cl)
            if raw is not None:
                m = wiregen.parse_message(raw)
                if m.mtype in (2, 3) and m.get(5) == s:
                    self.max_latency = max(self.max_latency, time.time() - t0)
                    return True
                if (m.mtype in (2, 3) and BARRIER0 < (m.get(5) or 0) < BARRIER0 + 0x100000) or \
                        (m.mtype == 1 and BARRIER0 < m.serial < BARRIER0 + 0x100000):
                    continue      # barrier traffic (ours, late, or seen by an eavesdropping rule)
                got.append(raw)
                continue
            if cl.eof or not ok:
                return False
            if getattr(self, "eof_unreliable", False) and cid != 0 and time.time() - t0 > 0.3:
                # while a program started by the daemon is being babysat, the babysitter process holds copies of all
                # the daemon's descriptors (dbus-spawn-unix.c forks without closing them), so a client the daemon has
                # dropped sees no end-of-file. The daemon serves every readable socket on each turn of its loop: if the
                # control connection gets two answers while this connection's earlier Ping stays unanswered, the
                # daemon is no longer reading it.
                self._ctl_sync(2)
                cl._fill(0.05)
                if self._pop_peek(cl) is None and not cl.eof:
                    self._ctl_sync(1)
                    cl._fill(0.05)
                    if self._pop_peek(cl) is None:
                        return False
                continue
            left = timeout - (time.time() - t0)
            if left <= 0:
                raise DaemonStalled("connection %d got no answer from the bus within %.0f s; daemon stderr: %s" % (cid, timeout, self.d.stderr()[-1500:]))
            cl._fill(min(left, 0.31) if getattr(self, "eof_unreliable", False) else left)

    def _wait_consumed(self, cid, timeout=8.0):
        """a connection that writes raw bytes is not synchronised with by a Ping of its own: wait until the daemon has taken
        everything it wrote out of the socket (the kernel's count of bytes written and not yet read by the peer is zero);
        the round trips that follow then see all of it dispatched"""
        import fcntl, termios, struct as _st
        cl = self.c.get(cid)
        if cl is None:
            return
        t0 = time.time()
        while time.time() - t0 < timeout:
            try:
                left = _st.unpack("i", fcntl.ioctl(cl.sock.fileno(), termios.TIOCOUTQ, b"\0\0\0\0"))[0]
            except OSError:
                return
            if left <= 0:
                return
            # (a connection the daemon has dropped is never read again: its end-of-file shows up here)
            r, _, _ = select.select([cl.sock], [], [], 0.002)
            if r:
                cl._fill(0)
                if cl.eof:
                    return

    def _ctl_sync(self, n=2):
        """round trips through bus_dispatch on the control connection: every deferred action of the
        daemon (zero-interval timeouts such as the expiry of a vanished callee's slots) has run by then"""
        ctl = self.c.get(0)
        if ctl is None or 0 in self.closed:
            time.sleep(0.02); return
        for _ in range(n):
            self.bserial += 1
            s = self.bserial
            if not ctl.send(bus.method_call(s, bus.BUS, bus.BUS_PATH, bus.BUS, "NameHasOwner", "s", [b"org.freedesktop.DBus"])):
                return
            msgs = ctl.recv_until(lambda m: m.mtype in (2, 3) and m.get(5) == s, 10.0)
            if not msgs or msgs[-1] is None:
                return

    def _is_gone(self, cid):
        """has the bus dropped `cid`? (by unique name when it has one, else by end-of-file on its socket)"""
        name = self.unique.get(cid)
        ctl = self.c.get(0)
        cl = self.c[cid]
        if name is None or ctl is None or 0 in self.closed:
            t0 = time.time()
            while time.time() - t0 < 0.15 and not cl.eof:
                cl._fill(0.03)
            return cl.eof
        self.bserial += 1
        s = self.bserial
        ctl.send(bus.method_call(s, bus.BUS, bus.BUS_PATH, bus.BUS, "NameHasOwner", "s", [name.encode()]))
        msgs = ctl.recv_until(lambda m: m.mtype in (2, 3) and m.get(5) == s, 10.0)
        if not msgs or msgs[-1] is None:
            raise DaemonStalled("the control connection got no answer to NameHasOwner")
        if len(msgs) > 1:
            self.ctl_extra = getattr(self, "ctl_extra", []) + [m for m in msgs[:-1]]
        return msgs[-1].mtype == 2 and msgs[-1].body[0] == 0

    def _wait_gone(self, cid):
        """wait until the daemon has finished the disconnect of `cid`"""
        name = self.unique.get(cid)
        ctl = self.c.get(0)
        if ctl is None or 0 in self.closed or cid == 0:
            time.sleep(0.05); return
        if name is None:
            time.sleep(0.03)
            return
        t0 = time.time()
        while True:
            self.bserial += 1
            s = self.bserial
            ctl.send(bus.method_call(s, bus.BUS, bus.BUS_PATH, bus.BUS, "NameHasOwner", "s", [name.encode()]))
            msgs = ctl.recv_until(lambda m: m.mtype in (2, 3) and m.get(5) == s, 10.0)
            if not msgs or msgs[-1] is None:
                raise InfraError("control connection lost")
            if len(msgs) > 1:
                self.ctl_extra = getattr(self, "ctl_extra", []) + [m for m in msgs[:-1]]
            if msgs[-1].mtype == 2 and msgs[-1].body[0] == 0:
                return
            if time.time() - t0 > 10:
                raise InfraError("daemon never dropped %s" % name)
            time.sleep(0.002)

    def _stall(self, cid):
        """`cid` stops reading; the control connection sends it large signals until the bus refuses one because the
        queue for `cid` is over max_outgoing_bytes. The flood (member VerifFlood) is harness traffic: it is filtered out of
        everything every connection receives and is not given to the model, whose `stall` event says just that the queue
        is full from now on."""
        name, ctl = self.unique.get(cid), self.c.get(0)
        if name is None or ctl is None or cid in self.closed or cid in self.stalled:
            return
        self.stalled.add(cid); self.flooded = True
        pay = [0] * 60000
        refused = 0
        for k in range(600):
            self.bserial += 1
            s = self.bserial
            ctl.send(bus.signal_msg(s, "/verif", "verif.h", "VerifFlood", "ay", [pay], dest=name))
            self.bserial += 1
            s2 = self.bserial
            ctl.send(bus.method_call(s2, None, "/", "org.freedesktop.DBus.Peer", "Ping"))
            msgs = ctl.recv_until(lambda m: m.mtype in (2, 3) and m.get(5) == s2, 10.0)
            if not msgs or msgs[-1] is None:
                raise DaemonStalled("control connection got no answer while filling the queue of connection %d" % cid)
            if any(m.mtype == 3 and m.get(5) == s and m.get(4) == b"org.freedesktop.DBus.Error.LimitsExceeded" for m in msgs[:-1]):
                # one refusal may only mean that the bus had queued faster than it could write; the queue stays over the
                # limit once the socket takes no more: several refusals in a row, a moment apart
                refused += 1
                if refused >= 4:
                    return
                time.sleep(0.01)
            else:
                refused = 0
        raise InfraError("the queue of connection %d never filled up" % cid)

    def _unstall(self, cid, got):
        if cid not in self.stalled:
            return
        self.stalled.discard(cid)
        cl = self.c.get(cid)
        if cl is None or cid in self.closed:
            return
        # read until the socket stays idle: the flood, and whatever was queued before the queue filled up
        idle = 0
        while idle < 3 and not cl.eof:
            if cl._fill(0.05):
                idle = 0
            else:
                idle += 1
            while True:
                raw = self._pop_raw(cl)
                if raw is None:
                    break
                if b"VerifFlood" not in raw:
                    got.setdefault(cid, []).append(raw)

    def step(self, op):
        """returns ({cid: [raw...]}, set of cids the bus closed during this op)"""
        op = norm_op(op)
        got = {cid: [] for cid in self.c if cid not in self.closed}
        newly = set()
        actor = None
        if op[0] == "connect":
            self._connect(op[1], op[2], op[3])
            got[op[1]] = []
            actor = op[1]
        elif op[0] == "send":
            actor = op[1]
            if actor in self.c and actor not in self.closed:
                self.c[actor].send_raw(op[2], op[3] if len(op) > 3 else ())
        elif op[0] == "fdsend":
            actor = op[1]
            if actor in self.c and actor not in self.closed:
                fds = []
                for tok in op[3]:
                    path = os.path.join(self.d.dir, "tok-%d" % tok)
                    fd = os.open(path, os.O_RDWR | os.O_CREAT, 0o600)
                    st = os.fstat(fd); self.tokens[(st.st_dev, st.st_ino)] = tok
                    fds.append(fd)
                data = op[2]
                cut = op[4] if len(op) > 4 and op[4] else 0
                if cut and 0 < cut < len(data):
                    self.c[actor].send_raw(data[:cut], fds)
                    time.sleep(0.01)
                    self.c[actor].send_raw(data[cut:])
                else:
                    self.c[actor].send_raw(data, fds)
                for fd in fds:
                    os.close(fd)
        elif op[0] == "raw":
            if op[1] in self.c and op[1] not in self.closed:
                self.c[op[1]].send_raw(op[2])
                self._wait_consumed(op[1])
                if len(op) > 3 and op[3] and op[1] not in self.dirty:
                    actor = op[1]      # whole valid messages: the stream is at a message boundary, the barrier may follow
                else:
                    self.dirty.add(op[1])
        elif op[0] == "preauth":
            import socket as _s
            k, data, close = op[1], op[2], op[3]
            sk = self.pre.get(k)
            try:
                if sk is None:
                    sk = _s.socket(_s.AF_UNIX, _s.SOCK_STREAM); sk.settimeout(2); sk.connect(self.d.path); self.pre[k] = sk
                sk.sendall(data)
            except OSError:
                pass
            if close:
                try:
                    sk.close()
                except OSError:
                    pass
                self.pre.pop(k, None)
        elif op[0] == "frozen":
            # the daemon is held (SIGSTOP) while several clients write and hang up: when it runs again it finds all of
            # that at once, in one turn of its main loop - descriptors in the order they became ready, each
            # connection's queue drained in turn
            os.kill(self.d.proc.pid, signal.SIGSTOP)
            hung_up = []
            try:
                for sub in op[1]:
                    if sub[0] == "send" and sub[1] in self.c and sub[1] not in self.closed:
                        self.c[sub[1]].send_raw(sub[2])
                    elif sub[0] == "close" and sub[1] in self.c and sub[1] not in self.closed:
                        self.c[sub[1]].close(); self.closed.add(sub[1]); got.pop(sub[1], None); hung_up.append(sub[1])
                    time.sleep(0.002)
            finally:
                os.kill(self.d.proc.pid, signal.SIGCONT)
            for cid in hung_up:
                self._wait_gone(cid)
        elif op[0] == "reload":
            # a new security policy: the configuration file is rewritten and the daemon told to read it again (SIGHUP reaches its
            # main loop through a pipe: it has been served once two round trips have gone through after it)
            self.d.reload(Policy([tuple(r) for r in op[1]]).to_xml())
            time.sleep(0.01)
            self._ctl_sync(2)
        elif op[0] == "stall":
            self._stall(op[1])
        elif op[0] == "unstall":
            self._unstall(op[1], got)
        elif op[0] == "sleep":
            time.sleep((self.reply_timeout or 0) * 1.3 / 1000.0 + 0.05)
        elif op[0] == "fdsleep":
            time.sleep((self.pending_fd_timeout or 0) * 1.4 / 1000.0 + 0.05)
        elif op[0] == "close":
            if op[1] in self.c and op[1] not in self.closed:
                self.c[op[1]].close()
                self.closed.add(op[1])
                got.pop(op[1], None)
                self._wait_gone(op[1])
        def settle(cid):
            if cid in self.closed or cid not in self.c:
                return
            if cid in self.stalled:
                # it is not read from; whether the bus has dropped it is asked of the bus
                if self._is_gone(cid):
                    self.c[cid].close(); self.closed.add(cid); newly.add(cid); self.stalled.discard(cid)
                return
            if cid in self.dirty:
                # a connection that has written raw bytes may be in the middle of a message: it is not
                # written to again; whether the bus has dropped it is asked of the bus
                cl = self.c[cid]
                gone = self._is_gone(cid)
                cl._fill(0.0) if not cl.eof else None
                while True:
                    raw = self._pop_raw(cl)
                    if raw is None:
                        break
                    try:
                        m = wiregen.parse_message(raw)
                        if (m.mtype in (2, 3) and BARRIER0 < (m.get(5) or 0) < BARRIER0 + 0x100000) or \
                                (m.mtype == 1 and BARRIER0 < m.serial < BARRIER0 + 0x100000):
                            continue      # the harness's own barrier traffic, seen through an eavesdropping rule
                    except Exception:
                        pass
                    got[cid].append(raw)
                if gone:
                    cl.close(); self.closed.add(cid); newly.add(cid)
                return
            if not self._barrier(cid, got[cid]):
                # drain what is left, then account for the closure
                cl = self.c[cid]
                while True:
                    raw = self._pop_raw(cl)
                    if raw is None:
                        break
                    got[cid].append(raw)
                cl.close()
                self.closed.add(cid); newly.add(cid)
                self._wait_gone(cid)
        if actor is not None:
            settle(actor)            # the op itself has been processed once this returns
        self._ctl_sync()             # ... and so have the daemon's deferred follow-ups
        for cid in sorted(self.c):
            settle(cid)
        # descriptors that came with the messages, as tokens, in arrival order
        for cid, raws in got.items():
            cl = self.c.get(cid)
            if cl is None or not cl.fds:
                continue
            toks = []
            for fd in cl.fds:
                try:
                    st = os.fstat(fd); toks.append(self.tokens.get((st.st_dev, st.st_ino), -1)); os.close(fd)
                except OSError:
                    toks.append(-2)
            cl.fds = []
            for k, raw in enumerate(raws):
                try:
                    n = wiregen.parse_message(raw).get(9) or 0
                except Exception:
                    n = 0
                if n:
                    r = Raw(raw); r.toks = tuple(toks[:n]); toks = toks[n:]; raws[k] = r
            if toks:
                raws.append(Raw(b"")); raws[-1].toks = tuple(toks)      # descriptors that came with no message announcing them
        if self.flooded:
            for cid, raws in got.items():
                got[cid] = [r for r in raws if b"VerifFlood" not in r]
        live = len([c for c in self.c if c not in self.closed])
        self.fdcounts.append(self.d.nfds() - self.base_fds - live)
        # learn unique names from Hello replies
        for cid, raws in got.items():
            if cid not in self.unique:
                for raw in raws:
                    m = wiregen.parse_message(raw)
                    if m.mtype == 2 and m.get(7) == b"org.freedesktop.DBus" and m.get(8) == b"s" and m.body and \
                            isinstance(m.body[0], bytes) and m.body[0].startswith(b":"):
                        self.unique[cid] = m.body[0].decode(); break
        if not self.d.alive():
            raise DaemonDied(self.d.stderr())
        return got, newly


class Raw(bytes):
    """a received message with the tokens of the descriptors that came with it"""
    toks = ()


class DaemonDied(Exception):
    pass


class DaemonStalled(Exception):
    pass


# ---------------------------------------------------------------- canonical form

_ser = re.compile(r" ser=\d+")
_n = re.compile(r"^ok n=\d+ ")


def canon(line):
    """canonical text of one delivered message (both sides go through the Lean printer)"""
    line = _n.sub("", line)
    # the daemon converts a message to its own byte order only when something iterates over the
    # body (an argN match rule, a driver method): the order on the wire is not part of the contract
    line = re.sub(r"^e=[lB] ", "", line)
    m = re.search(r" sender=(\S+)", line)
    snd = m.group(1) if m else "-"
    if snd == BUS_HEX or snd == "-":
        line = _ser.sub(" ser=*", line)
        if " t=3 " in " " + line:
            line = re.sub(r" body=.*? uk=", " body=~ uk=", line)
        elif snd == "-" and " t=2 " in " " + line and " sig=73 " in line:
            line = re.sub(r" body=.*? uk=", " body=~ uk=", line)      # GetMachineId from the peer filter: the machine's uuid
    if " member=" + b"ListNames".hex() not in line:
        pass
    return line


def sort_string_array(line):
    """ListNames replies come out of a hash table: sort the elements of a lone string array"""
    m = re.search(r" body=A\[s\|([^\]]*)\] uk=", line)
    if m and m.group(1).startswith("s:" + BUS_HEX + ","):
        items = m.group(1).split(",") if m.group(1) else []
        line = line[:m.start()] + " body=A[s|" + ",".join(sorted(items)) + "]" + line[m.end() - 4:]
    return line


def dump_raw(raws):
    """raw wire messages -> canonical lines (printed by the model's own decoder)"""
    if not raws:
        return []
    outs = script.run_model("".join("wire demarshalx " + (r.hex() or "-") + "\n" for r in raws))[0]
    lines = [sort_string_array(canon(o.split(" ; ")[0])) for o in outs]
    for i, r in enumerate(raws):
        if getattr(r, "toks", ()):
            lines[i] = (lines[i] if len(r) else "STRAY") + " fdtok=" + ",".join(map(str, r.toks))
    return lines


def parse_model_outs(ans):
    """model answer for one op -> ({cid: [canon...]}, closed set, opaque list)"""
    per, closed, opaque = {}, set(), []
    if ans.strip() == "-":
        return per, closed, opaque
    for part in ans.split(" | "):
        toks = part.split(" ", 2)
        if toks[0] == "D":
            per.setdefault(int(toks[1]), []).append(sort_string_array(canon(toks[2])))
        elif toks[0] == "O":
            cid, rs = toks[1], toks[2]
            per.setdefault(int(cid), []).append("OPAQUE rs=" + rs)
        elif toks[0] == "C":
            closed.add(int(toks[1]))
    return per, closed, opaque


def frozen_conns(subs):
    order = []
    for sub in subs:
        if sub[1] not in order:
            order.append(sub[1])
    return order


def frozen_order(subs, order=None):
    """the order in which the daemon serves what it finds when it runs again: connection by connection (everything a
    connection wrote - and then its hang-up - in one go: _dbus_loop_dispatch drains one connection after the other). Which
    connection comes first is up to the kernel's ready list and the loop's bookkeeping: `order` (default: first appearance)"""
    by = {}
    for sub in subs:
        by.setdefault(sub[1], []).append(sub)
    return [sub for c in (order or frozen_conns(subs)) for sub in by[c]]


def norm_op(op):
    """a `send` whose bytes are not exactly one message (a valid message followed by more bytes: the rest stays in the
    daemon's loader and would be continued by the harness's own barrier) is a raw write: the connection is not written to again"""
    if op[0] == "send" and len(op) == 3:
        n = wiregen.message_length(op[2])
        if n is not None and 16 <= n < len(op[2]):
            return ("raw", op[1], op[2])
    return op


def op_lines(ops, fdmode=False, groups=None, orders=None):
    """one model line per op; a `frozen` op stands for several (`groups`, when given, receives the number of lines per op)"""
    ops = [norm_op(o) for o in ops]
    lines = []
    dirty = set()
    flat = []
    for idx, op in enumerate(ops):
        if op[0] == "reload":
            pl = Policy([tuple(r) for r in op[1]]).to_model()
            flat.append(("modellines", ["bus reload-begin"] + pl + ["bus reload"]))
            if groups is not None:
                groups.append(len(pl) + 2)
            continue
        if op[0] == "frozen":
            inner = frozen_order(op[1], (orders or {}).get(idx))
            flat.extend(inner)
            if groups is not None:
                groups.append(len(inner))
        else:
            flat.append(op)
            if groups is not None:
                groups.append(1)
    for op in flat:
        if op[0] == "modellines":
            lines.extend(op[1]); continue
        if op[0] == "fdsleep":
            lines.append("bus fdtimeout"); continue
        if fdmode and op[0] in ("send", "raw", "fdsend"):
            lines.append("bus fdwrite %d %s %s" % (op[1], op[2].hex() or "-", ",".join(map(str, op[3])) if op[0] == "fdsend" and op[3] else "-"))
            continue
        if op[0] == "raw" and not (len(op) > 3 and op[3] and op[1] not in dirty):
            dirty.add(op[1])
        if op[0] == "send" and op[1] in dirty:
            # the connection's stream may be in the middle of a message: these bytes continue it
            lines.append("bus raw %d %s" % (op[1], op[2].hex()))
            continue
        if op[0] == "connect":
            g = gids_of(op[2])
            lines.append("bus connect %d %d %s %d" % (op[1], op[2], ",".join(map(str, g)) or "-", 1 if op[3] else 0))
        elif op[0] == "send":
            lines.append("bus msg %d %s" % (op[1], op[2].hex()))
        elif op[0] == "close":
            lines.append("bus close %d" % op[1])
        elif op[0] == "stall":
            lines.append("bus stall %d 1" % op[1])
        elif op[0] == "unstall":
            lines.append("bus stall %d 0" % op[1])
        elif op[0] == "sleep":
            lines.append("bus timeout")
        elif op[0] == "fdsleep":
            lines.append("bus fdtimeout")
        elif op[0] == "raw":
            lines.append("bus raw %d %s" % (op[1], op[2].hex() or "-"))
        elif op[0] == "preauth":
            lines.append("bus nop")
    return lines


def model_run(ops, policy=SESSION, limits=None, fdmode=False, orders=None):
    limits = dict(limits or {})
    limits.setdefault("maxmsg", 32 * 1024 * 1024)      # bus/config-parser.c: the bus's own default for max_message_size
    groups = []
    lines = ["bus reset " + " ".join("%s=%d" % kv for kv in (limits or {}).items() if kv[0] not in ("reply_timeout", "pending_fd_timeout", "outgoing"))] + policy.to_model() + \
        ([x for l in op_lines(ops, True) for x in (l, "bus fdstate")] if fdmode else op_lines(ops, groups=groups, orders=orders))
    outs = script.run_model("\n".join(lines) + "\n")[0]
    pre = 1 + len(policy.rules)
    for o in outs[:pre]:
        if o not in ("ok",):
            raise InfraError("model refused setup line: %r" % o)
    if fdmode:
        body = outs[pre:]
        res = [parse_model_outs(o) for o in body[0::2]]
        LAST_RUN["model_open"] = [int(re.search(r"open=(\d+)", o).group(1)) for o in body[1::2]]
        return res
    res, k = [], pre
    for g in groups:
        per, closed, opaque = {}, set(), []
        for o in outs[k:k + g]:
            p1, c1, o1 = parse_model_outs(o)
            for cid, ls in p1.items():
                per.setdefault(cid, []).extend(ls)
            closed |= c1; opaque += o1
        # (a connection that hung up inside a frozen batch is not one the bus closed)
        res.append((per, closed, opaque)); k += g
    return res


def opaque_match(model_line, impl_line):
    if not model_line.startswith("OPAQUE rs="):
        return model_line == impl_line
    rs = model_line.split("=", 1)[1]
    return (" t=2 " in " " + impl_line) and (" rs=%s " % rs in impl_line) and (" sender=" + BUS_HEX in impl_line)


LAST_RUN = {}


def run_impl(ops, policy=SESSION, limits=None, extra=""):
    """returns (steps, died, unique): steps = [({cid: [raw]}, closed set)] for the ops processed"""
    run = ImplRun(policy, limits, extra)
    steps, died = [], None
    try:
        for i, op in enumerate(ops):
            try:
                steps.append(run.step(op))
            except DaemonDied as e:
                died = str(e)[-3000:]
                break
            except DaemonStalled as e:
                died = "STALLED: " + str(e)[-3000:]
                break
            except (OSError, InfraError) as e:
                t0 = time.time()
                while run.d.alive() and time.time() - t0 < 20:
                    time.sleep(0.1)
                if run.d.alive():
                    raise
                died = run.d.stderr()[-3000:]
                break
        LAST_RUN["max_latency"] = run.max_latency
        LAST_RUN["fdcounts"] = list(run.fdcounts)
        LAST_RUN["dirty"] = set(run.dirty)
        if died is None:
            # libdbus' own argument checks abort the process unless DBUS_FATAL_WARNINGS=0 (as it is for the daemons started here): a
            # tripped check is an assertion failure of the daemon all the same
            tripped = [l for l in run.d.stderr().splitlines() if ("assertion" in l and "failed" in l) or "were incorrect" in l]
            if tripped:
                died = "a libdbus check was tripped (fatal with default settings): " + tripped[0][:400]
        return steps, died, dict(run.unique)
    finally:
        run.stop()


def dump_steps(steps):
    """[( {cid:[raw]}, closed )] -> [( {cid:[canon]}, closed )] with one driver invocation"""
    flat = [r for got, _ in steps for cid in sorted(got) for r in got[cid]]
    lines = dump_raw(flat)
    it = iter(lines)
    out = []
    for got, closed in steps:
        out.append(({cid: [next(it) for _ in got[cid]] for cid in sorted(got)}, closed))
    return out


def compare(ops, policy=SESSION, limits=None, extra="", impl=None):
    """run both sides; returns None when they agree, else a dict describing the first difference. Where the daemon found
    several connections' bytes at once (`frozen`), the observations must equal the model's for SOME order of serving those
    connections (each connection's own order is kept): the orders are searched, depth first, the latest batch first."""
    import itertools
    steps, died, uq = impl if impl is not None else run_impl(ops, policy, limits, extra)
    impl = (steps, died, uq)
    isteps = dump_steps(steps)
    first = _compare_once(ops, policy, limits, impl, isteps, None)
    frozen = [i for i, op in enumerate(ops) if op[0] == "frozen" and len(frozen_conns(op[1])) > 1]
    if first is None or not frozen:
        return first
    orders, untried, runs, diff = {}, {}, 0, first
    LAST_RUN["order_search_runs"] = 0
    while diff is not None and runs < 120:
        cands = [f for f in frozen if f <= diff["step"]]
        f = None
        for c in reversed(cands):
            if c not in untried:
                conns = frozen_conns(ops[c][1])
                untried[c] = [list(p) for p in itertools.permutations(conns)][1:][:23]
            if untried[c]:
                f = c; break
        if f is None:
            break
        orders[f] = untried[f].pop(0)
        for g in [g for g in list(untried) if g > f]:
            untried.pop(g); orders.pop(g, None)
        runs += 1
        diff = _compare_once(ops, policy, limits, impl, isteps, orders)
    LAST_RUN["order_search_runs"] = runs
    return None if diff is None else first


def _compare_once(ops, policy, limits, impl, isteps, orders):
    ops = [norm_op(o) for o in ops]
    fdmode = any(op[0] == "fdsend" for op in ops)
    model = model_run(ops, policy, limits, fdmode, orders=orders)
    steps, died, _ = impl
    isteps = [(dict(per), set(cl)) for per, cl in isteps]
    dirty = set()
    stalled, deferred = set(), {}
    for i, (iper, newly) in enumerate(isteps):
        op = ops[i]
        mper, mclosed, _ = model[i]
        if op[0] == "stall":
            stalled.add(op[1])
        if op[0] == "frozen":
            # what a connection that hung up inside the batch was sent before that, nobody has seen
            for s_ in op[1]:
                if s_[0] == "close":
                    mper.pop(s_[1], None); iper.pop(s_[1], None)
                    mclosed = mclosed - {s_[1]}      # (whether the bus dropped it a moment before it hung up cannot be told)
            # a connection the bus dropped inside the batch (an invalid message among the bytes it found): by the time the
            # messages before it are dispatched its transport is gone, so what they earned it is never written
            for cid in mclosed & newly:
                mper.pop(cid, None); iper.pop(cid, None)
        # what the bus queues for a connection that is not reading is seen when it reads again
        for cid in list(mper):
            if cid in stalled and not (op[0] == "unstall" and op[1] == cid):
                deferred.setdefault(cid, []).extend(mper.pop(cid))
        if op[0] == "unstall" and op[1] in stalled:
            stalled.discard(op[1])
            mper[op[1]] = deferred.pop(op[1], []) + mper.get(op[1], [])
        for cid in mclosed | newly:
            stalled.discard(cid); deferred.pop(cid, None)
        if op[0] == "raw" and not (len(op) > 3 and op[3] and op[1] not in dirty):
            dirty.add(op[1])
        for cid in sorted(set(iper) | set(mper)):
            if cid in dirty:
                continue      # what a client that writes raw bytes still receives is not compared (it is never synchronised with)
            a, b = iper.get(cid, []), mper.get(cid, [])
            if op[0] == "send" and cid == op[1] and b"BecomeMonitor" in op[2]:
                # the model keeps ordinary deliveries and monitor copies in two lists; in the one step in
                # which a connection turns into a monitor it receives both kinds, interleaved
                a, b = sorted(a), sorted(b)
            if op[0] in ("sleep", "fdsleep"):
                # slots time out one by one as the clock passes their deadlines; which of two deadlines
                # a millisecond apart is noticed first is not part of the contract
                a, b = sorted(a), sorted(b)
            if len(a) != len(b) or not all(opaque_match(y, x) for x, y in zip(a, b)):
                return {"step": i, "op": show_op(op), "kind": "delivery", "conn": cid, "impl": a, "model": b}
        if newly != mclosed:
            return {"step": i, "op": show_op(op), "kind": "closed", "impl": sorted(newly), "model": sorted(mclosed)}
        if fdmode and i < len(LAST_RUN.get("fdcounts", [])) and LAST_RUN["fdcounts"][i] != LAST_RUN["model_open"][i]:
            return {"step": i, "op": show_op(op), "kind": "open-descriptors", "impl": LAST_RUN["fdcounts"][i], "model": LAST_RUN["model_open"][i]}
    if died is not None:
        return {"step": len(steps), "op": show_op(ops[len(steps)]), "kind": "daemon-died", "stderr": died}
    return None


def impl_trace(ops, policy=SESSION, limits=None, extra=""):
    """the implementation's observations alone: list of ({cid: [canon]}, closed) per op"""
    run = ImplRun(policy, limits, extra)
    out = []
    try:
        for op in ops:
            got, newly = run.step(op)
            out.append(({cid: dump_raw(r) for cid, r in got.items()}, newly))
        return out, dict(run.unique)
    finally:
        run.stop()


def show_op(op):
    if op[0] == "frozen":
        return "frozen " + ";".join(show_op(s).replace(" ", ",") for s in op[1])
    if op[0] == "reload":
        import json as _json
        return "reload " + _json.dumps([list(r) for r in op[1]]).encode().hex()
    if op[0] == "send":
        return "send %d %s" % (op[1], op[2].hex())
    if op[0] == "fdsend":
        return "fdsend %d %s %s %d" % (op[1], op[2].hex() or "-", ",".join(map(str, op[3])) or "-", op[4] if len(op) > 4 else 0)
    if op[0] == "raw":
        return "raw %d %s%s" % (op[1], op[2].hex() or "-", " whole" if len(op) > 3 and op[3] else "")
    if op[0] == "preauth":
        return "preauth %d %s %d" % (op[1], op[2].hex() or "-", 1 if op[3] else 0)
    return " ".join(str(x) for x in op)


def parse_op(s):
    t = s.split()
    if t[0] == "frozen":
        return ("frozen", [parse_op(x.replace(",", " ")) for x in t[1].split(";")])
    if t[0] == "reload":
        import json as _json
        return ("reload", [tuple(r) for r in _json.loads(bytes.fromhex(t[1]).decode())])
    if t[0] == "send":
        return ("send", int(t[1]), bytes.fromhex(t[2]))
    if t[0] == "connect":
        return ("connect", int(t[1]), int(t[2]), t[3] in ("True", "1"))
    if t[0] in ("stall", "unstall"):
        return (t[0], int(t[1]))
    if t[0] == "sleep":
        return ("sleep",)
    if t[0] == "fdsleep":
        return ("fdsleep",)
    if t[0] == "fdsend":
        return ("fdsend", int(t[1]), b"" if t[2] == "-" else bytes.fromhex(t[2]), [] if t[3] == "-" else [int(x) for x in t[3].split(",")], int(t[4]))
    if t[0] == "raw":
        return ("raw", int(t[1]), b"" if t[2] == "-" else bytes.fromhex(t[2]), len(t) > 3 and t[3] == "whole")
    if t[0] == "preauth":
        return ("preauth", int(t[1]), b"" if t[2] == "-" else bytes.fromhex(t[2]), t[3] == "1")
    return ("close", int(t[1]))
