"""History generator for the bus-level checks: structured, mostly-valid traffic from small pools
(so that names collide, rules match and replies pair up), plus a malformed stream.  Every choice
comes from the one `random.Random` passed in."""
import random
from . import wiregen, bus
from .bus import method_call, signal_msg, reply_msg, BUS, BUS_PATH
from .props import c07 as rulegen

NAMES = [b"com.example.A", b"com.example.B", b"com.example.A.sub", b"org.x", b"com.example"]
BAD_NAMES = [b"nodots", b":1.7", b"org.freedesktop.DBus", b"", b"a..b", b"com.example.A-", b"1com.x", b"x" * 256 + b".y"]
IFACES = [b"a.b", b"a.b.c", b"org.x"]
MEMBERS = [b"M", b"Changed", b"N"]
PATHS = [b"/", b"/a", b"/a/b", b"/a/b/c", b"/ab"]
ARGV = [b"", b"x", b"a.b", b"a.b.c", b"/", b"/a", b"/a/", b"/a/b", b"com.example.A"]

DEFAULT_WEIGHTS = {
    "connect": 4, "hello": 6, "close": 2, "request": 14, "release": 7, "query": 6, "addmatch": 8, "removematch": 4,
    "signal": 12, "call": 12, "reply": 8, "driver_edge": 5, "forged": 6, "garbage": 1, "badtype": 2, "nodest": 2, "sleep": 0, "monitor": 0,
    "hostile": 0, "preauth": 0, "fdsend": 0, "stall": 0, "unstall": 0, "frozen": 0,
}


class Gen:
    def __init__(self, rng, weights=None, max_conns=5, uids=(0,), fdpass=False, names=None, rule_uniques=True, big=None, maxfds=16,
                 no_eavesdrop=False, bigheader=0, request_uniques=False):
        self.bigheader = bigheader
        self.request_uniques = request_uniques     # RequestName / ReleaseName also for unique names of live connections (own and others')
        self.maxfds = maxfds
        self.no_eavesdrop = no_eavesdrop
        self.stalled = set()
        self.r = rng
        self.w = dict(DEFAULT_WEIGHTS)
        if weights:
            self.w.update(weights)
        self.max_conns = max_conns
        self.uids = list(uids)
        self.ops = []
        self.open = {}        # cid -> dict(active, unique, serial, uid)
        self.next_cid = 1
        self.next_unique = 0
        self.calls = []       # (caller cid, callee name/unique, serial) outstanding calls seen
        self.rules = {}       # cid -> list of rule texts added
        self.stats = {}
        self.fdpass = fdpass
        self.names = list(names) if names else NAMES
        self.rule_uniques = rule_uniques
        self.big = big          # (size, weight): sometimes send a message around this size

    # ---- helpers
    def count(self, k):
        self.stats[k] = self.stats.get(k, 0) + 1

    def serial(self, cid):
        c = self.open[cid]
        if self.r.random() < 0.05:
            return self.r.choice([1, 2, c["serial"] or 1, 0xffffffff])
        c["serial"] += 1
        return c["serial"]

    def send(self, cid, m):
        data = m if isinstance(m, bytes) else m.marshal()
        n = wiregen.message_length(data)
        if n is not None and n > len(data) and n <= (1 << 27):
            return      # would leave the loader waiting for more bytes: not a complete-message history
        if n is not None and 16 <= n < len(data):
            # a message followed by more bytes: a raw write (what follows stays in the daemon's loader; the connection is not
            # synchronised with again)
            self.ops.append(("raw", cid, data))
            return
        self.ops.append(("send", cid, data))

    def bus_call(self, cid, member, sig="", body=(), **kw):
        self.send(cid, method_call(self.serial(cid), BUS, BUS_PATH, BUS, member, sig, body, **kw))

    def start(self):
        """control connection"""
        self.ops.append(("connect", 0, 0, False))
        self.ops.append(("send", 0, method_call(1, BUS, BUS_PATH, BUS, "Hello").marshal()))
        self.next_unique += 1

    def do_connect(self):
        cid = self.next_cid; self.next_cid += 1
        uid = self.r.choice(self.uids)
        fd = self.fdpass and self.r.random() < 0.7
        self.ops.append(("connect", cid, uid, fd))
        self.open[cid] = {"active": False, "unique": None, "serial": 0, "uid": uid, "fd": fd}
        self.rules[cid] = []
        return cid

    def do_hello(self, cid):
        c = self.open[cid]
        if self.r.random() < 0.12:
            # a Hello that names no interface is a Hello too (a missing INTERFACE matches any)
            self.send(cid, method_call(self.serial(cid), BUS, BUS_PATH, None, "Hello"))
        else:
            self.bus_call(cid, "Hello")
        if not c["active"]:
            c["active"] = True
            c["unique"] = (":1.%d" % self.next_unique).encode()
            self.next_unique += 1

    def some_conn(self, active=None):
        cs = [c for c, v in self.open.items() if active is None or v["active"] == active]
        return self.r.choice(cs) if cs else None

    def some_dest(self):
        r = self.r.random()
        uniques = [v["unique"] for v in self.open.values() if v["unique"]]
        if r < 0.45:
            return self.r.choice(self.names)
        if r < 0.8 and uniques:
            return self.r.choice(uniques)
        if r < 0.9:
            return (":1.%d" % self.r.randint(1, self.next_unique + 2)).encode()
        return self.r.choice([b"com.example.Nobody", b"org.freedesktop.DBus"])

    def body(self):
        n = self.r.choice([0, 1, 1, 2])
        tys, vals = [], []
        for _ in range(n):
            x = self.r.random()
            if x < 0.55: tys.append(('b', 's')); vals.append(self.r.choice(ARGV))
            elif x < 0.8: tys.append(('b', 'o')); vals.append(self.r.choice(PATHS))
            elif x < 0.9: tys.append(('b', 'u')); vals.append(self.r.randint(0, 9))
            else:
                t = wiregen.gen_type(self.r, 1); tys.append(t); vals.append(wiregen.gen_val(self.r, t, 1))
        return "".join(wiregen.sig(t) for t in tys), vals

    def do_frozen(self):
        """a batch the daemon finds all at once (it is held while the clients act): messages between peers and hang-ups,
        often calls to a connection that hangs up in the same batch"""
        n0 = len(self.ops)
        victims = [c for c, v in self.open.items() if v["active"] and v["unique"]]
        if victims and len(self.open) >= 2 and self.r.random() < 0.65:
            v = self.r.choice(victims)
            vname = self.open[v]["unique"]
            others = [c for c, x in self.open.items() if c != v and x["active"]]
            acts = []
            for _ in range(self.r.choice([1, 1, 2, 3])):
                if others:
                    a = self.r.choice(others)
                    dest = vname if self.r.random() < 0.6 else self.r.choice(self.names)
                    s = self.serial(a)
                    m = method_call(s, dest.decode(), self.r.choice(PATHS).decode(), self.r.choice(IFACES).decode(), self.r.choice(MEMBERS).decode(),
                                    "s", [self.r.choice(ARGV)], flags=self.r.choice([0, 0, 0, 1, 2]))
                    acts.append(("send", a, m.marshal()))
                    self.calls.append((a, dest, s))
            acts.insert(self.r.randint(0, len(acts)), ("close", v))
            del self.open[v]
            self.ops.extend(acts)
        else:
            for _ in range(self.r.choice([2, 2, 3, 4])):
                self.step(self.r.choice(["call", "call", "signal", "reply", "close"]))
        subs = self.ops[n0:]
        del self.ops[n0:]
        if subs and all(o[0] in ("send", "close") and o[1] != 0 and (o[0] == "close" or len(o[2]) < 1500) for o in subs) and \
                all(sum(len(o[2]) for o in subs if o[0] == "send" and o[1] == c) < 1900 for c in {o[1] for o in subs}):
            self.ops.append(("frozen", subs)); self.count("frozen")
        else:
            self.ops.extend(subs)

    # ---- op kinds
    def pick(self):
        kinds = list(self.w)
        return self.r.choices(kinds, [self.w[x] for x in kinds])[0]

    def step(self, k=None):
        if k is None:
            k = self.pick()
        if not self.open or (k == "connect" and len(self.open) < self.max_conns):
            if len(self.open) < self.max_conns:
                cid = self.do_connect(); self.count("connect")
                if self.r.random() < 0.85:
                    self.do_hello(cid); self.count("hello")
                return
            k = "signal"
        if k == "connect":
            k = "request"
        if k == "monitor":
            cid = self.some_conn(active=True) or self.some_conn()
            x = self.r.random()
            if x < 0.45: rules = []
            elif x < 0.9: rules = [self.gen_rule() for _ in range(self.r.choice([1, 1, 2, 3]))]
            else: rules = [b"type='signal'", b"bogus"]
            flags = 0 if self.r.random() < 0.93 else 1
            s = self.serial(cid)
            self.send(cid, method_call(s, BUS, BUS_PATH if self.r.random() < 0.93 else "/", "org.freedesktop.DBus.Monitoring",
                                       "BecomeMonitor", "asu", [rules, flags]))
            self.count("monitor")
            if self.r.random() < 0.3:       # a monitor talking to the connection's own peer filter
                self.send(cid, method_call(self.serial(cid), None, "/", "org.freedesktop.DBus.Peer", self.r.choice(["Ping", "GetMachineId", "Nope"])))
            return
        if k == "sleep":
            self.ops.append(("sleep",)); self.count("sleep"); self.calls = []
            return
        if k == "frozen":
            self.do_frozen(); return
        if k == "stall":
            cands = [c for c, v in self.open.items() if v["active"] and c != 0 and c not in self.stalled]
            if cands and len(self.stalled) < 2:
                c = self.r.choice(cands); self.stalled.add(c)
                self.ops.append(("stall", c)); self.count("stall")
            return
        if k == "unstall":
            if self.stalled:
                c = self.r.choice(sorted(self.stalled)); self.stalled.discard(c)
                if c in self.open:
                    self.ops.append(("unstall", c)); self.count("unstall")
            return
        if k == "preauth":
            self.do_preauth(); return
        if k == "fdsend":
            good = [c for c, v in self.open.items() if c != 0 and v["active"] and v.get("fd")]
            cands = good if good and self.r.random() < 0.85 else [c for c in self.open if c != 0]
            if cands:
                self.do_fdsend(self.r.choice(cands))
            return
        if k == "hostile":
            cands = [c for c in self.open if c != 0]
            if cands:
                self.do_hostile(self.r.choice(cands))
            return
        if k == "hello":
            cid = self.some_conn(active=False) if self.r.random() < 0.7 else self.some_conn()
            if cid is None: cid = self.some_conn()
            self.do_hello(cid); self.count("hello"); return
        if k == "close":
            if len(self.open) > 1 or self.r.random() < 0.3:
                cid = self.some_conn()
                self.ops.append(("close", cid)); del self.open[cid]; self.count("close")
                for (owner, text, base) in getattr(self, "ext", []):
                    if base == cid and owner in self.open and self.r.random() < 0.7:
                        self.bus_call(owner, "RemoveMatch", "s", [text])      # must still be there
            return
        cid = self.some_conn(active=True) if self.r.random() < 0.93 else self.some_conn()
        if cid is None:
            cid = self.some_conn()
        c = self.open[cid]
        self.count(k)
        if k == "request":
            name = self.r.choice(self.names) if self.r.random() < 0.9 else self.r.choice(BAD_NAMES)
            flags = self.r.choice([0, 1, 2, 3, 4, 5, 6, 7]) if self.r.random() < 0.93 else self.r.choice([8, 0x10 | 3, 0xffffffff, 0x80000004])
            live = [v["unique"] for v in self.open.values() if v["unique"]]
            if self.request_uniques and live and self.r.random() < 0.2:
                name = self.r.choice(live)             # the unique name of a live connection: never to be had, queued for or released
            self.bus_call(cid, "RequestName", "su", [name, flags])
        elif k == "release":
            name = self.r.choice(self.names) if self.r.random() < 0.9 else self.r.choice(BAD_NAMES + ([c["unique"]] if c["unique"] else []))
            live = [v["unique"] for v in self.open.values() if v["unique"]]
            if self.request_uniques and live and self.r.random() < 0.2:
                name = self.r.choice(live)
            self.bus_call(cid, "ReleaseName", "s", [name])
        elif k == "query":
            which = self.r.choice(["GetNameOwner", "NameHasOwner", "ListNames", "ListQueuedOwners", "GetConnectionUnixUser"])
            if which == "ListNames":
                self.bus_call(cid, which)
            else:
                self.bus_call(cid, which, "s", [self.some_dest() if self.r.random() < 0.9 else self.r.choice(BAD_NAMES)])
        elif k == "addmatch":
            others = [x for x, v in self.open.items() if v["unique"] and x != cid]
            if self.rule_uniques and others and c["unique"] and self.r.random() < 0.15:
                # a rule naming a textual extension of another live unique name; that other connection gets a
                # rule of its own, so that its departure walks the rule lists
                base = self.r.choice(others)
                text = b"sender='" + self.open[base]["unique"] + str(self.r.randint(0, 9)).encode() + b"'"
                self.rules[cid].append(text)
                self.bus_call(cid, "AddMatch", "s", [text])
                self.bus_call(base, "AddMatch", "s", [b"type='signal',member='N'"])
                self.rules[base].append(b"type='signal',member='N'")
                self.ext = getattr(self, "ext", []) + [(cid, text, base)]
                return
            rule = self.gen_rule()
            self.rules[cid].append(rule)
            self.bus_call(cid, "AddMatch", "s", [rule])
        elif k == "removematch":
            pool = self.rules[cid]
            rule = self.r.choice(pool) if pool and self.r.random() < 0.8 else self.gen_rule()
            self.bus_call(cid, "RemoveMatch", "s", [rule])
        elif k == "signal":
            sig, vals = self.body()
            if self.big and self.r.random() < self.big[1]:
                # a message whose total length is exactly the limit plus a small delta
                target = self.big[0] + self.r.choice([-9, -8, -1, 0, 1, 2, 3, 5, 7, 8, 9, 64])
                dest = None if self.r.random() < 0.6 else self.some_dest()
                args = (self.serial(cid), self.r.choice(PATHS).decode(), self.r.choice(IFACES).decode(), self.r.choice(MEMBERS).decode())
                m0 = signal_msg(*args, "ay", [[]], dest=dest.decode() if dest else None)
                self.r.shuffle(m0.fields)      # the fields array need not end on an 8-byte boundary
                k = max(0, target - len(m0.marshal()))
                m0.body = [[self.r.randrange(256) for _ in range(k)]]
                self.send(cid, m0)
                return
            dest = None if self.r.random() < 0.75 else self.some_dest()
            self.send(cid, signal_msg(self.serial(cid), self.r.choice(PATHS).decode(), self.r.choice(IFACES).decode(),
                                      self.r.choice(MEMBERS).decode(), sig, vals, dest=dest.decode() if dest else None,
                                      le=self.r.random() < 0.9))
        elif k == "call":
            sig, vals = self.body()
            dest = self.some_dest()
            s = self.serial(cid)
            flags = self.r.choice([0, 0, 0, 1, 2, 3])
            iface = self.r.choice(IFACES).decode() if self.r.random() < 0.8 else None
            self.send(cid, method_call(s, dest.decode(), self.r.choice(PATHS).decode(), iface,
                                       self.r.choice(MEMBERS).decode(), sig, vals, flags=flags, le=self.r.random() < 0.9))
            self.calls.append((cid, dest, s))
        elif k == "reply":
            sig, vals = self.body()
            if self.calls and self.r.random() < 0.8:
                caller, dest, s = self.r.choice(self.calls)
                to = self.open[caller]["unique"] if caller in self.open and self.open[caller]["unique"] else b":1.99"
                if self.r.random() < 0.1: s = ((s + 1) & 0xffffffff) or 1
                if self.r.random() < 0.04: s = 0        # reply serial 0: not a valid message
            else:
                to, s = self.some_dest(), self.r.randint(1, 6)
            err = "com.example.Err" if self.r.random() < 0.4 else None
            self.send(cid, reply_msg(self.serial(cid), s, to.decode(), sig, vals, error=err))
        elif k == "driver_edge":
            x = self.r.random()
            s = self.serial(cid)
            if x < 0.2:       # wrong signature
                sg = self.r.choice(["", "s", "u", "ss", "su", "us"])
                vals = [self.r.choice(NAMES) if ch == "s" else self.r.randint(0, 7) for ch in sg]
                self.send(cid, method_call(s, BUS, BUS_PATH, BUS, self.r.choice(["RequestName", "AddMatch", "Hello", "GetNameOwner", "ListNames"]),
                                           sg, vals))
            elif x < 0.35:    # unknown method / interface
                self.send(cid, method_call(s, BUS, BUS_PATH, self.r.choice([BUS, "org.example.Nope", "org.freedesktop.DBus.Peer", None]),
                                           self.r.choice(["Nope", "Ping", "Hello", "Get"])))
            elif x < 0.55:    # other object paths, no interface
                self.send(cid, method_call(s, BUS, self.r.choice(["/", "/org", "/org/freedesktop/DBus/x", BUS_PATH]),
                                           self.r.choice([BUS, None, "org.freedesktop.DBus.Properties", "org.freedesktop.DBus.Monitoring", "org.freedesktop.DBus.Peer"]),
                                           self.r.choice(["ListNames", "Ping", "GetAll", "GetMachineId", "BecomeMonitor", "NameHasOwner"])))
            elif x < 0.7:     # non-method-call to the bus
                self.send(cid, signal_msg(s, BUS_PATH, BUS, self.r.choice(["Hello", "NameAcquired", "X"]), dest=BUS))
            elif x < 0.85:    # opaque methods
                which = self.r.choice([("GetId", "", []), ("ListActivatableNames", "", []), ("GetConnectionUnixProcessID", "s", [BUS.encode()])])
                self.bus_call(cid, *which)
            else:
                self.send(cid, reply_msg(s, self.r.randint(1, 5), BUS, error=self.r.choice([None, "a.E"])))
        elif k == "forged":
            m = wiregen.Message()
            m.le = self.r.random() < 0.7
            m.mtype = self.r.choice([1, 4, 4, 2, 3])
            m.serial = self.serial(cid)
            m.flags = self.r.choice([0, 1, 2, 4, 0x80])
            f = [(1, ('b', 'o'), self.r.choice(PATHS)), (3, ('b', 's'), self.r.choice(MEMBERS))]
            if m.mtype == 4 or self.r.random() < 0.6: f.append((2, ('b', 's'), self.r.choice(IFACES)))
            if m.mtype in (2, 3): f.append((5, ('b', 'u'), self.r.randint(1, 5)))
            if m.mtype == 3: f.append((4, ('b', 's'), b"a.E"))
            if m.mtype != 4 or self.r.random() < 0.4: f.append((6, ('b', 's'), self.some_dest()))
            x = self.r.random()
            if x < 0.5:
                others = [v["unique"] for cc, v in self.open.items() if v["unique"] and cc != cid]
                own = c["unique"] or b":1.1"
                # (near misses of the forger's own name among them: its proper prefixes and extensions)
                near = [own[:k] for k in range(1, len(own))] + [own + b"0", own + b".1"]
                f.append((7, ('b', 's'), self.r.choice(others + [b"org.freedesktop.DBus", b":1.0", b"com.example.A"] + ([self.r.choice(near)] * 2 if self.r.random() < 0.5 else []))))
            if self.r.random() < 0.5:
                for _ in range(self.r.choice([1, 1, 2])):
                    ty = wiregen.gen_type(self.r, 2)
                    f.append((self.r.choice([11, 12, 20, 100, 255]), ty, wiregen.gen_val(self.r, ty, 1)))
            if self.r.random() < 0.3:
                f.append((10, ('b', 'o'), self.r.choice(PATHS)))
            if self.r.random() < 0.1:
                # a header field the specification defines, given twice (not a valid message: the second would survive a bus that
                # only rewrites the first)
                code = self.r.choice([7, 7, 7, 10, 6, 2])
                if code == 7:
                    f.append((7, ('b', 's'), self.r.choice([b"org.freedesktop.DBus", b":1.1", b":1.2"])))
                    f.append((7, ('b', 's'), self.r.choice([b"org.freedesktop.DBus", b":1.1", b":1.3"])))
                elif code == 10:
                    f.append((10, ('b', 'o'), b"/c1")); f.append((10, ('b', 'o'), b"/c2"))
                else:
                    f += [x for x in f if x[0] == code][:1]
            sig, vals = self.body()
            m.body_types = wiregen.parse_sig_all(sig); m.body = vals
            if sig: f.append((8, ('b', 'g'), sig.encode()))
            self.r.shuffle(f)
            m.fields = f
            self.send(cid, m)
        elif k == "badtype":
            m = wiregen.Message()
            m.mtype = self.r.choice([5, 6, 77, 255]); m.serial = self.serial(cid)
            m.fields = [(1, ('b', 'o'), b"/a"), (3, ('b', 's'), b"M")]
            if self.r.random() < 0.7: m.fields.append((6, ('b', 's'), self.some_dest()))
            self.send(cid, m)
        elif k == "nodest":
            s = self.serial(cid)
            x = self.r.random()
            if x < 0.4:
                self.send(cid, method_call(s, None, "/a", self.r.choice(["a.b", None]), "M"))
            elif x < 0.7:
                self.send(cid, method_call(s, None, "/", "org.freedesktop.DBus.Peer", self.r.choice(["Ping", "Nope"])))
            else:
                self.send(cid, reply_msg(s, 3, None, error=self.r.choice([None, "a.E"])))
        elif k == "garbage":
            x = self.r.random()
            if x < 0.4:
                data = bytes(self.r.getrandbits(8) for _ in range(self.r.choice([16, 20, 40])))
                data = b"l" + data[1:] if self.r.random() < 0.5 else data
            elif x < 0.7:
                good = bytearray(method_call(1, BUS, BUS_PATH, BUS, "ListNames").marshal())
                i = self.r.randrange(len(good)); good[i] ^= 1 << self.r.randrange(8)
                data = bytes(good)
            else:
                data = signal_msg(1, "/org/freedesktop/DBus/Local", "org.freedesktop.DBus.Local", "Disconnected").marshal()
            self.send(cid, data)
            # the model decides whether this was invalid; if it was, the connection is gone
            self.maybe_dead = cid

    # ---- descriptor passing (C15)
    def do_fdsend(self, cid):
        r = self.r
        self.count("fdsend")
        maxfds = getattr(self, "maxfds", 16)
        x = r.random()
        others = [v["unique"] for c, v in self.open.items() if v["unique"] and c != cid]
        def dest_for():
            if others and r.random() < 0.75:
                return r.choice(others).decode()
            return self.some_dest().decode()
        if r.random() < 0.3:
            lis = [c for c, v in self.open.items() if v["active"] and c != cid]
            if lis:
                self.bus_call(r.choice(lis), "AddMatch", "s", [b"type='signal'"])
        if getattr(self, "bigheader", 0) and others and r.random() < self.bigheader:
            # a header far larger than a socket buffer: the bus cannot write it to the recipient in one go
            path = "/" + "/".join("p%05d" % r.randrange(100000) for _ in range(r.choice([40000, 70000, 120000])))
            self.count("fdsend:big-header")
            m = signal_msg(self.serial(cid), path, "a.b", "M", "s", [b"big"], dest=r.choice(others).decode()) if r.random() < 0.5 else \
                method_call(self.serial(cid), r.choice(others).decode(), path, "a.b", "M", "s", [b"big"], flags=1)
        elif x < 0.45:
            sig, vals = self.body()
            dest = None if r.random() < 0.5 else dest_for()
            m = signal_msg(self.serial(cid), r.choice(PATHS).decode(), r.choice(IFACES).decode(), r.choice(MEMBERS).decode(), sig, vals, dest=dest)
        elif x < 0.85:
            sig, vals = self.body()
            m = method_call(self.serial(cid), dest_for(), r.choice(PATHS).decode(), r.choice(IFACES).decode(), "M", sig, vals,
                            flags=r.choice([0, 0, 1]))
        elif x < 0.93:
            m = reply_msg(self.serial(cid), r.randint(1, 9), dest_for(), error=r.choice([None, "a.E"]))
        else:
            m = method_call(self.serial(cid), BUS, BUS_PATH, BUS, r.choice(["GetId", "ListNames"]))
        k = r.choice([0, 0] + [1] * 9 + [2] * 7 + [3] * 4 + [maxfds, maxfds + 1, maxfds - 1])
        y = r.random()
        if y < 0.72: a = k
        elif y < 0.84: a = k + r.choice([1, 2])
        elif y < 0.89: a = max(0, k - 1)
        elif y < 0.92: a = 0
        elif y < 0.96: a = maxfds + r.choice([0, 1, 3])
        else: a = r.randint(0, maxfds)
        if k:
            m.fields.append((9, ('b', 'u'), k))
        toks = []
        for _ in range(a):
            t = getattr(self, "next_tok", 1); self.next_tok = t + 1; toks.append(t)
        data = m.marshal()
        if r.random() < 0.1:
            data += method_call(self.serial(cid), BUS, BUS_PATH, BUS, "GetId").marshal()      # a second message in the same sendmsg
        cut = r.randrange(1, len(data)) if r.random() < 0.15 else 0
        self.count("fdsend:k=%s,a=%s" % ("0" if k == 0 else "max+1" if k > maxfds else "n", "k" if a == k else "more" if a > k else "less"))
        self.ops.append(("fdsend", cid, data, toks, cut))
        c = self.open[cid]
        have = c.get("pend", 0)
        if not c["active"] or (not c.get("fd") and k > 0) or k > maxfds or a > maxfds - have or a + have < k:
            del self.open[cid]          # the bus will have dropped it: not used again
        else:
            c["pend"] = have + a - k

    # ---- hostile clients (C10)
    def template(self, cid):
        """a valid message of the kind ordinary traffic consists of"""
        r = self.r
        x = r.random()
        s = self.serial(cid)
        if x < 0.3:
            return method_call(s, BUS, BUS_PATH, BUS, r.choice(["ListNames", "GetId", "Hello"]))
        if x < 0.45:
            return method_call(s, BUS, BUS_PATH, BUS, "RequestName", "su", [r.choice(self.names), r.choice([0, 1, 2, 4])])
        if x < 0.55:
            return method_call(s, BUS, BUS_PATH, BUS, "AddMatch", "s", [self.gen_rule()])
        if x < 0.75:
            sig, vals = self.body()
            return signal_msg(s, r.choice(PATHS).decode(), r.choice(IFACES).decode(), r.choice(MEMBERS).decode(), sig, vals)
        if x < 0.9:
            sig, vals = self.body()
            return method_call(s, self.some_dest().decode(), r.choice(PATHS).decode(), r.choice(IFACES).decode(), "M", sig, vals)
        return reply_msg(s, r.randint(1, 9), self.some_dest().decode(), error=r.choice([None, "a.E"]))

    def mutate(self, m):
        """one invalid (or oddly shaped) variant of a valid message, as bytes"""
        r = self.r
        x = r.random()
        if x < 0.12:
            # exactly one header field removed, everything else as in valid traffic
            f = list(m.fields)
            if f:
                del f[r.randrange(len(f))]
            m.fields = f
            return m.marshal()
        if x < 0.3:
            # structural: fields dropped, duplicated, retyped, unknown, with invalid values
            f = list(m.fields)
            y = r.random()
            if y < 0.35 and f:
                req = [i for i, x in enumerate(f) if x[0] in (1, 2, 3, 4, 5)]
                del f[r.choice(req) if req and r.random() < 0.8 else r.randrange(len(f))]
            elif y < 0.5 and f:
                f.append(r.choice(f))
            elif y < 0.65 and f:
                i = r.randrange(len(f)); c, t, v = f[i]
                f[i] = (c, r.choice([('b', 's'), ('b', 'o'), ('b', 'u'), ('b', 'g')]), v if not isinstance(v, int) else b"x")
                if f[i][1] == ('b', 'u'): f[i] = (c, ('b', 'u'), 7)
            elif y < 0.8:
                f.append((r.choice([0, 10, 11, 200]), ('b', 's'), b"x"))
            else:
                i = r.randrange(len(f)) if f else 0
                if f:
                    c, t, v = f[i]
                    f[i] = (c, t, r.choice([b"", b"bad name", b"//", b"a..b", b"\xff", b"x" * 300]) if not isinstance(v, int) else 0)
            m.fields = f
            if r.random() < 0.2: m.mtype = r.choice([0, 5, 255])
            if r.random() < 0.1: m.flags = r.choice([0x80, 0xff])
            try:
                return m.marshal()
            except Exception:
                return b"l\x01\x00\x01" + bytes(12)
        data = bytearray(m.marshal())
        if x < 0.5:
            # length words and fixed header at limit values
            off = r.choice([4, 12, 8, 0, 1, 2, 3])
            if off in (4, 12, 8):
                cur = int.from_bytes(data[off:off + 4], "little")
                v = r.choice([0, 1, 7, cur + 1, max(0, cur - 1), cur + 8, 0x7fffffff, 0xffffffff, 1 << 27, (1 << 27) + 1, 1 << 26, (1 << 26) + 1, 0x80000000])
                data[off:off + 4] = (v & 0xffffffff).to_bytes(4, "little")
            else:
                data[off] = r.choice([0, 1, 2, 4, 5, ord("B"), ord("l"), 0xff])
            return bytes(data)
        if x < 0.7:
            for _ in range(r.choice([1, 1, 2, 8])):
                i = r.randrange(len(data)); data[i] ^= 1 << r.randrange(8)
            return bytes(data)
        if x < 0.85:
            return bytes(data[:r.randrange(1, len(data))])        # left half-sent
        return bytes(r.getrandbits(8) for _ in range(r.choice([1, 3, 16, 17, 64, 500])))

    def do_hostile(self, cid):
        r = self.r
        x = r.random()
        self.count("hostile")
        good = lambda: self.template(cid).marshal()
        # a connection that has not said Hello is closed by the bus at its first message that is not Hello - but libdbus still dispatches what
        # it had already read from it (a Hello further on in the same write is carried out on the dying connection: a unique name is used up,
        # NameOwnerChanged goes out twice). That is not in the model (which drops the connection at once), so such a connection writes one
        # message at a time.
        fresh = not (self.open.get(cid) or {}).get("active")
        if fresh and 0.4 <= x < 0.55:
            x = 0.1
        if fresh and 0.8 <= x < 0.9:
            self.count("hostile:valid alone"); self.ops.append(("raw", cid, good(), True)); return
        if x < 0.4:
            data = self.mutate(self.template(cid)); kind = "mutated"
        elif x < 0.55:
            data = good() + self.mutate(self.template(cid)) + good(); kind = "valid+mutated+valid"
        elif x < 0.65:
            n = r.choice([50, 200, 600])
            m = r.choice([lambda: method_call(self.serial(cid), BUS, BUS_PATH, BUS, "GetId"),
                          lambda: signal_msg(self.serial(cid), "/a", "a.b", "M", "s", [b"x" * r.choice([1, 100])]),
                          lambda: method_call(self.serial(cid), BUS, BUS_PATH, BUS, "AddMatch", "s", [self.gen_rule()])])
            data = b"".join(m().marshal() for _ in range(n)); kind = "flood"
            self.count("hostile:flood"); self.ops.append(("raw", cid, data, True)); return
        elif x < 0.8:
            whole = good()
            cut = r.randrange(1, len(whole))
            self.ops.append(("raw", cid, whole[:cut])); self.count("hostile:split")
            for _ in range(r.choice([0, 1, 3])):
                self.step()
            if cid in self.open:
                self.ops.append(("raw", cid, whole[cut:]))
            return
        elif x < 0.9:
            data = good() + good() + good(); kind = "valid x3 in one write"
            self.count("hostile:" + kind); self.ops.append(("raw", cid, data, True)); return
        else:
            data = b""; kind = "empty"
            data = bytes(r.getrandbits(8) for _ in range(r.choice([1, 15, 16, 33])))
        self.count("hostile:" + kind)
        self.ops.append(("raw", cid, data))
        if r.random() < 0.25 and cid in self.open:
            self.ops.append(("close", cid)); del self.open[cid]; self.count("close")      # abrupt close after any prefix
        elif kind in ("mutated", "valid+mutated+valid", "empty") and cid in self.open:
            del self.open[cid]      # most probably dropped by the bus by now: not used again (it is left open, silent)

    def do_preauth(self):
        r = self.r
        self.count("preauth")
        pre = getattr(self, "pre", {})
        self.pre = pre
        if pre and r.random() < 0.4:
            k = r.choice(list(pre))
        else:
            if len(pre) >= 8:
                k = r.choice(list(pre)); self.ops.append(("preauth", k, b"", True)); del pre[k]
            k = getattr(self, "next_pre", 0); self.next_pre = k + 1
            pre[k] = True
        data = r.choice([b"", b"\0", b"\0AUTH\r\n", b"\0AUTH EXTERN", b"AUTH EXTERNAL 30\r\n", b"\0AUTH EXTERNAL 30\r\n", b"\0AUTH EXTERNAL 30\r\nBEGIN\r\n",
                         b"\0AUTH EXTERNAL 30\r\nBEGIN\r\ngarbage after begin", b"\0" + b"AUTH\r\n" * 7, b"\0" + b"X" * 20000, b"\0AUTH \n\r\n",
                         b"\0AUTH ANONYMOUS\r\nBEGIN\r\n", b"\0" + bytes(r.getrandbits(8) for _ in range(40)), b"\0DATA\r\nCANCEL\r\nERROR\r\n",
                         b"\0AUTH DBUS_COOKIE_SHA1 30\r\n", b"\0AUTH EXTERNAL 30\r\nNEGOTIATE_UNIX_FD\r\nBEGIN\r\nl\x01\x00\x01\xff\xff\xff\xff"])
        close = r.random() < 0.35
        self.ops.append(("preauth", k, data, close))
        if close:
            pre.pop(k, None)

    def gen_rule(self):
        x = self.r.random()
        if x < 0.25 and self.rule_uniques:
            return rulegen.gen_rule(self.r)
        parts = []
        if self.r.random() < 0.6: parts.append(b"type='" + self.r.choice([b"signal", b"signal", b"method_call", b"error", b"method_return"]) + b"'")
        if self.r.random() < 0.35: parts.append(b"interface='" + self.r.choice(IFACES + [BUS.encode()]) + b"'")
        if self.r.random() < 0.3: parts.append(b"member='" + self.r.choice(MEMBERS + [b"NameOwnerChanged"]) + b"'")
        if self.r.random() < 0.25: parts.append(self.r.choice([b"path='", b"path_namespace='"]) + self.r.choice(PATHS) + b"'")
        if self.r.random() < 0.25:
            uniques = [v["unique"] for v in self.open.values() if v["unique"]] if self.rule_uniques else []
            if self.rule_uniques and self.r.random() < 0.5:     # also names the bus has not handed out yet,
                uniques = uniques + [(":1.%d" % self.r.randint(1, self.next_unique + 12)).encode() for _ in range(3)]
                if uniques and self.r.random() < 0.6:           # ... among them textual extensions of live ones
                    uniques = uniques + [self.r.choice(uniques) + str(self.r.randint(0, 9)).encode() for _ in range(4)]
            parts.append(b"sender='" + self.r.choice(NAMES + uniques * 3 + [BUS.encode()]) + b"'")
        if self.r.random() < 0.15:
            uniques = [v["unique"] for v in self.open.values() if v["unique"]] if self.rule_uniques else []
            parts.append(b"destination='" + self.r.choice(NAMES + uniques) + b"'")
        if self.r.random() < 0.2 and not self.no_eavesdrop: parts.append(b"eavesdrop='" + self.r.choice([b"true", b"false"]) + b"'")
        if self.r.random() < 0.3:
            parts.append(self.r.choice([b"arg0='", b"arg1='", b"arg0path='", b"arg0namespace='"]) + self.r.choice(ARGV) + b"'")
        return b",".join(parts)


def history(rng, n_ops, **kw):
    if "script" in kw:
        return list(kw["script"][rng.randrange(len(kw["script"]))] if kw.get("pick") else kw["script"]), {"scripted": 1}
    g = Gen(rng, **kw)
    g.start()
    while len(g.ops) < n_ops:
        g.step()
    return g.ops, g.stats
