"""Generic check flow shared by all properties (DESIGN §2.5)."""
import os, sys, json, time, importlib, traceback
from .common import *
from . import build, lean


class Ctx:
    def __init__(self, pid, tier):
        self.pid, self.tier, self.seed = pid, tier, seed()
        self.t0 = time.time()
        self.obligations = []      # {name, kind, ok, detail}
        self.violations = []       # {what, replay(dict), failing_input(bool)}
        self.known_lines = []      # strings
        self.coverage = {}
        self.assumptions = []
        self.notes = []

    def oblige(self, name, kind, ok, detail=""):
        self.obligations.append({"name": name, "kind": kind, "ok": bool(ok), "detail": detail})

    def violate(self, what, replay, failing_input=True):
        self.violations.append({"what": what, "replay": replay, "failing_input": failing_input})

    def quick(self):
        return self.tier == "quick"


def load_findings(pid):
    path = os.path.join(ROOT, "known-findings.json")
    if not os.path.exists(path):
        return []
    data = json.load(open(path))
    return [e for e in data.get("findings", []) if e.get("property") == pid]


def lean_obligations(ctx, module, theorems, tables=()):
    """Builds the property's theorem module (and so every table lemma it imports), audits axioms."""
    changed, tabtext = lean.regenerate_tables()
    lean.build_driver()
    ok, out = lean.build_module(module)
    ctx.lean_log = out
    bad = lean.forbidden_constructs()
    ctx.oblige("no sorry/admit/axiom/native_decide/bv_decide/implemented_by/unsafe in lean/", "audit", not bad, "; ".join(bad))
    tab_ok, tab_out = (True, "")
    if tables:
        tab_ok, tab_out = lean.build_module("Dbus.Proofs.Tables")
        axs, raw = lean.print_axioms("Dbus.Proofs.Tables", ["Dbus.Proofs.Tables." + t for t in tables]) if tab_ok else ({}, tab_out)
        for t in tables:
            a = axs.get("Dbus.Proofs.Tables." + t)
            good = tab_ok and a is not None and a <= lean.ALLOWED_AXIOMS
            ctx.oblige("table " + t, "generated-table", good,
                       "" if good else "regenerated table no longer equals its Spec definition (or lemma missing)")
    if ok:
        axs, raw = lean.print_axioms(module, [module + "." + t for t in theorems])
    else:
        axs, raw = {}, out
    for t in theorems:
        a = axs.get(module + "." + t)
        good = ok and a is not None and a <= lean.ALLOWED_AXIOMS
        detail = "" if good else ("module %s does not build" % module if not ok else
                                  ("theorem missing" if a is None else "axioms: %s" % sorted(a)))
        ctx.oblige("theorem " + module + "." + t, "theorem", good, detail)
        if good:
            ctx.coverage.setdefault("axioms", {})[t] = sorted(a)
    if ok and not ctx.quick():
        rok, rout = lean.recheck(module)
        ctx.oblige("leanchecker re-checks the compiled module " + module, "audit", rok, "" if rok else rout)
    ctx.tables_changed = changed
    return ok and tab_ok


def finish(ctx):
    """Turns obligations/violations into output lines, evidence and an exit code."""
    os.makedirs(REPLAYS, exist_ok=True)
    os.makedirs(EVIDENCE, exist_ok=True)
    broken = [o for o in ctx.obligations if not o["ok"]]
    have_input = any(v["failing_input"] for v in ctx.violations)
    if broken and not have_input and not any(not v["failing_input"] for v in ctx.violations):
        ctx.violate("proof obligation / correspondence no longer checks: " + "; ".join(o["name"] for o in broken[:6]),
                    {"broken_obligations": broken, "lean_log_tail": getattr(ctx, "lean_log", "")[-3000:]}, failing_input=False)
    lines = []
    for k in ctx.known_lines:
        lines.append("KNOWN-FINDING: property=%s %s" % (ctx.pid, k))
    # report at most a handful of violations, failing inputs first
    vs = sorted(ctx.violations, key=lambda v: not v["failing_input"])
    if have_input:
        vs = [v for v in vs if v["failing_input"]]
    for n, v in enumerate(vs[:5]):
        path = os.path.join(REPLAYS, "%s-%d-%d.json" % (ctx.pid, ctx.seed, n))
        with open(path, "w") as f:
            json.dump({"property": ctx.pid, "tier": ctx.tier, "seed": ctx.seed, "what": v["what"],
                       "failing_input_found": v["failing_input"], "replay": v["replay"]}, f, indent=1, default=str)
        lines.append("VIOLATION property=%s replay=%s%s" % (ctx.pid, path, "" if v["failing_input"] else " no-failing-input-found"))
    cov = dict(ctx.coverage)
    cov["obligations"] = len(ctx.obligations)
    cov["discharged"] = sum(1 for o in ctx.obligations if o["ok"])
    cov["obligation_list"] = [{"name": o["name"], "kind": o["kind"], "ok": o["ok"]} for o in ctx.obligations]
    cov.setdefault("checker_cmd", "cd lean && lake build Dbus.Props.%s && lake env lean <audit file with #print axioms>; correspondence: bin/check %s --tier %s" % (ctx.pid, ctx.pid, ctx.tier))
    cov.setdefault("trusted_base", [
        "Lean 4.33 kernel; axioms per theorem as listed under coverage.axioms (subset of propext, Classical.choice, Quot.sound)",
        "Spec layer (lean/Dbus/Spec) as the meaning of 'right'",
        "T-tie: gen/tab_*.c + gen/render.py + gcc (tables are what this compiler makes of the macros)",
        "K-tie: C/Python harnesses, generators (coverage = what they reach), compiled Lean driver executing the model",
        "modelled, not verified: every line of C (heap safety/termination are sanitizer observations)"])
    ev = {"property_id": ctx.pid, "tier": ctx.tier, "seed": ctx.seed, "level": "proof", "coverage": cov,
          "assumptions": ctx.assumptions, "wall_s": round(time.time() - ctx.t0, 2),
          "violations": len([l for l in lines if l.startswith("VIOLATION")])}
    with open(os.path.join(EVIDENCE, ctx.pid + ".json"), "w") as f:
        json.dump(ev, f, indent=1, default=str)
    for l in lines:
        print(l, flush=True)
    print("%s tier=%s seed=%d obligations=%d discharged=%d evaluations=%s wall=%.1fs" % (
        ctx.pid, ctx.tier, ctx.seed, cov["obligations"], cov["discharged"], cov.get("evaluations"), ev["wall_s"]), flush=True)
    return 1 if ev["violations"] else 0


def main(argv):
    import argparse
    ap = argparse.ArgumentParser()
    ap.add_argument("pid", nargs="?")
    ap.add_argument("--tier", default=os.environ.get("VERIF_TIER", "quick"), choices=["quick", "thorough"])
    ap.add_argument("--replay")
    ap.add_argument("--setup", action="store_true")
    a = ap.parse_args(argv)
    try:
        if a.setup:
            build.ensure_repo_build()
            lean.regenerate_tables()
            lean.build_driver()
            ok, out = lean.build_module("Dbus")
            print("setup: repo build ok, lean library %s" % ("ok" if ok else "HAS ERRORS"))
            if not ok:
                print(out[-3000:])
            return 0
        mod = importlib.import_module("verifkit.props." + a.pid.lower())
        build.ensure_repo_build()
        if a.replay:
            return mod.replay(a.replay)
        ctx = Ctx(a.pid, a.tier)
        mod.run(ctx)
        return finish(ctx)
    except InfraError as e:
        print("INFRASTRUCTURE-ERROR: %s" % e, file=sys.stderr)
        return 2
