"""Raw-wire client library and daemon supervisor for the bus-level checks.
Clients speak SASL and the message protocol themselves (own marshalling), so forged headers,
unknown fields, big-endian messages and invalid bytes can be produced."""
import os, socket, subprocess, time, tempfile, shutil, select, struct, array, signal
from .common import *
from . import build, wiregen

DAEMON = os.path.join(BUILD, "bin", "dbus-daemon")
RUNROOT = os.path.join(CACHE, "run")

SESSION_POLICY = """
  <policy context="default">
    <allow send_destination="*" eavesdrop="true"/>
    <allow eavesdrop="true"/>
    <allow own="*"/>
  </policy>
"""


class Daemon:
    def __init__(self, policy=SESSION_POLICY, limits=None, extra="", auth=None, servicedirs=(), bus_type="session", env_extra=None, cli_address=False):
        """cli_address: the listening address is given on the command line (--address=, as systemd units and dbus-run-session do); the
        configuration file's <listen> then names a socket nobody uses"""
        os.makedirs(RUNROOT, exist_ok=True)
        self.dir = tempfile.mkdtemp(prefix="bus-", dir=RUNROOT)
        for d in (self.dir, RUNROOT):       # clients of other uids must be able to reach the socket
            try:
                os.chmod(d, 0o755)
            except OSError:
                pass
        self.path = os.path.join(self.dir, "sock")
        lim = "".join('  <limit name="%s">%d</limit>\n' % kv for kv in (limits or {}).items())
        au = "".join("  <auth>%s</auth>\n" % a for a in (auth or []))
        sd = "".join("  <servicedir>%s</servicedir>\n" % d for d in servicedirs)
        self.config = """<!DOCTYPE busconfig PUBLIC "-//freedesktop//DTD D-Bus Bus Configuration 1.0//EN"
 "http://www.freedesktop.org/standards/dbus/1.0/busconfig.dtd">
<busconfig>
  <type>%s</type>
  <listen>unix:path=%s</listen>
%s%s%s%s%s
</busconfig>
""" % (bus_type, self.path + (".unused" if cli_address else ""), au, sd, policy, lim, extra)
        self.conf_path = os.path.join(self.dir, "bus.conf")
        with open(self.conf_path, "w") as f:
            f.write(self.config)
        self._old_policy = policy
        env = dict(os.environ)
        env.update({"ASAN_OPTIONS": "detect_leaks=0:abort_on_error=1", "UBSAN_OPTIONS": "print_stacktrace=1:halt_on_error=1",
                    "DBUS_FATAL_WARNINGS": "0"})
        if env_extra:
            env.update(env_extra)
            if "LD_PRELOAD" in env_extra:
                env["ASAN_OPTIONS"] += ":verify_asan_link_order=0"
        self.errf = open(os.path.join(self.dir, "stderr"), "w+")
        self.proc = subprocess.Popen([DAEMON, "--config-file=" + self.conf_path, "--nofork", "--nopidfile", "--nosyslog"] +
                                     (["--address=unix:path=" + self.path] if cli_address else []),
                                     stdout=subprocess.DEVNULL, stderr=self.errf, env=env)
        t0 = time.time()
        while not os.path.exists(self.path):
            if self.proc.poll() is not None or time.time() - t0 > 15:
                raise InfraError("dbus-daemon did not start: " + self.stderr())
            time.sleep(0.01)

    def alive(self):
        return self.proc.poll() is None

    def reload(self, policy):
        """the same configuration with another <policy> part; SIGHUP makes the daemon read it again"""
        import signal
        self.config = self.config.replace(self._old_policy, policy, 1)
        self._old_policy = policy
        tmp = self.conf_path + ".new"
        with open(tmp, "w") as f:
            f.write(self.config)
        os.replace(tmp, self.conf_path)
        self.proc.send_signal(signal.SIGHUP)

    def stderr(self):
        self.errf.flush()
        try:
            return open(os.path.join(self.dir, "stderr")).read()[-4000:]
        except OSError:
            return ""

    def nfds(self):
        try:
            return len(os.listdir("/proc/%d/fd" % self.proc.pid))
        except OSError:
            return -1

    def stop(self):
        rc = self.proc.poll()
        if rc is None:
            self.proc.terminate()
            try:
                self.proc.wait(5)
            except subprocess.TimeoutExpired:
                self.proc.kill(); self.proc.wait()
        err = self.stderr()
        self.errf.close()
        shutil.rmtree(self.dir, ignore_errors=True)
        return rc, err


class Client:
    """one raw connection to the bus"""
    def __init__(self, daemon, uid=None, fd_passing=False, begin=True, auth=True):
        self.sock = socket.socket(socket.AF_UNIX, socket.SOCK_STREAM)
        t0 = time.time()
        while True:
            try:
                self.sock.connect(daemon.path)
                break
            except ConnectionRefusedError:
                # the socket file appears at bind(), a moment before listen()
                if time.time() - t0 > 5 or not daemon.alive():
                    raise
                time.sleep(0.005)
        self.buf = bytearray()
        self.fds = []
        self.serial = 0
        self.unique = None
        self.eof = False
        self.fd_ok = False
        if auth:
            u = os.getuid() if uid is None else uid
            self.sock.sendall(b"\0AUTH EXTERNAL " + str(u).encode().hex().encode() + b"\r\n")
            line = self._readline()
            if not line.startswith(b"OK"):
                raise InfraError("auth refused: %r" % line)
            if fd_passing:
                self.sock.sendall(b"NEGOTIATE_UNIX_FD\r\n")
                self.fd_ok = self._readline().startswith(b"AGREE_UNIX_FD")
            if begin:
                self.sock.sendall(b"BEGIN\r\n")

    def _readline(self, timeout=5.0):
        t0 = time.time()
        while b"\r\n" not in self.buf:
            r, _, _ = select.select([self.sock], [], [], max(0, timeout - (time.time() - t0)))
            if not r:
                raise InfraError("timeout waiting for auth line; have %r" % bytes(self.buf))
            d = self.sock.recv(4096)
            if not d:
                self.eof = True
                return bytes(self.buf)
            self.buf += d
        i = self.buf.index(b"\r\n")
        line = bytes(self.buf[:i]); del self.buf[:i + 2]
        return line

    def next_serial(self):
        self.serial += 1
        return self.serial

    def send_raw(self, data, fds=()):
        try:
            if fds:
                self.sock.sendmsg([data], [(socket.SOL_SOCKET, socket.SCM_RIGHTS, array.array("i", fds))])
            else:
                self.sock.sendall(data)
            return True
        except (BrokenPipeError, ConnectionResetError, OSError):
            self.eof = True
            return False

    def send(self, m, fds=()):
        return self.send_raw(m.marshal(), fds)

    def _fill(self, timeout):
        r, _, _ = select.select([self.sock], [], [], timeout)
        if not r:
            return False
        try:
            data, anc, flags, _ = self.sock.recvmsg(65536, socket.CMSG_LEN(256 * 4))
        except (ConnectionResetError, OSError):
            self.eof = True
            return False
        for level, typ, cdata in anc:
            if level == socket.SOL_SOCKET and typ == socket.SCM_RIGHTS:
                a = array.array("i"); a.frombytes(cdata[:len(cdata) - len(cdata) % 4]); self.fds += list(a)
        if not data:
            self.eof = True
            return False
        self.buf += data
        return True

    def pop_message(self):
        n = wiregen.message_length(self.buf)
        if n is None or len(self.buf) < n:
            return None
        raw = bytes(self.buf[:n]); del self.buf[:n]
        return wiregen.parse_message(raw)

    def recv_until(self, pred, timeout=5.0):
        """read messages until pred(msg) is true; returns the list read (including the match) or None on timeout/EOF"""
        out = []
        t0 = time.time()
        while True:
            m = self.pop_message()
            if m is not None:
                out.append(m)
                if pred(m):
                    return out
                continue
            if self.eof:
                return None if not out else out + [None]
            left = timeout - (time.time() - t0)
            if left <= 0:
                return None
            self._fill(left)

    def drain(self, idle=0.05):
        """everything that arrives until the socket stays idle for `idle` seconds"""
        out = []
        while True:
            m = self.pop_message()
            if m is not None:
                out.append(m); continue
            if self.eof or not self._fill(idle):
                m = self.pop_message()
                if m is None:
                    return out
                out.append(m)

    def close(self):
        try:
            self.sock.close()
        except OSError:
            pass
        for fd in self.fds:
            try:
                os.close(fd)
            except OSError:
                pass
        self.fds = []


def method_call(serial, dest, path, iface, member, sig="", body=(), flags=0, le=True, extra_fields=()):
    m = wiregen.Message()
    m.le = le; m.mtype = 1; m.flags = flags; m.serial = serial
    m.fields = [(1, ('b', 'o'), path.encode()), (3, ('b', 's'), member.encode())]
    if iface is not None: m.fields.append((2, ('b', 's'), iface.encode()))
    if dest is not None: m.fields.append((6, ('b', 's'), dest.encode()))
    m.body_types = wiregen.parse_sig_all(sig); m.body = list(body)
    if sig: m.fields.append((8, ('b', 'g'), sig.encode()))
    m.fields += list(extra_fields)
    return m


def signal_msg(serial, path, iface, member, sig="", body=(), dest=None, le=True, extra_fields=()):
    m = wiregen.Message()
    m.le = le; m.mtype = 4; m.serial = serial
    m.fields = [(1, ('b', 'o'), path.encode()), (2, ('b', 's'), iface.encode()), (3, ('b', 's'), member.encode())]
    if dest is not None: m.fields.append((6, ('b', 's'), dest.encode()))
    m.body_types = wiregen.parse_sig_all(sig); m.body = list(body)
    if sig: m.fields.append((8, ('b', 'g'), sig.encode()))
    m.fields += list(extra_fields)
    return m


def reply_msg(serial, reply_serial, dest, sig="", body=(), error=None, le=True):
    m = wiregen.Message()
    m.le = le; m.mtype = 3 if error else 2; m.serial = serial
    m.fields = [(5, ('b', 'u'), reply_serial)]
    if error: m.fields.append((4, ('b', 's'), error.encode()))
    if dest is not None: m.fields.append((6, ('b', 's'), dest.encode()))
    m.body_types = wiregen.parse_sig_all(sig); m.body = list(body)
    if sig: m.fields.append((8, ('b', 'g'), sig.encode()))
    return m


BUS = "org.freedesktop.DBus"
BUS_PATH = "/org/freedesktop/DBus"


def bus_call(c, member, sig="", body=(), timeout=5.0, iface=BUS):
    """call a bus driver method and wait for its reply; returns (reply, others_before)"""
    s = c.next_serial()
    c.send(method_call(s, BUS, BUS_PATH, iface, member, sig, body))
    msgs = c.recv_until(lambda m: m.mtype in (2, 3) and m.get(5) == s, timeout)
    if not msgs or msgs[-1] is None:
        return None, (msgs or [])
    return msgs[-1], msgs[:-1]


def hello(c):
    r, before = bus_call(c, "Hello")
    if r is None or r.mtype != 2:
        raise InfraError("Hello failed")
    c.unique = r.body[0].decode()
    return before
