"""Build /repo's working tree (instrumented) and the C harnesses against it."""
import os, glob, shlex
from .common import *

TARGETS = ["dbus-1", "dbus-internal", "dbus-daemon-internal", "dbus-daemon", "launch-helper-internal"]


def ensure_repo_build():
    """cmake + ninja of /repo's current working tree into .cache/build (incremental)."""
    with locked("build"):
        os.makedirs(CACHE, exist_ok=True)
        if not os.path.exists(os.path.join(BUILD, "build.ninja")):
            p = run(["cmake", "-G", "Ninja", "-S", REPO, "-B", BUILD,
                     "-DDBUS_BUILD_TESTS=ON", "-DDBUS_ENABLE_EMBEDDED_TESTS=ON", "-DDBUS_WITH_GLIB=OFF",
                     "-DDBUS_ENABLE_DOXYGEN_DOCS=OFF", "-DDBUS_ENABLE_XML_DOCS=OFF", "-DCMAKE_BUILD_TYPE=Debug",
                     "-DCMAKE_C_FLAGS=" + " ".join(CFLAGS)])
            if p.returncode != 0:
                raise InfraError("cmake configure failed:\n" + p.stdout[-3000:] + p.stderr[-3000:])
        p = run(["ninja", "-C", BUILD] + TARGETS)
        if p.returncode != 0:
            raise InfraError("build of /repo working tree failed:\n" + p.stdout[-6000:] + p.stderr[-3000:])
    return BUILD


def _newest(paths):
    m = 0
    for p in paths:
        try:
            m = max(m, os.path.getmtime(p))
        except OSError:
            pass
    return m


def repo_sources_mtime():
    pats = ["dbus/*.c", "dbus/*.h", "bus/*.c", "bus/*.h"]
    fs = []
    for pat in pats:
        fs += glob.glob(os.path.join(REPO, pat))
    return _newest(fs)


def cc(name, sources, daemon=False, extra=None, always=False):
    """Compile a harness translation unit against the instrumented build. Harnesses that
    #include repo .c files must be rebuilt whenever the repo sources change."""
    os.makedirs(BIN, exist_ok=True)
    out = os.path.join(BIN, name)
    srcs = [s if os.path.isabs(s) else os.path.join(ROOT, s) for s in sources]
    libs = [os.path.join(BUILD, "lib", "libdbus-internal.a"), os.path.join(BUILD, "lib", "libdbus-1.so")]
    if daemon:
        libs.insert(0, os.path.join(BUILD, "lib", "libdbus-daemon-internal.a"))
    with locked("cc-" + name):
        dep_m = max(_newest(srcs + libs), repo_sources_mtime())
        if not always and os.path.exists(out) and os.path.getmtime(out) >= dep_m:
            return out
        cmd = ["gcc", "-O1", "-g", "-DHAVE_CONFIG_H", "-DDBUS_COMPILATION", "-D_GNU_SOURCE"] + CFLAGS + \
              ["-I" + BUILD, "-I" + REPO, "-I" + os.path.join(REPO, "dbus"), "-I" + os.path.join(ROOT, "harness", "lib")] + \
              (extra or []) + srcs + ["-o", out + ".tmp"]
        if daemon:
            cmd += [os.path.join(BUILD, "lib", "libdbus-daemon-internal.a")]
        cmd += [os.path.join(BUILD, "lib", "libdbus-internal.a"), "-L" + os.path.join(BUILD, "lib"),
                "-Wl,-rpath," + os.path.join(BUILD, "lib"), "-ldbus-1", "-lpthread"]
        if daemon:
            cmd += ["-lexpat", "-lsystemd"]
        p = run(cmd)
        if p.returncode != 0:
            raise InfraError("harness %s failed to compile:\n%s" % (name, p.stderr[-6000:]))
        os.replace(out + ".tmp", out)
    return out


ASAN_ENV = {"ASAN_OPTIONS": "detect_leaks=0:abort_on_error=0:exitcode=99",
            "UBSAN_OPTIONS": "print_stacktrace=1:halt_on_error=1:exitcode=98"}
