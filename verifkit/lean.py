"""T-tie (tabulator -> Generated), lake build, axiom audit."""
import os, re, glob
from .common import *
from . import build

GEN_SRCS = ["gen/tab_main.c", "gen/tab_validate.c", "gen/tab_string.c"]
ALLOWED_AXIOMS = {"propext", "Classical.choice", "Quot.sound"}
FORBIDDEN = re.compile(r"\b(sorry|admit|native_decide|bv_decide|implemented_by|unsafe)\b|^\s*axiom\s|maxHeartbeats\s+0\b", re.M)


def regenerate_tables():
    """Compile the tabulator against the working tree, run it, render Generated/Tables.lean.
    Returns (changed, text)."""
    exe = build.cc("tabulate", GEN_SRCS, always=False)
    p = run([exe], env=build.ASAN_ENV)
    if p.returncode != 0:
        raise InfraError("tabulator failed:\n" + p.stderr[-3000:])
    exe2 = build.cc("tabulate_bus", ["gen/tab_bus.c"], daemon=True, always=False)
    p2 = run([exe2], env=build.ASAN_ENV)
    if p2.returncode != 0:
        raise InfraError("bus tabulator failed:\n" + p2.stderr[-3000:])
    p.stdout = p.stdout + p2.stdout
    import importlib.util
    spec = importlib.util.spec_from_file_location("render", os.path.join(ROOT, "gen", "render.py"))
    mod = importlib.util.module_from_spec(spec); spec.loader.exec_module(mod)
    text = mod.render(p.stdout)
    dst = os.path.join(LEAN, "Dbus", "Generated", "Tables.lean")
    os.makedirs(os.path.dirname(dst), exist_ok=True)
    old = open(dst).read() if os.path.exists(dst) else None
    if old != text:
        with open(dst, "w") as f:
            f.write(text)
        return True, p.stdout
    return False, p.stdout


def _strip_comments(src):
    # remove /- ... -/ (nested not handled beyond one level, adequate for our files) and -- comments
    out, i, depth = [], 0, 0
    while i < len(src):
        if src.startswith("/-", i):
            depth += 1; i += 2; continue
        if depth and src.startswith("-/", i):
            depth -= 1; i += 2; continue
        if depth:
            i += 1; continue
        if src.startswith("--", i):
            j = src.find("\n", i)
            i = len(src) if j < 0 else j
            continue
        out.append(src[i]); i += 1
    return "".join(out)


def forbidden_constructs():
    bad = []
    for f in glob.glob(os.path.join(LEAN, "Dbus", "**", "*.lean"), recursive=True) + glob.glob(os.path.join(LEAN, "Driver", "*.lean")):
        src = _strip_comments(open(f).read())
        for m in FORBIDDEN.finditer(src):
            bad.append("%s: %s" % (os.path.relpath(f, ROOT), m.group(0).strip()))
    return bad


def build_driver():
    with locked("lake"):
        p = run(["lake", "build", "dbus-model"], cwd=LEAN)
    if p.returncode != 0:
        raise InfraError("model driver failed to build:\n" + (p.stdout + p.stderr)[-6000:])
    return DRIVER


def build_module(mod):
    """lake build of one module and everything it imports. Returns (ok, log)."""
    with locked("lake"):
        p = run(["lake", "build", mod], cwd=LEAN)
    return p.returncode == 0, (p.stdout + p.stderr)


def recheck(mod):
    """the toolchain's independent re-checker over the compiled module (replays every declaration through the kernel)"""
    with locked("lake"):
        p = run(["lake", "env", "leanchecker", mod], cwd=LEAN)
    return p.returncode == 0, (p.stdout + p.stderr)[-1500:]


def print_axioms(module, theorems):
    """Returns {theorem: set(axioms)} or {theorem: None} if it does not exist/check."""
    os.makedirs(CACHE, exist_ok=True)
    path = os.path.join(CACHE, "audit_%s.lean" % module.replace(".", "_"))
    with open(path, "w") as f:
        f.write("import %s\n" % module)
        for t in theorems:
            f.write("#print axioms %s\n" % t)
    with locked("lake"):
        p = run(["lake", "env", "lean", path], cwd=LEAN)
    out = p.stdout + p.stderr
    res = {t: None for t in theorems}
    # outputs: "'X' depends on axioms: [a, b]" or "'X' does not depend on any axioms"
    for m in re.finditer(r"'([^']+)' depends on axioms: \[([^\]]*)\]", out):
        res[m.group(1)] = set(a.strip() for a in m.group(2).replace("\n", " ").split(",") if a.strip())
    for m in re.finditer(r"'([^']+)' does not depend on any axioms", out):
        res[m.group(1)] = set()
    return res, out
